"""C10 — macros record each field once, typed, in order; disabled ones evaluate nothing.

R1 lazy evaluation / exactly-once of field and message expressions (macro expansions, fixtures)
R2 order, pairing, names and sigils of the recorded values (macro expansions, fixtures)
R4 typed dispatch table of every `impl Value for T` in tracing-core
R5 ValueSet::record / Span::record visit rules
"""
import re
from rulekit import Facts, where, proj_names
from rulekit.query import iter_places as _iter_places
from rulekit.sym import PathEval, show, canon
from rulekit.query import option_test, recv_fields, closure_of_term
from rules import fxlib

FIELD = "tracing_core::field::"
VISIT = FIELD + "Visit"
VALUE = FIELD + "Value"

# self type -> (Visit method, allowed argument cast)
PRIM_TABLE = {
    "u8": "record_u64", "u16": "record_u64", "u32": "record_u64", "u64": "record_u64", "usize": "record_u64",
    "i8": "record_i64", "i16": "record_i64", "i32": "record_i64", "i64": "record_i64", "isize": "record_i64",
    "u128": "record_u128", "i128": "record_i128", "bool": "record_bool", "f32": "record_f64", "f64": "record_f64",
    "str": "record_str", "alloc::string::String": "record_str", "[u8]": "record_bytes",
}
WIDTH = {"u8": 8, "u16": 16, "u32": 32, "u64": 64, "usize": 64, "u128": 128, "i8": 8, "i16": 16, "i32": 32, "i64": 64, "isize": 64,
         "i128": 128, "f32": 32, "f64": 64}


def run(ck):
    ck.explanation = (
        "Translation validation of the macros' output on a generated corpus (every macro x prefix set x field form; "
        "thorough adds seeded random invocations): in the MIR of each expansion the field/message marker calls occur "
        "exactly once, only behind the full enabled guard, and the value array handed to FieldSet::value_set pairs the "
        "i-th FieldSet::Iter::next with the i-th declared expression (message first), through field::debug/display "
        "exactly for the ?/% sigils; the const-evaluated static FieldSet lists the declared names in order. Plus the "
        "typed-dispatch table of every `impl Value` in tracing-core and the visit rule of ValueSet::record. Decides the "
        "structural part (which expression reaches which visitor method, in which order, evaluated when), not value "
        "identity for arbitrary run-time values.")
    ck.assumptions += ["marker functions stand for arbitrary field expressions (the macros cannot inspect them)",
                       "Display/Debug text of values and visitor implementations are outside the claim"]
    ck.rule("C10.R1", "field/message expressions: exactly once, only behind the full enabled guard", floor=500)
    ck.rule("C10.R2", "recorded values: declared names in order, message first, i-th field <-> i-th value, sigils", floor=300)
    ck.rule("C10.R2c", "every valueset! field-form arm is exercised by a fixture function", floor=20)
    ck.rule("C10.R4", "impl Value for T calls exactly the visitor method for its type", floor=30)
    ck.rule("C10.R5", "ValueSet::record visits a pair iff same callsite and Some; Span::record ignores undeclared", floor=3)
    ck.rule("C10.R10", "record_all!: the span's field set is only known at run time, so each value's key is looked up by the name written at the call site", floor=1)
    ck.rule("C10.R11", "with the `log` feature a field expression outside the enabled branch is evaluated only where a log record can be emitted (no collector ever installed, level <= log::max_level())", floor=150)
    ck.rule("C10.R12", "`disabled statically`: the compile-time ceiling every macro tests first is the documented one for each feature combination and build profile (as C01.R8)", floor=30)
    ck.rule("C10.R13", "an enabled callsite is never parked at a definitive `never` by a racing first hit (registration state machine as C04.R4; interest byte written only by set_interest as C01.R7)", floor=5)
    ck.rule("C10.R14", "`the collector` whose visitor sees the fields is the emitting thread's current one: get_default's path choice and the writers of the per-thread default (as C02.R2/R3)", floor=6)
    ck.rule("C10.R15", "a registered callsite stays reachable for every later re-evaluation: the lock-free list's push links to the head it observed, on every retry (as C04.R3)", floor=5)
    ck.rule("C10.R16", "the value set a macro built reaches the collector's visitor through Dispatch unchanged: new_span / record / event forward 1:1 (as C09.R4)", floor=3)
    ck.rule("C10.R21", "the last filtering stage asks the collector get_default names (also on a thread that is exiting): the macros' support code never uses get_current (as C02.R12)", floor=3)
    ck.rule("C10.R20", "visitor adaptors are transparent to the type of a value: every Visit wrapper overrides each provided record_* method and forwards it to the "
            "same method of the visitor it wraps (as C09.R1/R2)", floor=20)
    ck.rule("C10.R19", "a field key denotes one position of one callsite: keys are equal only with equal callsite *and* index, the set's iterator hands out "
            "positions 0..len in order with the set's own names and callsite, lookup by name yields the position whose name matched", floor=5)
    ck.rule("C10.R18", "a key names a field of *this* span or nothing: a Field key is accepted only when it is from the span's own callsite "
            "(callsite identity compared, the key itself handed back), a string key only through the span's own field set", floor=3)
    ck.rule("C10.R17", "every way of making a Dispatch registers it with the callsite registry, so its collector is asked about every callsite and the max level covers it (as C01.R6)", floor=3)
    ck.rule("C10.R9", "an enabled emission is not skipped by a stale `never`: the interest a first hit caches is the fold over the registered dispatchers, computed under the registry lock (as C04.R1)", floor=3)
    ck.rule("C10.R8", "`a collector has been installed` is sticky (as C18.R5): disabled callsites evaluate nothing also with the log feature", floor=3)
    ck.rule("C10.R7", "collector wrappers forward register_callsite/enabled and the records themselves (as C09.R1/R2)", floor=20)
    ck.rule("C10.R6", "recorded values reach the collector: the dispatcher's re-entrancy flag is given back on every exit (as C02.R6)", floor=3)
    fx = "fx" if ck.tier == "quick" else "fx:%d:300" % ck.seed
    FX = Facts(fx)
    ck.configs.append(fx)
    used = set()
    for fname, exp in sorted(FX.expect.items()):
        if exp["kind"] == "enabled":
            continue
        b = FX.body("fx_macros::macros_gen::" + fname)
        if not ck.anchor("C10.R1", fname, b):
            continue
        r1(ck, FX, b, fname, exp)
        r2(ck, FX, b, fname, exp)
        used |= fxlib.valueset_lines_used(FX, b)
    for line in fxlib.valueset_arms():
        if line in used:
            ck.ok("C10.R2c", "macros.rs:%d" % line, nontrivial=False)
        else:
            ck.bad("C10.R2c", "valueset! arm uncovered", "tracing/src/macros.rs:%d" % line,
                   "no fixture function expands the valueset! arm that builds its (key, value) pair at line %d: extend fixtures/gen_fixtures.py" % line)
    r10(ck, FX)
    r11(ck)
    from rules import C01
    C01.r8(ck, rid="C10.R12")
    F = Facts("default")
    ck.configs.append("default")
    r4(ck, F)
    r5(ck, F)
    # the values an enabled macro built reach the collector only if the dispatcher lookup hands it out: the
    # re-entrancy flag taken around every collector callback must be given back even when a callback (e.g. a field's
    # Debug impl running inside the collector's visitor) panics, or every later macro on the thread records into nothing
    from rules import C02
    C02.r6(ck, F, rid="C10.R6")
    # ... and only if every collector wrapper on the way passes the questions and the records on (C09.R1/R2, instantiated)
    # with the `log` feature a disabled callsite builds its value set for the log record unless a collector was ever
    # installed: that flag must be set by both install paths and never cleared (C18.R5 / C02.R5)
    from rules import C18
    C18.r5(ck, F, rid="C10.R8")
    from rules import C04
    C04.r1(ck, F, rid="C10.R9")
    C04.r4(ck, F, rid="C10.R13")
    C04.r3(ck, F, rid="C10.R15")
    from rules import C01 as _C01b
    _C01b.r6(ck, F, rid="C10.R17")
    as_field_rule(ck, F)
    field_key_rule(ck, F)
    adaptor_siblings(ck, F)
    from rules import C02 as _C02l
    _C02l.lookup_entry_points(ck, rid="C10.R21", crates={"tracing"})
    # a visitor adaptor (Alt, Messages, VisitDelimited, ...) must hand every typed visit on to the visitor it wraps: a
    # record_* it does not override falls back to its *own* record_debug and the wrapped visitor never sees the type
    from rules import C09 as _C09v
    _C09v.wrapper_rules(ck, F, rids={"R0": "C10.R20", "R1": "C10.R20", "R2": "C10.R20", "R3": "C10.R20"}, traits=["tracing_core::field::Visit"])
    from rules import C09 as _C09x
    _C09x.dispatch_forwarding(ck, F, rid="C10.R16", only={"new_span", "record", "enabled"})
    C02.r2(ck, F, rid="C10.R14")
    C02.r3(ck, F, rid="C10.R14")
    from rules import C01 as _C01
    _C01.r7(ck, F, rid="C10.R13")
    from rules import C09
    C09.wrapper_rules(ck, F, rids={"R0": "C10.R7", "R1": "C10.R7", "R2": "C10.R7", "R3": "C10.R7"}, traits=["tracing_core::collect::Collect"],
                      only={"register_callsite", "enabled", "event_enabled", "event", "new_span", "record"})


def r10(ck, FX):
    """span!/event! build FieldSet and value array from one token list, so pairing the i-th value with the i-th
    Iter::next is exact (R2). record_all! pairs the values with the field set of whatever span it is handed: the only
    sound key for `name = value` there is a lookup of `name` in that set (FieldSet::field / Span::field) -- a key taken
    positionally from the iterator attaches the value to whichever field happens to be declared at that position."""
    b = FX.body("fx_macros::manual::record_all_subset")
    key = "record_all!: each value is attached to the field its key names"
    if not ck.anchor("C10.R10", "fixture record_all_subset", b):
        return
    vs = [(bb, t) for bb, t in b.calls() if t["callee"].get("path") == FIELD + "FieldSet::value_set"]
    if len(vs) != 1:
        ck.bad("C10.R10", key, where(b.raw["sp"]), "%d value_set calls in the record_all! fixture" % len(vs), fn=b.path)
        return
    arr = b.origin(vs[0][1]["argv"][1])
    problems = []
    pairs = 0
    if arr[0] != "agg":
        problems.append("the value array is not a literal array")
    else:
        for op in arr[1]["ops"]:
            tup = b.origin(op)
            if tup[0] != "agg" or len(tup[1]["ops"]) != 2:
                problems.append("an entry is not a (key, value) tuple")
                continue
            pairs += 1
            fo = b.origin(tup[1]["ops"][0])
            # peel Option::expect / unwrap / `?`-like adapters
            seen = 0
            while fo[0] == "call" and fo[2]["callee"].get("method") in ("expect", "unwrap", "unwrap_or_else", "as_ref") and seen < 4:
                fo = b.origin(fo[2]["argv"][0]); seen += 1
            if fo[0] == "call" and fo[2]["callee"].get("method") == "field":
                nm = [b.origin(a) for a in fo[2]["argv"]]
                if not any(x[0] == "const" and x[1].get("str") == "second" for x in nm):
                    problems.append("the key is looked up under another name than the one written (`second`)")
            elif fo[0] == "call" and fo[2]["callee"].get("method") == "next":
                problems.append("the key of `second = ..` is the next field of the span's FieldSet iterator (position 0), not the field named `second`")
            else:
                problems.append("the key of `second = ..` does not come from a by-name lookup (%s)" % fo[0])
    if pairs != 1 and not problems:
        problems.append("%d pairs built for one `name = value`" % pairs)
    if problems:
        ck.bad("C10.R10", key, "tracing/src/macros.rs (record_all!)", "; ".join(problems) + " (fixture fx_macros::manual::record_all_subset)", fn=b.path)
    else:
        ck.ok("C10.R10", key, fn=b.path)


def r11(ck):
    """`log` feature: the expansions evaluate field expressions a second time, for the `log` record made when no
    collector takes the span/event. "Not at all when it is disabled" then needs every such evaluation to sit behind the
    tests that decide whether a log record can exist: `!dispatch::has_been_set()` and `level <= log::max_level()`
    (the default max level is Off: without a logger nothing may be evaluated)."""
    from rulekit.query import guards_of
    FX = Facts("fx_log")
    ck.configs.append("fx_log")
    lv = {"TRACE": "Trace", "DEBUG": "Debug", "INFO": "Info", "WARN": "Warn", "ERROR": "Error"}
    for fname, exp in sorted(FX.expect.items()):
        if exp["kind"] not in ("span", "event"):
            continue
        b = FX.body("fx_macros_log::macros_gen::" + fname)
        if b is None:
            continue
        calls = marker_calls(FX, b)
        lazy = [m for m in exp["markers"] if m and m not in exp.get("eager", [])] + exp["msg_markers"]
        problems = []
        nsites = 0
        for m in lazy:
            for x, bb in calls.get(m, []):
                g, _ = guards_of(x, bb)
                gt = dict(g)
                if x is not b or any(t.startswith("is_enabled(") and v != 0 for t, v in g):
                    continue           # the enabled branch (events: inside the dispatch closure) -- R1's subject
                nsites += 1
                if gt.get("has_been_set()") != 0:
                    problems.append("%s is evaluated for the log record although a collector may be installed" % m)
                want = lv[exp["level"]]
                if not any((t.startswith("le(Level::%s{}, max_level())" % want) or t.startswith("ge(max_level(), Level::%s{})" % want)) and v != 0 for t, v in g):
                    problems.append("%s is evaluated for the log record without `%s <= log::max_level()`: with no logger (max level Off) a disabled %s still runs its field expressions" % (m, want, exp["kind"]))
        key = "%s [%s!, log]" % (fname, exp["macro"])
        if problems:
            ck.bad("C10.R11", "%s! (log feature): fields evaluated where no record can be emitted" % exp["macro"], where(b.raw["sp"]),
                   "; ".join(sorted(set(problems))[:3]) + " (fixture %s)" % fname, fn=b.path)
        else:
            ck.ok("C10.R11", key, fn=b.path, nontrivial=nsites > 0)


def marker_calls(FX, body):
    """{marker name: [(body, bb)]} for the function and its closures"""
    out = {}
    for b in [body] + FX.closures_of(body):
        for bb, t in b.calls():
            p = t["callee"].get("path", "")
            m = re.match(r"fx_macros(?:_log)?::macros_gen::(probe_\d+)$", p)
            if m:
                out.setdefault(m.group(1), []).append((b, bb))
    return out


def r1(ck, FX, body, fname, exp):
    cs = fxlib.callsite_of(FX, body)
    cs_static = cs[0] if cs else None
    arm = cs[3] if cs else None
    calls = marker_calls(FX, body)
    lazy = [m for m in exp["markers"] if m and m not in exp.get("eager", [])] + exp["msg_markers"]
    paths = [p for p in PathEval(body).run() if p.end in ("return", "diverge")]
    for m in lazy:
        key = "%s:%s" % (fname, m)
        vkey = "%s! arm macros.rs:%s" % (exp["macro"], arm)
        sites = calls.get(m, [])
        if len(sites) != 1:
            ck.bad("C10.R1", vkey + ": evaluation-count", where(body.raw["sp"]),
                   "field expression %s is evaluated at %d call sites in the expansion of %s (expected exactly 1)" % (m, len(sites), fname), fn=body.path)
            continue
        b, bb = sites[0]
        if b is not body:
            ck.bad("C10.R1", vkey + ": evaluated-in-closure", where(body.raw["sp"]), "field expression %s moved into a closure" % m, fn=body.path)
            continue
        ok = True
        why = ""
        n = 0
        for p in paths:
            if bb not in p.blocks:
                continue
            n += 1
            idx = p.blocks.index(bb)
            before = []
            ci = 0
            for x in p.blocks[:idx]:
                if body.blocks[x]["term"]["k"] == "switch":
                    c = p.conds[ci]
                    ci += 1
                    if c[0][0] != "const":
                        before.append(c)
            gs = {}
            for c in before:
                k, d = fxlib.classify_guard(body, c, cs_static)
                if k:
                    gs[k] = d[1]
            if not all(gs.get(g) for g in ("G1", "G2", "G3", "G4")):
                ok = False
                why = "%s is evaluated on a path where the callsite is not enabled by all filtering stages (guards seen: %s)" % (m, gs)
                break
        if ok and n == 0:
            ok, why = False, "%s is never evaluated" % m
        if ok:
            ck.ok("C10.R1", key, fn=body.path)
        else:
            ck.bad("C10.R1", vkey + ": lazy", where(body.raw["sp"]), "%s (fixture %s)" % (why, fname), fn=body.path)


def value_kind(body, op, depth=0):
    """Classify one recorded value operand -> (kind, marker/local name)"""
    o = body.origin(op)
    if o[0] == "call":
        c = o[2]["callee"]
        p = c.get("path", "")
        m = re.match(r"fx_macros(?:_log)?::macros_gen::(probe_\d+)$", p)
        if m:
            return ("plain", m.group(1))
        if p in (FIELD + "debug", FIELD + "display"):
            inner = value_kind(body, o[2]["argv"][0], depth + 1)
            return ("?" if p.endswith("debug") else "%", inner[1])
        if p.startswith("core::fmt::Arguments") or p.endswith("Arguments::<'a>::new") or "fmt::Arguments" in p:
            return ("message", None)
        return ("call:" + p, None)
    if o[0] == "const":
        d = o[1].get("def") or ""
        if d.endswith("field::Empty") or o[1].get("ty", "").endswith("field::Empty"):
            return ("empty", None)
        if "promoted" in o[1]:
            return ("const", None)
        return ("const", None)
    if o[0] in ("local", "multi"):
        return ("local", body.local_name(o[1]))
    return (o[0], None)


def r2(ck, FX, body, fname, exp, rid="C10.R2"):
    cs = fxlib.callsite_of(FX, body)
    arm = cs[3] if cs else None
    vkey = "%s! arm macros.rs:%s" % (exp["macro"], arm)
    key = fname
    if not cs:
        ck.bad(rid, vkey + ": no-callsite", where(body.raw["sp"]), "no callsite static for %s" % fname)
        return
    meta = cs[2]["val"]["f"]
    names = [x.get("str") for x in meta["fields"]["f"]["names"].get("slice", [])]
    if names != exp["names"]:
        ck.bad(rid, vkey + ": names", where(body.raw["sp"]),
               "the static FieldSet of %s lists %s, the invocation declares %s" % (fname, names, exp["names"]), fn=body.path)
        return
    # the `target:` / `name:` prefixes end up in the callsite's metadata (what every filter and formatter reads): the
    # written target, else the invoking module's path; the written event name / the span's name literal
    mt, mn = meta["target"].get("str"), meta["name"].get("str")
    want_t = exp["target"].strip('"') if exp.get("target") else body.path.rsplit("::", 1)[0]
    if mt != want_t:
        ck.bad(rid, vkey + ": target", where(body.raw["sp"]), "the callsite's target is %r, the invocation says %r (fixture %s)" % (mt, want_t, fname), fn=body.path)
        return
    if exp.get("name") and mn != exp["name"].strip('"'):
        ck.bad(rid, vkey + ": name", where(body.raw["sp"]), "the callsite's name is %r, the invocation says %s (fixture %s)" % (mn, exp["name"], fname), fn=body.path)
        return
    if not exp.get("name") and exp["kind"] == "span" and mn != "span " + fname and mn != fname:
        ck.bad(rid, vkey + ": name", where(body.raw["sp"]), "the span's name is %r, not the literal written in the invocation (fixture %s)" % (mn, fname), fn=body.path)
        return
    # the value_set call on the enabled path
    vs = [(bb, t) for bb, t in body.calls() if t["callee"].get("path") == FIELD + "FieldSet::value_set"]
    if len(vs) != 1:
        ck.bad(rid, vkey + ": value_set-count", where(body.raw["sp"]), "%d value_set calls in %s" % (len(vs), fname), fn=body.path)
        return
    bb, t = vs[0]
    arr = body.origin(t["argv"][1])
    if arr[0] == "const" and not exp["names"]:
        ck.ok(rid, key, fn=body.path, detail="no fields")
        return
    if arr[0] != "agg" or "array" not in arr[1]["agg"]:
        ck.bad(rid, vkey + ": value-array", where(body.raw["sp"]), "value_set argument is not a literal array (%s)" % arr[0], fn=body.path)
        return
    ops = arr[1]["ops"]
    want = []
    if exp["has_message"]:
        want.append(("message", None))
    for mk, sg in zip(exp["markers"], exp["sigils"]):
        if sg == "empty":
            want.append(("empty", None))
        else:
            want.append((sg or "plain", mk))
    got = []
    next_bbs = []
    for op in ops:
        tup = body.origin(op)
        if tup[0] != "agg" or not tup[1]["agg"].get("tuple"):
            got.append(("?", None))
            continue
        f_op, v_op = tup[1]["ops"]
        fo = body.origin(f_op)
        nb = None
        if fo[0] == "call" and fo[2]["callee"].get("method") == "expect":
            nx = body.origin(fo[2]["argv"][0])
            if nx[0] == "call" and nx[2]["callee"].get("method") == "next":
                nb = nx[1]
        next_bbs.append(nb)
        vo = body.origin(v_op)
        if vo[0] == "agg" and vo[1]["agg"].get("variant") == "Some":
            k = value_kind(body, vo[1]["ops"][0])
            if k[0] == "local":
                k = ("plain", "local")
            elif k[0] in ("?", "%") and k[1] is None:
                k = (k[0], "local")
            elif k[0] in ("?", "%") and not str(k[1]).startswith("probe_"):
                k = (k[0], "local")
            got.append(k)
        elif vo[0] == "agg" and vo[1]["agg"].get("variant") == "None":
            got.append(("none", None))
        else:
            got.append((vo[0], None))
    problems = []
    if len(got) != len(want):
        problems.append("%d values recorded for %d declared fields" % (len(got), len(want)))
    else:
        for i, (g, w) in enumerate(zip(got, want)):
            if g != w:
                problems.append("field #%d `%s`: recorded %s, declared %s" % (i, exp["names"][i], g, w))
    # i-th tuple uses the i-th Iter::next (strictly increasing along the dominator chain)
    if None in next_bbs:
        problems.append("a field key is not `iter.next().expect(..)`")
    else:
        for a, b2 in zip(next_bbs, next_bbs[1:]):
            if not (body.dominates(a, b2) and a != b2):
                problems.append("field keys are not taken from the FieldSet iterator in order")
                break
    if problems:
        ck.bad(rid, vkey + ": order-pairing", where(body.raw["sp"]), "; ".join(problems) + " (fixture %s)" % fname, fn=body.path)
    else:
        ck.ok(rid, key, fn=body.path, detail=dict(names=names, values=[list(g) for g in got]))


# ------------------------------------------------------------------ R4
def adaptor_siblings(ck, F, rid="C10.R20"):
    """Sibling agreement inside one adaptor: what a Visit wrapper does around the forwarded call (VisitDelimited writes its
    delimiter first) it does for every record_* method alike -- the bookkeeping cannot depend on the value's type."""
    from rules.C09 import head
    for imp in F.impls_of("tracing_core::field::Visit"):
        st = imp["self_ty"]
        if not st.startswith("tracing_subscriber::field::"):
            continue
        hd = head(st)
        per = {}
        for m, pth in imp["methods"].items():
            b = F.body(pth)
            if b is None or not m.startswith("record_"):
                continue
            per[m] = tuple(sorted({(t["callee"].get("path") or "").rsplit("::", 1)[-1] for bb, t in b.calls() if (t["callee"].get("path") or "").startswith(hd + "::")
                                   and (t["callee"].get("path") or "").rsplit("::", 1)[-1] != m}))
        if len(per) < 2:
            continue
        from collections import Counter
        common, _ = Counter(per.values()).most_common(1)[0]
        odd = {m: v for m, v in per.items() if v != common}
        key = "%s does the same bookkeeping around every record_* method" % hd.rsplit("::", 1)[-1]
        if odd:
            ck.bad(rid, key, imp["span"], "the other methods call %s; %s" % (list(common), "; ".join("%s calls %s" % (m, list(v)) for m, v in sorted(odd.items()))))
        else:
            ck.ok(rid, key, detail=dict(methods=len(per), calls=list(common)))


def _conjuncts(t):
    if isinstance(t, tuple) and t and t[0] == "bin" and t[1] in ("BitAnd", "And"):
        return _conjuncts(t[2]) + _conjuncts(t[3])
    return [t]


def field_key_rule(ck, F, rid="C10.R19"):
    """The macros pair the i-th value with the i-th key from `fields.iter()`; visitors and ValueSet compare keys with ==."""
    FI = "tracing_core::field::"
    b = F.body("<tracing_core::field::Field as core::cmp::PartialEq>::eq")
    if ck.anchor(rid, "Field == Field", b):
        bad, n = [], 0
        for p in PathEval(b).run():
            if p.end != "return" or p.ret is None or (p.ret[0] == "const" and p.ret[2] == 0):
                continue
            n += 1
            held = [show(canon(c[0])) for c in p.conds if c[1] != 0] + [show(canon(x)) for x in _conjuncts(p.ret)]
            neg = [show(canon(c[0])) for c in p.conds if c[1] == 0]
            cs = any(h.startswith("eq(callsite(") or ("callsite" in h and " Eq " in h) for h in held) or any(h.startswith("ne(callsite(") for h in neg)
            ix = any(h in ("(arg1.i Eq arg2.i)",) or (h.startswith("eq(") and ".i" in h) for h in held) or any(h == "(arg1.i Ne arg2.i)" for h in neg)
            if not cs:
                bad.append("keys compare equal on a path that has not compared their callsites (%s)" % held)
            if not ix:
                bad.append("keys compare equal on a path that has not compared their positions (%s)" % held)
        key = "Field == Field compares callsite and position"
        if bad or not n:
            ck.bad(rid, key, where(b.raw["sp"]), "; ".join(sorted(set(bad))) or "never equal", fn=b.path)
        else:
            ck.ok(rid, key, fn=b.path)
    b = F.body(FI + "FieldSet::iter")
    if ck.anchor(rid, "FieldSet::iter", b):
        r = [show(canon(p.ret)) for p in PathEval(b).run() if p.end == "return"]
        key = "FieldSet::iter starts at position 0, ends at len, over the set's own names and callsite"
        ok = len(r) == 1 and r[0].startswith("Iter{") and ("Range{0, len(arg1)}" in r[0] or "Range{0, len(arg1.names)}" in r[0]) and "arg1.names" in r[0] and "callsite" in r[0] and "arg2" not in r[0]
        (ck.ok(rid, key, fn=b.path) if ok else ck.bad(rid, key, where(b.raw["sp"]), "builds %s" % r, fn=b.path))
    b = F.body("<tracing_core::field::Iter as core::iter::traits::iterator::Iterator>::next")
    if ck.anchor(rid, "field::Iter::next", b):
        some = [p.ret for p in PathEval(b).run() if p.end == "return" and p.ret and show(p.ret).startswith("Option::Some")]
        key = "field::Iter::next hands out the next position unchanged, with the iterator's names and callsite"
        ok = bool(some)
        why = "no Some path"
        for r in some:
            f = r[3][0] if r[0] == "agg" and r[3] else None
            if not (f and f[0] == "agg" and len(f[3]) == 2):
                ok, why = False, "yields %s" % show(r)[:100]
                break
            idx, fs = f[3]
            def plain(t):       # the value taken from idxs.next() itself: only projections/`?` plumbing around the call
                while isinstance(t, tuple) and t and t[0] in ("field", "downcast", "cast"):
                    t = t[1] if t[0] != "cast" else t[2]
                if isinstance(t, tuple) and t and t[0] == "call" and t[1].endswith("::branch"):
                    t = t[2][0]
                return isinstance(t, tuple) and t and t[0] == "call" and t[1].endswith("::next") and "idxs" in show(t)
            if not plain(idx):
                ok, why = False, "the position handed out is %s, not idxs.next()" % show(idx)[:80]
            elif "arg1.fields.names" not in show(fs) or "callsite" not in show(fs):
                ok, why = False, "the key's field set is %s" % show(fs)[:80]
        (ck.ok(rid, key, fn=b.path) if ok else ck.bad(rid, key, where(b.raw["sp"]), why, fn=b.path))
    b = F.body(FI + "FieldSet::field")
    if ck.anchor(rid, "FieldSet::field", b):
        key = "FieldSet::field yields the position whose name equals the one asked for"
        cl = F.closures_of(b)
        preds = [show(canon(p.ret)) for c in cl for p in PathEval(c).run() if p.end == "return" and p.ret and p.ret[0] != "agg"]
        builds = [p.ret for c in cl for p in PathEval(c).run() if p.end == "return" and p.ret and p.ret[0] == "agg"]
        r = [show(p.ret) for p in PathEval(b).run() if p.end == "return"]
        ok = len(r) == 1 and "position(" in r[0] and "rposition(" not in r[0] and any(x.startswith("eq(") and "name" in x for x in preds) and \
            len(builds) == 1 and len(builds[0][3]) == 2 and show(builds[0][3][0]) == "arg2" and "names" in show(builds[0][3][1])
        (ck.ok(rid, key, fn=b.path) if ok else ck.bad(rid, key, where(b.raw["sp"]), "returns %s with predicates %s and builders %s" % (r, preds, [show(x)[:80] for x in builds]), fn=b.path))
    b = F.body(FI + "Field::name")
    if ck.anchor(rid, "Field::name", b):
        key = "Field::name is the name at the key's own position"
        uses_i = any("i" in proj_names(pl.get("p", [])) for _, _, _, pl in _iter_places(b))
        r = [show(p.ret) for p in PathEval(b).run() if p.end == "return"]
        if uses_i and len(r) == 1 and "names" in r[0]:
            ck.ok(rid, key, fn=b.path)
        else:
            ck.bad(rid, key, where(b.raw["sp"]), "returns %s (reads self.i: %s)" % (r, uses_i), fn=b.path)


def as_field_rule(ck, F, rid="C10.R18"):
    """Span::record / field / has_field resolve their key with AsField::as_field(metadata). ValueSet::record re-checks the
    callsite of each key it is given, so a key that as_field re-issues from the target's own field set passes that
    second check: as_field is the one place where `a field this span did not declare is ignored` is decided."""
    n = 0
    for i in F.impls:
        if not str(i.get("trait", "")).endswith("tracing::field::AsField"):
            continue
        b = F.body(i["methods"].get("as_field") or "")
        st = i["self_ty"]
        if not ck.anchor(rid, "AsField for %s" % st, b):
            continue
        n += 1
        rows = [([(show(canon(c[0])), c[1]) for c in p.conds if c[0][0] != "const"], show(p.ret)) for p in PathEval(b).run() if p.end == "return"]
        if st == "str":
            key = "AsField for str looks the name up in the span's own field set"
            ok = [r for _, r in rows] == ["field(fields(arg2), arg1)"]
            why = "returns %s" % [r for _, r in rows]
        else:
            key = "AsField for %s accepts a key only from the span's own callsite" % (("&" if st.startswith("&") else "") + st.rsplit("::", 1)[-1])
            some = [(c, r) for c, r in rows if r.startswith("Option::Some")]
            bad = []
            for c, r in some:
                same = any(t in ("eq(callsite(arg1), callsite(arg2))", "eq(callsite(arg2), callsite(arg1))") and v != 0 for t, v in c) or \
                    any(t in ("ne(callsite(arg1), callsite(arg2))", "ne(callsite(arg2), callsite(arg1))") and v == 0 for t, v in c)
                if not same:
                    bad.append("Some on a path that has not found the two callsites equal (conditions %s)" % c)
                if r != "Option::Some{clone(arg1)}":
                    bad.append("hands back %s, not the key it was given" % r)
            # (a reference's impl may hand over to the Field impl, which this rule decides on its own instance)
            non = [r for c, r in rows if not r.startswith("Option::Some") and r != "Option::None{}" and not (st.startswith("&") and r == "as_field(arg1, arg2)" and
                                                                                                             any((t["callee"].get("full") or t["callee"].get("path") or "").startswith("<tracing_core::field::Field as tracing::field::AsField>::as_field")
                                                                                                                 for _, t in b.calls()))]
            delegated = st.startswith("&") and not some and not non and any(r == "as_field(arg1, arg2)" for c, r in rows)
            if non:
                bad.append("returns %s: a key re-issued from the span's field set passes ValueSet's own callsite check whatever callsite it came from" % non)
            if not some and not non and not delegated:
                bad.append("never accepts a key")
            ok, why = not bad, "; ".join(bad)
        if ok:
            ck.ok(rid, key, fn=b.path, detail=rows)
        else:
            ck.bad(rid, key, where(b.raw["sp"]), why, fn=b.path)
    if n < 3:
        ck.bad(rid, "AsField impls", "tracing/src/field.rs", "only %d AsField impls found (Field, &Field, str expected)" % n)


def visit_defaults(ck, F, rid="C10.R4"):
    """The provided methods of `Visit` are what every visitor that does not override them runs (the JSON visitors do not
    override the 128-bit ones). Each hands *the value it was given* on -- to record_debug, or to a sibling record_* --
    unchanged: no integer cast sits between the parameter and the call (an `as i64` of an i128 silently wraps)."""
    n = 0
    for k in sorted(F.bodies):
        if not k.startswith(VISIT + "::record_") or k.endswith("record_debug"):
            continue
        b = F.body(k)
        n += 1
        key = "Visit::%s (provided) passes its value on unchanged" % k.rsplit("::", 1)[-1]
        casts = [s["rv"]["cast"] for i, j, s in b.stmts() if s["k"] == "assign" and "cast" in s.get("rv", {}) and not str(s["rv"]["cast"]).startswith("ptr:")]
        fwd = [t for bb, t in b.calls() if t["callee"].get("trait") == VISIT or (t["callee"].get("path") or "").startswith(VISIT + "::")]
        problems = []
        if casts:
            problems.append("the value is converted (%s) before it is handed on: values outside the narrower type are recorded as a different number" % ", ".join(sorted(set(map(str, casts)))))
        if not fwd:
            problems.append("the value is not handed to any other Visit method")
        for pth in PathEval(b).run():
            if pth.end == "return" and not any(c[1].get("trait") == VISIT or (c[1].get("path") or "").startswith(VISIT + "::") for c in pth.calls):
                problems.append("a path returns without recording the value")
        if problems:
            ck.bad(rid, key, where(b.raw["sp"]), "; ".join(sorted(set(problems))), fn=b.path)
        else:
            ck.ok(rid, key, fn=b.path)
    if n < 8:
        ck.bad(rid, "Visit's provided record_* methods found", VISIT, "only %d provided methods seen" % n)


def r4(ck, F):
    visit_defaults(ck, F)
    impls = [i for i in F.impls if i.get("trait") == VALUE and i["crate"] == "tracing_core"]
    for imp in impls:
        st = imp["self_ty"]
        path = imp["methods"].get("record")
        b = F.body(path) if path else None
        key = "impl Value for %s" % st
        if b is None:
            ck.bad("C10.R4", key, imp["span"], "no body for Value::record")
            continue
        visits = [(bb, t) for bb, t in b.calls() if t["callee"].get("trait") == VISIT]
        deleg = [(bb, t) for bb, t in b.calls() if t["callee"].get("trait") == VALUE and t["callee"].get("method") == "record"]
        methods = [t["callee"]["method"] for bb, t in visits]
        base = st
        want = None
        if st in PRIM_TABLE:
            want = PRIM_TABLE[st]
        elif st.startswith("core::num::nonzero::NonZero<"):
            inner = st[len("core::num::nonzero::NonZero<"):-1]
            want = PRIM_TABLE.get(inner)
        elif st.startswith("core::num::wrapping::Wrapping<") or st.startswith("&") or st.startswith("alloc::boxed::Box<") or "dyn core::error::Error +" in st and "'static" in st and "Send" in st:
            want = "delegate"
        elif st == "(dyn core::error::Error + 'static)" or st.startswith("(dyn core::error::Error"):
            want = "record_error" if st == "(dyn core::error::Error + 'static)" else "delegate"
        elif st in (FIELD + "Empty",):
            want = "nothing"
        elif st.startswith("core::fmt::Arguments") or st.startswith(FIELD + "DebugValue") or st.startswith(FIELD + "DisplayValue"):
            want = "record_debug"
        elif st.startswith("core::option::Option<"):
            want = "delegate-on-some"
        elif st == "dyn " + VALUE or st.startswith(FIELD + "DynValue") or "ValuableValue" in st:
            want = None
        if want is None:
            ck.note("impl Value for %s: not in the typed-dispatch table (calls %s, delegates %d)" % (st, methods, len(deleg)))
            continue
        ok = True
        why = ""
        if want == "nothing":
            ok = not visits and not deleg
            why = "Empty must not be visited"
        elif want == "delegate":
            ok = len(deleg) == 1 and not visits
            why = "expected delegation to the inner value's Value::record"
            if ok:
                # key passed through, on all paths
                t = deleg[0][1]
                k = b.origin(t["argv"][1])
                v = b.origin(t["argv"][2])
                ok = k[0] == "arg" and k[1] == 2 and v[0] == "arg" and v[1] == 3 and b.postdominates(deleg[0][0], 0)
                why = "delegation does not pass key/visitor through unchanged on every path"
        elif want == "delegate-on-some":
            ok = len(deleg) == 1 and not visits
            why = "Option<T>: expected delegation on Some and nothing on None"
        else:
            ok = methods == [want] and not deleg
            why = "calls %s (+%d delegations), expected exactly one %s" % (methods, len(deleg), want)
            if ok:
                bb, t = visits[0]
                ok = b.postdominates(bb, 0)
                why = "the visitor call is not executed on every path"
            if ok:
                k = b.origin(t["argv"][1])
                ok = k[0] == "arg" and k[1] == 2
                why = "the field key is not passed through"
            if ok and want in ("record_u64", "record_i64", "record_f64", "record_u128", "record_i128", "record_bool"):
                # value: *self / self.get() through at most one widening, same-signedness cast
                arg = t["argv"][2]
                chain = []
                cur = arg
                good = False
                for _ in range(6):
                    pl = cur.get("copy") or cur.get("move")
                    if pl is None:
                        break
                    if pl["l"] == 1:
                        good = True
                        break
                    ds = b.defs().get(pl["l"], [])
                    if len(ds) != 1:
                        break
                    d = ds[0]
                    if d[0] == "call":
                        if d[2]["callee"].get("method") == "get":
                            cur = d[2]["argv"][0]
                            chain.append("get")
                            continue
                        if d[2]["callee"].get("method") in ("call", "call_once", "call_mut"):
                            # conversion closure passed to the impl macro: `|v| v as u64` or identity
                            ro = b.origin(d[2]["argv"][0])
                            cpath = ro[1].get("closure") if ro[0] == "const" else (ro[1]["agg"].get("closure") if ro[0] == "agg" else None)
                            cb = F.body(cpath) if cpath else None
                            tup = b.origin(d[2]["argv"][1])
                            if cb is None or tup[0] != "agg" or len(tup[1]["ops"]) != 1:
                                break
                            rets = [p.ret for p in PathEval(cb).run() if p.end == "return"]
                            if len(rets) != 1:
                                break
                            r = rets[0]
                            if r == ("arg", 2):
                                pass
                            elif r[0] == "cast" and r[2] == ("arg", 2):
                                chain.append(("cast", r[1], cb.locals[2], r[3]))
                            else:
                                break
                            cur = tup[1]["ops"][0]
                            continue
                        break
                    rv = d[3]
                    if "cast" in rv:
                        chain.append(("cast", rv["cast"], rv["from_ty"], rv["ty"]))
                        cur = rv["op"]
                    elif "use" in rv:
                        cur = rv["use"]
                    elif "ref" in rv:
                        cur = {"copy": rv["ref"]}
                    else:
                        break
                casts = [c for c in chain if isinstance(c, tuple)]
                if not good:
                    ok, why = False, "the recorded value does not derive from self"
                elif len(casts) > 1:
                    ok, why = False, "more than one cast on the recorded value: %s" % casts
                elif casts:
                    _, kind, fr, to = casts[0]
                    fr_s, to_s = fr.startswith("i"), to.startswith("i")
                    if kind not in ("IntToInt", "FloatToFloat") or WIDTH.get(to, 0) < WIDTH.get(fr, 999) or (kind == "IntToInt" and fr_s != to_s):
                        ok, why = False, "value cast %s -> %s (%s) is not a widening same-signedness cast" % (fr, to, kind)
        if ok:
            ck.ok("C10.R4", key, fn=path, detail=want)
        else:
            ck.bad("C10.R4", key, where(b.raw["sp"]), why, fn=path)


# ------------------------------------------------------------------ R5
def PathEvalTerm(body, op):
    """symbolic term of an operand (closure constants / aggregates included) without enumerating paths"""
    o = body.origin(op)
    if o[0] == "agg" and o[1]["agg"].get("closure"):
        return ("agg", "closure:" + o[1]["agg"]["closure"], None, ())
    if o[0] == "const" and o[1].get("closure"):
        return ("const", o[1].get("ty"), None, o[1]["closure"])
    return ("unknown",)


def r5(ck, F):
    b = F.body(FIELD + "ValueSet::<'_>::record") or F.body(FIELD + "ValueSet::<'a>::record")
    if ck.anchor("C10.R5", "ValueSet::record", b):
        rec = [(bb, t) for bb, t in b.calls() if t["callee"].get("trait") == VALUE and t["callee"].get("method") == "record"]
        ok = len(rec) == 1
        why = "expected exactly one value.record(field, visitor) call site in the loop"
        crec = [(x, bb, t) for x in F.closures_of(b) for bb, t in x.calls() if t["callee"].get("trait") == VALUE and t["callee"].get("method") == "record"]
        if not rec and len(crec) == 1:
            # the same loop written with adaptors: values.iter().filter(|(f, _)| f.callsite() == mine).for_each(|(f, v)| if let Some(v) = v { v.record(f, visitor) })
            x, xbb, xt = crec[0]
            ok, why = True, ""
            fe = [(bb, t) for bb, t in b.calls() if t["callee"].get("method") == "for_each"]
            if len(fe) != 1 or closure_of_term(PathEvalTerm(b, fe[0][1]["argv"][1])) != x.path:
                ok, why = False, "the closure that records is not the body of a single for_each over the values"
            else:
                src = b.origin(fe[0][1]["argv"][0])
                filt = src if src[0] == "call" and src[2]["callee"].get("method") == "filter" else None
                if filt is None:
                    ok, why = False, "for_each is not applied to values.iter().filter(same callsite)"
                else:
                    fc = closure_of_term(PathEvalTerm(b, filt[2]["argv"][1]))
                    fb = F.body(fc) if fc else None
                    rets = {show(p.ret) for p in PathEval(fb).run() if p.end == "return"} if fb else set()
                    if not (len(rets) == 1 and list(rets)[0].startswith("eq(") and "callsite" in list(rets)[0]):
                        ok, why = False, "the filter predicate is %s, expected field.callsite() == self.callsite()" % sorted(rets)
            if ok:
                for p in PathEval(x).run():
                    if xbb in p.blocks and not any(option_test(c)[1] is True for c in p.conds if c[0][0] == "discr"):
                        ok, why = False, "a value is visited without the Some test"
            rec = []
        if ok and rec:
            rbb = rec[0][0]
            # on every acyclic path reaching the call: callsite equality test true and the value is Some
            ev = PathEval(b)
            seen = 0
            for p in ev.run():
                if rbb not in p.blocks:
                    continue
                seen += 1
                idx = p.blocks.index(rbb)
                before = []
                ci = 0
                for x in p.blocks[:idx]:
                    if b.blocks[x]["term"]["k"] == "switch":
                        before.append(p.conds[ci])
                        ci += 1
                txt = [(show(c[0]), c[1]) for c in before]
                same_cs = any(("eq(" in s or "ne(" in s.lower()) and "callsite" in s for s, v in txt) or any("callsite(" in s for s, v in txt)
                some = any(option_test(c)[1] is True for c in before if c[0][0] == "discr")
                if not (same_cs and some):
                    ok, why = False, "a value is visited on a path without the same-callsite test and the Some test: %s" % txt[-4:]
            if seen == 0:
                ok, why = False, "record call unreachable"
        if ok:
            ck.ok("C10.R5", "ValueSet::record: visit iff field.callsite()==self.callsite() and value is Some", fn=b.path)
        else:
            ck.bad("C10.R5", "ValueSet::record: visit iff field.callsite()==self.callsite() and value is Some", where(b.raw["sp"]), why, fn=b.path)
    sr = F.body("tracing::span::Span::record")
    if ck.anchor("C10.R5", "Span::record", sr):
        ra = [(bb, t) for bb, t in sr.calls() if t["callee"].get("path") == "tracing::span::Span::record_all"]
        af = [(bb, t) for bb, t in sr.calls() if t["callee"].get("method") == "as_field"]
        ok = len(ra) == 1 and len(af) == 1
        if ok:
            for p in PathEval(sr).run():
                if p.end != "return":
                    continue
                tests = [option_test(c) for c in p.conds if c[0][0] == "discr"]
                field_some = any(bt is not None and bt[0] == "call" and bt[1].endswith("as_field") and s for bt, s in tests)
                field_tested = any(bt is not None and bt[0] == "call" and bt[1].endswith("as_field") for bt, s in tests)
                nothing_to_do = all(option_test(c)[1] is False or c[0][0] == "const" for c in p.conds)     # e.g. a span without metadata
                if (ra[0][0] in p.blocks) != field_some or not (field_tested or nothing_to_do):
                    ok = False
        if ok:
            ck.ok("C10.R5", "Span::record records exactly when the name is a declared field", fn=sr.path)
        else:
            ck.bad("C10.R5", "Span::record records exactly when the name is a declared field", where(sr.raw["sp"]),
                   "record_all is not executed exactly on the paths where as_field(meta) is Some", fn=sr.path)
    fs = F.body(FIELD + "Field::callsite") or F.body(FIELD + "Field::callsite")
    vs = F.body(FIELD + "ValueSet::<'_>::callsite") or F.body(FIELD + "ValueSet::<'a>::callsite")
    if fs and vs:
        ck.ok("C10.R5", "callsite identity accessors present", nontrivial=False)


def valueset_rule(ck, rid):
    """R2 over the quick macro corpus under another property's rule id: what a field is recorded *as* (its name, its
    position, and whether it goes through Display or Debug) is decided by the valueset! arms, before any formatter sees it."""
    FX = Facts("fx")
    if "fx" not in ck.configs:
        ck.configs.append("fx")
    for fname, exp in sorted(FX.expect.items()):
        if exp["kind"] == "enabled":
            continue
        b = FX.body("fx_macros::macros_gen::" + fname)
        if b is not None:
            r2(ck, FX, b, fname, exp, rid=rid)
