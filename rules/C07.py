"""C07 — per-layer filters are isolated: a layer sees exactly what its own filters accept.

R1 gating table of `impl Subscribe for Filtered` (every notification runs the wrapped layer only for spans/events its
   own filter enabled, with a context restricted to its filter id)
R2 per-layer verdicts never veto globally
R3 span lookups through Context are filtered
R4 filter ids: distinct single bits, assigned in on_subscribe
R5 bitmap protocol: effect summaries of the FilterState/Filtered/Layered methods are extracted from MIR and the
   thread-local bitmap is tracked as a typestate {clear, dirty} per filter through every protocol run
   (span, event, enabled!-probe) for three stack shapes; every run must end all-clear and, from a clean
   state, deliver to a layer iff its own filter and all global filters accept.
"""
import itertools

from rulekit import Facts, where, proj_names
from rulekit.sym import PathEval, show, canon
from rulekit.query import closure_of_term, guards_of, recv_fields, option_test

SF = "tracing_subscriber::filter::subscriber_filters::"
FILTERED = "<%sFiltered<S, F, C> as tracing_subscriber::subscribe::Subscribe<C>>::" % SF
SUBSCRIBE = "tracing_subscriber::subscribe::Subscribe"
FILTER = "tracing_subscriber::subscribe::Filter"
CTX = "tracing_subscriber::subscribe::context::Context"
LAYERED_C = "<tracing_subscriber::subscribe::layered::Layered<S, C> as tracing_core::collect::Collect>::"
REG_C = "<tracing_subscriber::registry::sharded::Registry as tracing_core::collect::Collect>::"


def run(ck):
    F = Facts("default")
    R = Facts("release")     # same sources without debug_assertions: FilterState's tables without its debug counters
    ck.configs += ["default", "release"]
    ck.explanation = (
        "Structural rules plus an effect/typestate analysis: the effect of each FilterState primitive and of the "
        "Filtered/Layered/Registry methods on the thread-local per-filter bitmap is extracted from MIR (which primitive "
        "is called on which edge, with which operands); the bitmap is then tracked as a typestate {clear, dirty} per "
        "filter through every protocol run the macros and Dispatch can perform (span, event, enabled!/log-probe), for callsites with cached interest sometimes/always, over three stack shapes and all "
        "filter verdicts (finite, enumerated completely). Expected: every run ends all-clear and delivers to a layer iff "
        "its own filter and every global filter accept. Runs that leave a bit dirty are the known findings F3.")
    ck.assumptions += ["fewer than 64 per-layer filters (any_enabled is then always true)",
                       "filters are arbitrary but self-consistent; layers behind `dyn` are arbitrary"]
    ck.rule("C07.R1", "Filtered gates every notification on its own filter and restricts the context to its id", floor=10)
    ck.rule("C07.R2", "per-layer verdicts never veto globally", floor=5)
    ck.rule("C07.R3", "Context lookups are filtered by the layer's filter id", floor=6)
    ck.rule("C07.R4", "filter ids are distinct single bits assigned in on_subscribe", floor=4)
    ck.rule("C07.R5", "bitmap typestate: every protocol run ends all-clear and delivers iff accepted", floor=100)
    ck.rule("C07.R5s", "effect summaries extracted from MIR match a recognised shape", floor=9)
    ck.rule("C07.R9", "a stateful per-layer filter's verdict does not depend on spans already exited: EnvFilter's per-thread scope stack is pushed and popped under one predicate (as C11.R5)", floor=3)
    ck.rule("C07.R12", "what an unfiltered layer receives does not depend on how the registry is held: the stack recognises the Registry (plain, boxed or shared) "
            "and turns its summed per-layer `never` into `sometimes` for the layers that have no filter (as C08.R12)", floor=2)
    ck.rule("C07.R11", "an unfiltered layer is not hidden by its neighbours' filters because a None sits next to it: a composite is `absent` only if every part is, "
            "so a tree with a real layer in it is never mistaken for a fully per-layer-filtered one (as C09.R17)", floor=3)
    ck.rule("C07.R10", "a per-layer Targets / EnvFilter never publishes a hint below what its own table accepts: DirectiveSet::add keeps max_level an upper bound, also when a directive is replaced (as C08.R4)", floor=1)
    ck.rule("C07.R8", "a filter below a layer that answers `sometimes` is still told about every callsite (pick_interest asks the inner value; as C09.R5)", floor=1)
    ck.rule("C07.R7", "Vec<S> / a Layered tree claim to be per-layer-filtered only if every part is", floor=2)
    ck.rule("C07.R6", "per-layer filter combinators (And/Or/Not/Option) publish sound interests and level hints (as C08.R1/R2)", floor=10)
    r1(ck, F)
    r1b(ck, F)
    r2(ck, F)
    r3(ck, F)
    r4(ck, F)
    r5(ck, R)
    # A per-layer filter's interest and max-level hint feed the process-wide caches every macro consults first. If a
    # combinator publishes a tighter hint than its `enabled` admits, what the layer behind it receives depends on
    # whether some *neighbour* happens to raise the global level again: isolation is lost.
    from rules import C08
    C08.r1(ck, F, rid="C07.R6")
    C08.r2(ck, F, rid="C07.R6")
    C08.r3(ck, F, rid="C07.R6")
    r7(ck, F)
    from rules import C09
    C09.check_pick_interest(ck, F, rid="C07.R8")
    from rules import C11
    C11.r5(ck, F, rid="C07.R9")
    C08.directive_add_rule(ck, R, rid="C07.R10")
    from rules import C09 as _C09
    _C09.none_marker_conjunction(ck, F, rid="C07.R11")
    C08.inner_is_registry_rule(ck, F, rid="C07.R12")


# ------------------------------------------------------------------ R1
def direct_did_enable(F, b, deliver):
    """`Filtered::did_enable` written out at its call site: on every path of `b`, FILTERING.with runs a closure that, on
    every path, calls FilterState::did_enable(self.id(), <closure containing the delivery>)."""
    withs = [(bb, t) for bb, t in b.calls() if t["callee"].get("method") == "with" and "LocalKey" in t["callee"].get("path", "")]
    if len(withs) != 1 or not b.postdominates(withs[0][0], 0):
        return False
    for c in F.closures_of(b):
        des = [(bb, t) for bb, t in c.calls() if t["callee"].get("path") == SF + "FilterState::did_enable"]
        if len(des) != 1 or not c.postdominates(des[0][0], 0):
            continue
        t = des[0][1]
        ido = c.origin(t["argv"][1])
        id_ok = ido[0] == "call" and ido[2]["callee"].get("method") == "id" and "Filtered" in ido[2]["callee"].get("path", "")
        fo = c.origin(t["argv"][2])
        passed = (fo[0] == "agg" and fo[1]["agg"].get("closure") == deliver.path) or \
                 (fo[0] == "arg" and deliver.path.startswith(b.path + "::{closure") and not deliver.path.startswith(c.path + "::"))
        if id_ok and passed:
            return True
    return False


def r1(ck, F):
    gate = {
        "on_new_span": "did_enable", "on_event": "did_enable",
        "on_record": "if_enabled_for", "on_enter": "if_enabled_for", "on_exit": "if_enabled_for", "on_close": "if_enabled_for",
        "on_id_change": "if_enabled_for", "on_follows_from": "is_enabled_for x2",
    }
    filter_hooks = {"on_new_span", "on_record", "on_enter", "on_exit", "on_close"}
    for m, how in gate.items():
        b = F.body(FILTERED + m)
        if not ck.anchor("C07.R1", "Filtered::" + m, b):
            continue
        key = "Filtered::%s" % m
        bodies = [b] + F.closures_of(b)
        inner = [(x, bb, t) for x in bodies for bb, t in x.calls() if t["callee"].get("trait") == SUBSCRIBE and t["callee"].get("method") == m]
        hooks = [(x, bb, t) for x in bodies for bb, t in x.calls() if t["callee"].get("trait") == FILTER and t["callee"].get("method") == m]
        problems = []
        if len(inner) != 1:
            problems.append("%d calls of the wrapped layer's %s" % (len(inner), m))
        if m in filter_hooks and len(hooks) != 1:
            problems.append("the filter's own %s hook is called %d times (expected 1, wherever the layer's is)" % (m, len(hooks)))
        if not problems:
            x, bb, t = inner[0]
            if how == "did_enable":
                de = [(bb2, t2) for bb2, t2 in b.calls() if t2["callee"].get("path") == SF + "Filtered::<S, F, C>::did_enable"]
                if x is b:
                    problems.append("the wrapped layer is not called from inside the did_enable closure")
                elif len(de) == 1:
                    # closure passed to did_enable is the one containing the call; did_enable is on every path
                    o = b.origin(de[0][1]["argv"][1])
                    if not (o[0] == "agg" and o[1]["agg"].get("closure") == x.path and b.postdominates(de[0][0], 0)):
                        problems.append("did_enable is not called with the delivering closure on every path")
                elif not direct_did_enable(F, b, x):
                    problems.append("the wrapped layer is not called from inside the did_enable closure")
            elif how == "if_enabled_for":
                g, paths = guards_of(x, bb)
                if not any(txt.startswith("discr(if_enabled_for(") and v == 1 for txt, v in g):
                    problems.append("not guarded by `cx.if_enabled_for(id, self.id())` being Some (guards: %s)" % sorted(g))
                else:
                    # first span argument of if_enabled_for is the id parameter, filter is self.id()
                    ie = [t2 for bb2, t2 in x.calls() if t2["callee"].get("method") == "if_enabled_for"]
                    fo = x.origin(ie[0]["argv"][2])
                    if not (fo[0] == "call" and fo[2]["callee"].get("method") == "id"):
                        problems.append("if_enabled_for is not given self.id()")
            else:
                g, paths = guards_of(x, bb)
                tests = [txt for txt, v in g if txt.startswith("is_enabled_for(") and v != 0]
                if len(tests) != 2:
                    problems.append("on_follows_from must require both spans to be enabled for this filter (guards %s)" % sorted(g))
            # the context handed to the wrapped layer derives from with_filter(self.id()) / if_enabled_for(..)
            ctx_arg = t["argv"][-1]
            co = x.origin(ctx_arg)
            ok_ctx = False
            if co[0] == "call" and co[2]["callee"].get("method") in ("with_filter", "clone"):
                inner_o = co
                if co[2]["callee"].get("method") == "clone":
                    inner_o = x.origin(co[2]["argv"][0])
                ok_ctx = inner_o[0] == "call" and inner_o[2]["callee"].get("method") in ("with_filter", "if_enabled_for") or \
                    (inner_o[0] in ("local", "multi", "call", "arg"))
                if inner_o[0] == "call" and inner_o[2]["callee"].get("method") not in ("with_filter", "if_enabled_for"):
                    ok_ctx = False
            elif co[0] == "call" and co[2]["callee"].get("method") == "if_enabled_for":
                ok_ctx = True
            elif co[0] in ("local", "multi"):
                # moved out of the `Some(cx)` produced by if_enabled_for
                ok_ctx = any(t2["callee"].get("method") in ("if_enabled_for", "with_filter") for bb2, t2 in x.calls())
            if not ok_ctx:
                problems.append("the wrapped layer receives a context that is not restricted with this filter's id (%s)" % co[0])
        if problems:
            ck.bad("C07.R1", key, where(b.raw["sp"]), "; ".join(problems), fn=b.path)
        else:
            ck.ok("C07.R1", key, fn=b.path, detail=how)
    # Filtered::enabled / event_enabled hand their filter a context restricted to their own id
    for m in ("enabled", "event_enabled"):
        b = F.body(FILTERED + m)
        if not ck.anchor("C07.R1", "Filtered::" + m, b):
            continue
        wf = [t for bb, t in b.calls() if t["callee"].get("method") == "with_filter"]
        ok = len(wf) == 1 and b.origin(wf[0]["argv"][1])[0] == "call" and b.origin(wf[0]["argv"][1])[2]["callee"].get("method") == "id"
        if ok:
            ck.ok("C07.R1", "Filtered::%s uses cx.with_filter(self.id())" % m, fn=b.path)
        else:
            ck.bad("C07.R1", "Filtered::%s uses cx.with_filter(self.id())" % m, where(b.raw["sp"]), "the filter is asked with an unrestricted context", fn=b.path)


# ------------------------------------------------------------------ R2
def r1b(ck, F):
    """Filtered::register_callsite lets the wrapped layer register the callsite exactly when the filter did not say `never`
    (with that polarity), and always adds the filter's interest to the per-callsite sum."""
    b = F.impl_method("tracing_subscriber::subscribe::Subscribe", SF + "Filtered", "register_callsite")
    if not ck.anchor("C07.R1", "Filtered::register_callsite", b):
        return
    fw = [bb for bb, t in b.calls() if t["callee"].get("trait", "").endswith("subscribe::Subscribe") and t["callee"].get("method") == "register_callsite"]
    key = "Filtered::register_callsite: the wrapped layer registers the callsite iff the filter's interest is not `never`"
    ok = len(fw) == 1
    why = "%d forwarding calls" % len(fw)
    if ok:
        g, _ = guards_of(b, fw[0])
        nv = [v for t, v in g if t.startswith("is_never(")]
        other = [(t[:50], v) for t, v in g if not t.startswith("is_never(") and t not in ("0", "1")]
        if not nv or any(v not in (0, False) for v in nv) or other:
            ok, why = False, "the wrapped layer's register_callsite runs under %s" % [(t[:50], v) for t, v in g]
    if ok:
        ck.ok("C07.R1", key, fn=b.path)
    else:
        ck.bad("C07.R1", key, where(b.raw["sp"]), why, fn=b.path)


def r2(ck, F):
    for m in ("enabled", "event_enabled"):
        b = F.body(FILTERED + m)
        if not ck.anchor("C07.R2", "Filtered::" + m, b):
            continue
        rows = {}
        for p in PathEval(b).run():
            if p.end != "return" or not p.conds:
                continue
            c = [x for x in p.conds if x[0][0] == "call"][-1]
            rows[c[1] != 0] = p.ret
        rej = rows.get(False)
        acc = rows.get(True)
        ok = rej is not None and rej[0] == "const" and rej[2] == 1 and acc is not None and acc[0] == "call" and acc[1].endswith("Subscribe::" + m)
        if ok:
            ck.ok("C07.R2", "Filtered::%s answers true when its own filter rejects" % m, fn=b.path)
        else:
            ck.bad("C07.R2", "Filtered::%s answers true when its own filter rejects" % m, where(b.raw["sp"]),
                   "table: reject -> %s, accept -> %s; a per-layer rejection must not veto the whole stack" % (show(rej), show(acc)), fn=b.path)
    b = F.body(FILTERED + "register_callsite")
    if ck.anchor("C07.R2", "Filtered::register_callsite", b):
        rets = {show(p.ret) for p in PathEval(b).run() if p.end == "return"}
        ai = [1 for x in [b] + F.closures_of(b) for bb, t in x.calls() if t["callee"].get("path") == SF + "FilterState::add_interest"]
        if rets == {"always()"} and len(ai) == 1:
            ck.ok("C07.R2", "Filtered::register_callsite returns always and routes its interest through add_interest", fn=b.path)
        else:
            ck.bad("C07.R2", "Filtered::register_callsite returns always and routes its interest through add_interest", where(b.raw["sp"]),
                   "returns %s, add_interest sites %d" % (sorted(rets), len(ai)), fn=b.path)
    for m, prim in (("enabled", "event_enabled"), ("event_enabled", "event_enabled"), ("register_callsite", "take_interest")):
        b = F.body(REG_C + m)
        if not ck.anchor("C07.R2", "Registry::" + m, b):
            continue
        ok = True
        for p in PathEval(b).run():
            if p.end != "return":
                continue
            psf = [c for c in p.conds if c[0][0] == "call" and c[0][1].endswith("has_per_subscriber_filters")]
            uses = any(c[1].get("path") == SF + "FilterState::" + prim for c in p.calls)
            if not psf or (psf[0][1] != 0) != uses:
                ok = False
        if ok:
            ck.ok("C07.R2", "Registry::%s consults FilterState::%s iff per-subscriber filters exist" % (m, prim), fn=b.path)
        else:
            ck.bad("C07.R2", "Registry::%s consults FilterState::%s iff per-subscriber filters exist" % (m, prim), where(b.raw["sp"]),
                   "the registry's answer is not tied to has_per_subscriber_filters()", fn=b.path)


# ------------------------------------------------------------------ R3
def r3(ck, F):
    P = "tracing_subscriber::subscribe::context::Context::<'a, C>::"
    direct = {"span": "try_with_filter", "lookup_current": "try_with_filter", "lookup_current_filtered": "try_with_filter"}
    via = {"event_span": {"lookup_current", "span"}, "span_scope": {"span"}, "event_scope": {"event_span"}, "metadata": {"span"},
           "is_enabled_inner": {"span"}}
    for m, need in direct.items():
        b = F.body(P + m)
        if not ck.anchor("C07.R3", "Context::" + m, b):
            continue
        bodies = [b] + F.closures_of(b)
        twf = [(x, t) for x in bodies for bb, t in x.calls() if t["callee"].get("method") == need]
        ok = bool(twf)
        for x, t in twf:
            who, fields = recv_fields(x, t, 1)
            if fields[-1:] != ["filter"]:
                ok = False
        # every Some(..) returned derives from try_with_filter
        for p in PathEval(b).run():
            if p.end != "return" or p.ret is None:
                continue
            txt = show(p.ret)
            if p.ret[0] == "agg" and p.ret[2] == "Some" and "try_with_filter" not in txt and "lookup_current_filtered" not in txt:
                ok = False
        if ok:
            ck.ok("C07.R3", "Context::%s filters its result with self.filter" % m, fn=b.path)
        else:
            ck.bad("C07.R3", "Context::%s filters its result with self.filter" % m, where(b.raw["sp"]),
                   "a span can be returned without passing try_with_filter(self.filter): the layer would see spans its filter rejected", fn=b.path)
    # when the top of the stack is rejected by the filter, the "current span" for this layer is the newest *entered* span
    # its filter accepts: the fallback must walk the thread's entered-span stack, not the rejected span's parent links
    lookup_current_fallback(ck, F)
    # the remaining ways a layer can learn about a span: Context::current_span / exists and the deprecated
    # SpanRef::parent_id hand out identity (id, metadata, existence) without a per-filter test
    for path, label in ((P + "current_span", "Context::current_span"), (P + "exists", "Context::exists"),
                        ("tracing_subscriber::registry::SpanRef::<'a, R>::parent_id", "SpanRef::parent_id")):
        b = F.body(path)
        if b is None:
            continue
        calls = {t["callee"].get("method") for x in [b] + F.closures_of(b) for bb, t in x.calls()}
        if calls & {"try_with_filter", "is_enabled_for", "lookup_current", "with_filter"} or (P + "span") in {t["callee"].get("path") for bb, t in b.calls()}:
            ck.ok("C07.R3", "%s consults the layer's filter" % label, fn=b.path)
        else:
            ck.bad("C07.R3", "%s ignores the layer's filter" % label, where(b.raw["sp"]),
                   "a span this layer's filter rejected is visible through %s (calls: %s)" % (label, sorted(c for c in calls if c)[:6]), fn=b.path)
    for m, allowed in via.items():
        b = F.body(P + m)
        if not ck.anchor("C07.R3", "Context::" + m, b):
            continue
        bodies = [b] + F.closures_of(b)
        raw = [t for x in bodies for bb, t in x.calls() if t["callee"].get("trait", "").endswith("LookupSpan") and t["callee"].get("method") in ("span", "span_data")]
        used = {t["callee"].get("method") for x in bodies for bb, t in x.calls() if t["callee"].get("path", "").startswith(P)}
        if not raw and used & allowed:
            ck.ok("C07.R3", "Context::%s is built from filtered lookups %s" % (m, sorted(used & allowed)), fn=b.path)
        else:
            ck.bad("C07.R3", "Context::%s is built from filtered lookups" % m, where(b.raw["sp"]),
                   "uses the registry's unfiltered lookup directly (%d sites) or none of %s" % (len(raw), sorted(allowed)), fn=b.path)
    # Scope::next and SpanRef::parent skip spans the filter disabled
    for fn in ("<tracing_subscriber::registry::Scope<'a, R> as core::iter::traits::iterator::Iterator>::next",
               "tracing_subscriber::registry::SpanRef::<'a, R>::parent"):
        b = F.body(fn)
        if not ck.anchor("C07.R3", fn, b):
            continue
        tests = [t for bb, t in b.calls() if t["callee"].get("method") in ("is_enabled_for", "try_with_filter", "with_filter")]
        nice = "Scope::next" if "Iterator" in fn else "SpanRef::parent"
        # ... and with the right polarity: a span is handed out only on a path where the per-filter test said "enabled"
        wrong = []
        for pth in PathEval(b).run():
            if pth.end != "return" or pth.ret is None or not show(pth.ret).startswith("Option::Some"):
                continue
            verdicts = [c[1] for c in pth.conds if show(c[0]).startswith("is_enabled_for(")]
            if verdicts and verdicts[-1] == 0:
                wrong.append("a span is returned although is_enabled_for(filter) was false for it")
            if not verdicts and "try_with_filter" not in show(pth.ret):
                wrong.append("a span is returned without a per-filter test on the path")
        # ... and the span handed out keeps walking with the same filter: it is built with (or re-filtered by) the walker's
        # own filter id, not taken as LookupSpan::span returns it (which carries "no filter": the next hop would be unfiltered)
        for pth in PathEval(b).run():
            if pth.end != "return" or pth.ret is None or pth.ret[0] != "agg" or pth.ret[2] != "Some" or not pth.ret[3]:
                continue
            v = pth.ret[3][0]
            carries = (v[0] == "agg" and "SpanRef" in str(v[1]) and any(show(x) == "arg1.filter" for x in v[3])) or \
                      (v[0] == "call" and v[1].endswith(("::with_filter", "::try_with_filter")) and any(show(x) == "arg1.filter" for x in v[2]))
            if v[0] == "call" and v[1].endswith("::try_with_filter"):
                carries = True
            if not carries:
                wrong.append("the span handed out does not carry the walker's filter id (%s): its own parent()/scope() would show spans this filter rejected" % show(v)[:70])
        if tests and wrong:
            ck.bad("C07.R3", "%s skips spans disabled for the walker's filter" % nice, where(b.raw["sp"]), "; ".join(sorted(set(wrong))), fn=b.path)
        elif tests:
            ck.ok("C07.R3", "%s skips spans disabled for the walker's filter" % nice, fn=b.path)
        else:
            ck.bad("C07.R3", "%s skips spans disabled for the walker's filter" % fn, where(b.raw["sp"]), "no per-filter test in the scope walk", fn=b.path)
    wf = F.body(P + "with_filter")
    if ck.anchor("C07.R3", "Context::with_filter", wf):
        a = [t for bb, t in wf.calls() if t["callee"].get("path") == SF + "FilterId::and"]
        if len(a) == 1:
            ck.ok("C07.R3", "with_filter combines ids with FilterId::and", fn=wf.path)
        else:
            ck.bad("C07.R3", "with_filter combines ids with FilterId::and", where(wf.raw["sp"]), "nested filters are not combined")


    # filter ids only accumulate on the way down a stack of nested Filtered layers: wherever a Context is built, its filter
    # is the parent context's own, "no filter" (the root), or the parent's AND-ed with one more id -- never a replacement
    n = 0
    for b in F.body_list:
        if b.crate != "tracing_subscriber":
            continue
        for i, j, st in b.stmts():
            a = st.get("rv", {}).get("agg") if st["k"] == "assign" else None
            if not a or a.get("adt") != "tracing_subscriber::subscribe::context::Context" or "filter" not in (a.get("fields") or []):
                continue
            o = b.origin(st["rv"]["ops"][a["fields"].index("filter")])
            n += 1
            key = "%s builds its Context with an accumulated filter id" % "::".join(b.path.replace("::<'a, C>", "").replace("::<'_, S>", "").split("::")[-2:])
            ok = False
            if o[0] == "arg" and o[1] == 1 and [x.get("n") for x in o[2]] == ["filter"]:
                ok = True
            elif o[0] == "call" and o[2]["callee"].get("path") == SF + "FilterId::none":
                ok = True
            elif o[0] == "call" and o[2]["callee"].get("path") == SF + "FilterId::and":
                recv = b.origin(o[2]["argv"][0])
                ok = recv[0] == "arg" and recv[1] == 1 and [x.get("n") for x in recv[2]] == ["filter"]
            if ok:
                ck.ok("C07.R3", key, fn=b.path)
            else:
                ck.bad("C07.R3", key, where(st.get("sp") or b.raw["sp"]), "the new context's filter id is %s: a layer under two nested filters would be shown spans the outer filter rejected"
                       % (("parameter %d" % o[1]) if o[0] == "arg" else o[0]), fn=b.path)
    if n < 3:
        ck.bad("C07.R3", "Context constructions found", P, "only %d aggregate constructions of Context seen (expected new, none, with_filter, clone)" % n)


def lookup_current_fallback(ck, F, rid="C07.R3"):
    P = "tracing_subscriber::subscribe::context::Context::<'a, C>::"
    lcf = F.body(P + "lookup_current_filtered")
    lc = F.body(P + "lookup_current")
    if lcf is not None and lc is not None:
        walks = [t for bb, t in lcf.calls() if t["callee"].get("path") == "tracing_subscriber::registry::sharded::Registry::span_stack"]
        it = [t for bb, t in lcf.calls() if t["callee"].get("path") == "tracing_subscriber::registry::stack::SpanStack::iter"]
        used = any(t["callee"].get("path") == P + "lookup_current_filtered" for x in [lc] + F.closures_of(lc) for bb, t in x.calls())   # (`.or_else(|| ..)` too)
        if walks and it and used:
            ck.ok(rid, "lookup_current falls back to the newest accepted span of the thread's entered-span stack", fn=lcf.path)
        else:
            ck.bad(rid, "lookup_current falls back to the newest accepted span of the thread's entered-span stack", where(lc.raw["sp"]),
                   "the fallback does not iterate Registry::span_stack(): what a layer sees as current would depend on the parent links of a span its filter rejected", fn=lc.path)


# ------------------------------------------------------------------ R4
def r4(ck, F):
    new = F.body(SF + "FilterId::new")
    if ck.anchor("C07.R4", "FilterId::new", new):
        ok = False
        for p in PathEval(new).run():
            if p.end == "return" and p.ret and p.ret[0] == "agg":
                v = p.ret[3][0]
                txt = show(v)
                ok = ok or (v[0] == "bin" and v[1] in ("Shl", "ShlUnchecked") and v[2][0] == "const" and v[2][2] == 1)
        lt = any(s.get("rv", {}).get("bin") == "Lt" and (s["rv"]["b"].get("const") or {}).get("int") == 64 for i, j, s in new.stmts())
        if ok and lt:
            ck.ok("C07.R4", "FilterId::new(id) == 1 << id with id < 64 asserted", fn=new.path)
        else:
            ck.bad("C07.R4", "FilterId::new(id) == 1 << id with id < 64 asserted", where(new.raw["sp"]), "shape not recognised (shift: %s, bound: %s)" % (ok, lt))
    rf = F.body("<tracing_subscriber::registry::sharded::Registry as tracing_subscriber::registry::LookupSpan<'a>>::register_filter")
    if ck.anchor("C07.R4", "Registry::register_filter", rf):
        incs = [s for i, j, s in rf.stmts() if s["k"] == "assign" and any(isinstance(x, dict) and x.get("n") == "next_filter_id" for x in s["lhs"].get("p", []))]
        ps = [p for p in PathEval(rf).run() if p.end == "return"]
        if incs and all(len(incs) >= 1 for p in ps):
            ck.ok("C07.R4", "register_filter hands out next_filter_id and increments it", fn=rf.path)
        else:
            ck.bad("C07.R4", "register_filter hands out next_filter_id and increments it", where(rf.raw["sp"]), "next_filter_id is not advanced: two filters would share a bit")
    # Filtered.id written only in Filtered::new (disabled placeholder) and on_subscribe (from register_filter)
    from rulekit.query import field_users
    writers = {}
    for b, bb, kind, d in field_users(F, SF + "Filtered", "id", crate="tracing_subscriber"):
        if kind == "assign":
            writers[b.path] = kind
    want = {FILTERED + "on_subscribe"}
    if set(writers) == want:
        osb = F.body(FILTERED + "on_subscribe")
        reg = [t for bb, t in osb.calls() if t["callee"].get("method") == "register_filter"]
        fwd = [t for bb, t in osb.calls() if t["callee"].get("trait") == SUBSCRIBE and t["callee"].get("method") == "on_subscribe"]
        if len(reg) == 1 and len(fwd) == 1:
            ck.ok("C07.R4", "Filtered.id assigned only in on_subscribe from register_filter; inner on_subscribe forwarded", fn=osb.path)
        else:
            ck.bad("C07.R4", "Filtered.id assigned only in on_subscribe from register_filter", where(osb.raw["sp"]), "register_filter sites %d, forwarded on_subscribe %d" % (len(reg), len(fwd)))
    else:
        ck.bad("C07.R4", "Filtered.id assigned only in on_subscribe from register_filter", str(sorted(writers)), "writers of Filtered.id: %s" % sorted(writers))
    # the small algebra around filter ids: none() is the empty set, disabled() the "not yet registered" marker (all ones),
    # and() is union unless self is still the marker; any_enabled means "not every bit is set"
    want = {
        "FilterId::none": [([], "FilterId{0}")],
        "FilterId::disabled": [([], "FilterId{<impl u64>::MAX}")],
        "FilterId::and": [([("(arg1.0 Eq disabled().0)", 0)], "FilterId{(arg1.0 BitOr arg2.0)}"), ([("(arg1.0 Eq disabled().0)", None)], "FilterId{arg2.0}")],
        "FilterMap::any_enabled": [([], "(<impl u64>::MAX Ne arg1.bits)")],
    }
    for nm, rows_want in want.items():
        b = F.body(SF + nm)
        if not ck.anchor("C07.R4", nm, b):
            continue
        # (terms in canonical spelling: operands of commutative operators in text order)
        got = [([(show(canon(c[0])), c[1]) for c in p.conds if c[0][0] != "const"], show(canon(p.ret))) for p in PathEval(b).run() if p.end == "return"]
        norm = lambda rows: sorted(((tuple((t, "0" if v == 0 else "else") for t, v in c), r) for c, r in rows), key=repr)
        ok = len(got) == len(rows_want) and all(any(gc == wc and gr == wr for gc, gr in norm(got)) for wc, wr in norm(rows_want))
        if ok:
            ck.ok("C07.R4", "%s table" % nm, fn=b.path)
        else:
            ck.bad("C07.R4", "%s table" % nm, where(b.raw["sp"]), "rows %s, expected %s" % (got, rows_want), fn=b.path)
    for m, ty, n in (("and", "And", 2), ("or", "Or", 2), ("not", "Not", 1)):
        b = F.body(SF + "FilterExt::" + m)
        if not ck.anchor("C07.R4", "FilterExt::" + m, b):
            continue
        rets = [p.ret for p in PathEval(b).run() if p.end == "return"]
        ok = len(rets) == 1 and rets[0][0] == "call" and ("combinator::%s::" % ty) in rets[0][1] and rets[0][1].endswith("::new") and \
            [show(a) for a in rets[0][2]] == ["arg%d" % k for k in range(1, n + 1)]
        key = "FilterExt::%s builds combinator::%s from its operands in order" % (m, ty)
        if ok:
            ck.ok("C07.R4", key, fn=b.path)
        else:
            ck.bad("C07.R4", key, where(b.raw["sp"]), "returns %s" % [show(r)[:80] for r in rets], fn=b.path)
    # FilterMap::set / is_enabled tables
    st = F.body(SF + "FilterMap::set")
    ie = F.body(SF + "FilterMap::is_enabled")
    if ck.anchor("C07.R4", "FilterMap::set", st) and ck.anchor("C07.R4", "FilterMap::is_enabled", ie):
        rows = {}
        for p in PathEval(st).run():
            if p.end != "return":
                continue
            conds = {show(c[0]): c[1] for c in p.conds}
            dis = [v for k, v in conds.items() if "MAX" in k]
            en = conds.get("arg3")
            r = p.ret
            what = "self" if r == ("arg", 1) else (r[3][0][1] + ("~" if "Not" in show(r[3][0]) else "") if r[0] == "agg" and r[3][0][0] == "bin" else show(r))
            rows[(bool(dis and dis[0] != 0), None if en is None and not (dis and dis[0] == 0) else (en != 0 if "arg3" in conds else None))] = what
        good = rows.get((True, None)) == "self" and rows.get((False, True)) == "BitAnd~" and rows.get((False, False)) == "BitOr"
        r_ie = [show(canon(p.ret)) for p in PathEval(ie).run() if p.end == "return"]
        good2 = r_ie == ["((arg1.bits BitAnd arg2.0) Eq 0)"]
        if good and good2:
            ck.ok("C07.R4", "FilterMap::set/is_enabled: enabled clears the bit, disabled sets it, is_enabled tests it", fn=st.path)
        else:
            ck.bad("C07.R4", "FilterMap::set/is_enabled: enabled clears the bit, disabled sets it, is_enabled tests it", where(st.raw["sp"]), "tables: set=%s is_enabled=%s" % (rows, r_ie))


# ------------------------------------------------------------------ R5
def summaries(ck, R, rid="C07.R5"):
    """Extract the effect summary (flags) of each method from MIR. Unrecognised shape => fail closed."""
    S = {}

    def shape(name, ok, detail, body=None):
        key = "summary:" + name
        if ok:
            ck.ok(rid + "s", key, detail=detail, fn=body.path if body else None)
        else:
            ck.bad(rid + "s", key, where(body.raw["sp"]) if body else name, "effect summary not recognised: %s" % detail, fn=body.path if body else None)
        return ok

    def calls_of(b):
        return [(bb, t) for bb, t in b.calls()]

    # FilterState::set: enabled := enabled.get().set(filter, v)
    b = R.body(SF + "FilterState::set")
    if ck.anchor(rid + "s", "FilterState::set", b):
        ps = [p for p in PathEval(b).run() if p.end == "return"]
        ok = len(ps) == 1
        if ok:
            w = [c for c in ps[0].calls if c[1].get("method") == "set" and "Cell" in c[1].get("path", "")]
            ok = len(w) == 1 and show(w[0][2][1]) == "set(get(arg1.enabled), arg2, arg3)" and w[0][2][0] == ("field", ("arg", 1), "enabled")
        S["set_writes"] = shape("FilterState::set writes map.set(filter, verdict)", ok, "", b)
    # FilterState::and
    b = R.body(SF + "FilterState::and")
    if ck.anchor(rid + "s", "FilterState::and", b):
        rows = {}
        for p in PathEval(b).run():
            if p.end != "return":
                continue
            c = [x for x in p.conds if show(x[0]) == "is_enabled(get(arg1.enabled), arg2)"]
            if not c:
                continue
            called = any(x[1].get("method") == "call_once" for x in p.calls)
            w = [x for x in p.calls if x[1].get("method") == "set" and "Cell" in x[1].get("path", "")]
            wv = show(w[0][2][1]) if len(w) == 1 else None
            rows[c[0][1] != 0] = (called, wv, show(p.ret))
        # dirty: f not called, writes set(map, id, false) i.e. stays dirty, returns false; clear: calls f, writes set(map,id,f())
        d = rows.get(False)
        c = rows.get(True)
        ok = d is not None and c is not None
        S["and_short_circuit"] = ok and not d[0]
        S["and_dirty_writes_dirty"] = ok and d[1] is not None and d[1].startswith("set(get(arg1.enabled), arg2, 0")
        S["and_clear_writes_result"] = ok and c[0] and c[1] is not None and "call_once" in c[1]
        shape("FilterState::and", ok and S["and_clear_writes_result"], str(rows), b)
    # FilterState::did_enable
    b = R.body(SF + "FilterState::did_enable")
    if ck.anchor(rid + "s", "FilterState::did_enable", b):
        rows = {}
        for p in PathEval(b).run():
            if p.end != "return":
                continue
            c = [x for x in p.conds if show(x[0]) == "is_enabled(get(arg1.enabled), arg2)"]
            if not c:
                continue
            called = any(x[1].get("method") == "call_once" for x in p.calls)
            w = [x for x in p.calls if x[1].get("method") == "set" and "Cell" in x[1].get("path", "") and x[2][0] == ("field", ("arg", 1), "enabled")]
            rows[c[0][1] != 0] = (called, [show(x[2][1]) for x in w])
        ok = set(rows) == {True, False}
        S["did_enable_runs_on_clear"] = ok and rows[True][0] and not rows[True][1]
        S["did_enable_skips_on_dirty"] = ok and not rows[False][0]
        S["did_enable_clears_on_skip"] = ok and rows[False][1] == ["set(get(arg1.enabled), arg2, 1)"]
        shape("FilterState::did_enable", ok and S["did_enable_runs_on_clear"] and S["did_enable_skips_on_dirty"], str(rows), b)
    # clear_enabled
    b = R.body(SF + "FilterState::clear_enabled::{closure#0}")
    if ck.anchor(rid + "s", "FilterState::clear_enabled", b):
        w = [t for bb, t in b.calls() if t["callee"].get("method") == "set" and "Cell" in t["callee"].get("path", "")]
        ok = len(w) == 1 and b.origin(w[0]["argv"][1])[0] == "call" and b.origin(w[0]["argv"][1])[2]["callee"].get("path") == SF + "FilterMap::new"
        S["clear_all"] = shape("FilterState::clear_enabled stores FilterMap::new()", ok, "", b)
    nm = R.body(SF + "FilterMap::new")
    if nm:
        r = [p.ret for p in PathEval(nm).run() if p.end == "return"]
        S["new_is_clear"] = shape("FilterMap::new() has no bit set", len(r) == 1 and r[0][0] == "agg" and r[0][3][0][0] == "const" and r[0][3][0][2] == 0, show(r[0]) if r else "", nm)
    # Filtered::enabled: set(id, verdict of own filter), on every path
    b = R.body(FILTERED + "enabled")
    if ck.anchor(rid + "s", "Filtered::enabled", b):
        cl = [c for c in R.closures_of(b)]
        setc = [(c, t) for c in cl for bb, t in c.calls() if t["callee"].get("path") == SF + "FilterState::set"]
        ok = len(setc) == 1
        if ok:
            c, t = setc[0]
            v = c.origin(t["argv"][2])
            ok = v[0] == "arg" and "enabled" in proj_names(v[2])
            withc = [bb for bb, tt in b.calls() if tt["callee"].get("method") == "with" and "LocalKey" in tt["callee"].get("path", "")]
            ok = ok and len(withc) == 1 and b.postdominates(withc[0], 0)
            # the captured `enabled` is the result of filter.enabled
            fe = [bb for bb, tt in b.calls() if tt["callee"].get("trait") == FILTER and tt["callee"].get("method") == "enabled"]
            ok = ok and len(fe) == 1 and b.dominates(fe[0], withc[0])
        S["filtered_enabled_writes_verdict"] = shape("Filtered::enabled records its filter's verdict with FilterState::set on every path", ok, "", b)
    b = R.body(FILTERED + "event_enabled")
    if ck.anchor(rid + "s", "Filtered::event_enabled", b):
        cl = R.closures_of(b)
        andc = [(c, t) for c in cl for bb, t in c.calls() if t["callee"].get("path") == SF + "FilterState::and"]
        fe = [(c, t) for c in cl for bb, t in c.calls() if t["callee"].get("trait") == FILTER and t["callee"].get("method") == "event_enabled"]
        ok = len(andc) == 1 and len(fe) == 1 and fe[0][0].path.startswith(andc[0][0].path + "::")
        S["filtered_event_enabled_ands"] = shape("Filtered::event_enabled folds its filter's event verdict in with FilterState::and", ok, "", b)
    for m in ("on_event", "on_new_span"):
        b = R.body(FILTERED + m)
        if ck.anchor(rid + "s", "Filtered::" + m, b):
            de = [bb for bb, t in b.calls() if t["callee"].get("path") == SF + "Filtered::<S, F, C>::did_enable"]
            ok = len(de) == 1 and b.postdominates(de[0], 0)
            if not de:
                # the helper written out in place: FILTERING.with(|filtering| filtering.did_enable(self.id(), || deliver))
                deliver = [c for c in R.closures_of(b) if any(t["callee"].get("method") == m and t["callee"].get("trait", "").endswith("Subscribe") for bb, t in c.calls())]
                ok = len(deliver) == 1 and direct_did_enable(R, b, deliver[0])
            S["filtered_%s_consumes" % m] = shape("Filtered::%s consumes its bit through did_enable on every path" % m, ok, "", b)
    de = R.body(SF + "Filtered::<S, F, C>::did_enable")
    if de:
        cl = R.closures_of(de)
        ok = any(t["callee"].get("path") == SF + "FilterState::did_enable" for c in cl for bb, t in c.calls())
        shape("Filtered::did_enable delegates to FilterState::did_enable(self.id(), f)", ok, "", de)
    # Layered vetoes
    for m, flag in (("enabled", "layered_enabled_veto_clears"), ("event_enabled", "layered_event_enabled_veto_clears")):
        b = R.body(LAYERED_C + m)
        if ck.anchor(rid + "s", "Layered::" + m, b):
            rows = {}
            for p in PathEval(b).run():
                if p.end != "return" or not p.conds:
                    continue
                c = p.conds[0]
                outer_first = c[0][0] == "call" and c[0][1].endswith("Subscribe::" + m) and c[0][2][0] == ("field", ("arg", 1), "subscriber")
                clears = any(x[1].get("path") == SF + "FilterState::clear_enabled" for x in p.calls)
                k = c[1] != 0
                if k in rows:
                    # several paths behind the same verdict (e.g. the clearing made conditional): the veto clears only
                    # if every such path does
                    prev = rows[k]
                    rows[k] = (prev[0] and outer_first, prev[1] and clears, prev[2] if prev[2] == show(p.ret) else prev[2] + "|" + show(p.ret))
                else:
                    rows[k] = (outer_first, clears, show(p.ret))
            ok = set(rows) == {True, False} and rows[True][0] and rows[False][2] == "0" and rows[True][2].startswith(m + "(arg1.inner")
            S[flag] = ok and rows[False][1]
            shape("Layered::%s asks the outer layer first; veto returns false (clears bitmap: %s)" % (m, S[flag]), ok, str(rows), b)
    # Registry::new_span only reads the bitmap
    b = R.body(REG_C + "new_span")
    if ck.anchor(rid + "s", "Registry::new_span", b):
        cl = R.closures_of(b)
        fm = [1 for c in cl for bb, t in c.calls() if t["callee"].get("path") == SF + "FilterState::filter_map"]
        wr = [1 for c in [b] + cl for bb, t in c.calls() if t["callee"].get("path") in (SF + "FilterState::clear_enabled", SF + "FilterState::set")]
        S["new_span_reads_only"] = shape("Registry::new_span snapshots the bitmap into the span without resetting it", bool(fm) and not wr, "", b)
    # Dispatch::event: event iff event_enabled
    d = R.body("tracing_core::dispatch::Dispatch::event")
    if ck.anchor(rid + "s", "Dispatch::event", d):
        rows = {}
        for p in PathEval(d).run():
            if p.end != "return" or not p.conds:
                continue
            c = p.conds[0]
            rows[c[1] != 0] = any(x[1].get("method") == "event" and x[1].get("trait", "").endswith("Collect") for x in p.calls)
        S["dispatch_event_guarded"] = shape("Dispatch::event delivers iff event_enabled", rows == {True: True, False: False}, str(rows), d)
    return S


class Sim:
    """Typestate simulation of one protocol run over a stack (outer -> inner), parameterised by the extracted flags."""

    def __init__(self, S, stack, verdicts):
        self.S = S
        self.stack = stack            # list of ('F', i) | ('G',)
        self.v = verdicts             # dict: ('F',i) -> (enabled, event_enabled); ('G',) -> (enabled, event_enabled)
        self.bits = {i: "C" for k in stack if k[0] == "F" for i in [k[1]]}
        self.delivered = set()
        self.last_writer = {}

    def write(self, i, val, who):
        self.bits[i] = val
        if val == "D":
            self.last_writer[i] = who

    def enabled(self):
        S = self.S
        for layer in self.stack:
            if layer[0] == "F":
                i = layer[1]
                v = self.v[layer][0]
                if S.get("filtered_enabled_writes_verdict") and S.get("set_writes"):
                    self.write(i, "C" if v else "D", "Filtered::enabled")
                # always true towards the stack (R2)
            else:
                if not self.v[layer][0]:
                    if S.get("layered_enabled_veto_clears") and S.get("clear_all"):
                        for k in self.bits:
                            self.bits[k] = "C"
                    return False
        return True   # Registry::enabled: any_enabled with < 64 filters

    def event_enabled(self):
        S = self.S
        for layer in self.stack:
            if layer[0] == "F":
                i = layer[1]
                if S.get("filtered_event_enabled_ands"):
                    if self.bits[i] == "D" and S.get("and_short_circuit"):
                        e = False
                    else:
                        e = self.v[layer][1] and self.bits[i] == "C"
                    if e:
                        if S.get("and_clear_writes_result"):
                            self.write(i, "C", "Filtered::event_enabled")
                    else:
                        if self.bits[i] == "D":
                            if S.get("and_dirty_writes_dirty"):
                                self.write(i, "D", self.last_writer.get(i, "Filtered::event_enabled"))
                        elif S.get("and_clear_writes_result"):
                            self.write(i, "D", "Filtered::event_enabled")
            else:
                if not self.v[layer][1]:
                    if S.get("layered_event_enabled_veto_clears") and S.get("clear_all"):
                        for k in self.bits:
                            self.bits[k] = "C"
                    else:
                        for k, b in self.bits.items():
                            if b == "D":
                                self.last_writer[k] = "Layered::event_enabled"
                    return False
        return True

    def notify(self, flag):
        S = self.S
        for layer in reversed(self.stack):
            if layer[0] == "F":
                i = layer[1]
                if not S.get(flag):
                    self.delivered.add(i)
                    continue
                if self.bits[i] == "C":
                    if S.get("did_enable_runs_on_clear"):
                        self.delivered.add(i)
                else:
                    if not S.get("did_enable_skips_on_dirty"):
                        self.delivered.add(i)
                    if S.get("did_enable_clears_on_skip"):
                        self.bits[i] = "C"

    def run(self, kind, interest):
        if kind == "probe":
            self.enabled()
            return
        if interest == "sometimes":
            if not self.enabled():
                return
        if kind == "event":
            if not self.S.get("dispatch_event_guarded") or self.event_enabled():
                self.notify("filtered_on_event_consumes")
        elif kind == "span":
            self.notify("filtered_on_new_span_consumes")


def r5(ck, R, rid="C07.R5"):
    S = summaries(ck, R, rid)
    shapes = {
        "filtered": [("F", 0)],
        "filtered-over-global": [("F", 0), ("G",)],
        "global-over-filtered": [("G",), ("F", 0)],
        "two-filtered": [("F", 0), ("F", 1)],
    }
    bools = (True, False)
    for sname, stack in shapes.items():
        layers = stack
        for combo in itertools.product(*[list(itertools.product(bools, bools)) for _ in layers]):
            verdicts = dict(zip(layers, combo))
            for kind in ("event", "span", "probe"):
                for interest in (("sometimes", "always") if kind in ("event", "span") else ("sometimes",)):
                    # a callsite is cached `always` only if every filter statically accepts it
                    if interest == "always" and not all(v[0] for v in verdicts.values()):
                        continue
                    sim = Sim(S, stack, verdicts)
                    sim.run(kind, interest)
                    vtxt = ",".join("%s%s=%s/%s" % (k[0], k[1] if len(k) > 1 else "", "T" if v[0] else "F", "T" if v[1] else "F") for k, v in verdicts.items())
                    inst = "%s|%s|%s|%s" % (sname, kind, interest, vtxt)
                    dirty = [i for i, b in sim.bits.items() if b == "D"]
                    if dirty:
                        writer = sim.last_writer.get(dirty[0], "?")
                        run_name = {"probe": "probe"}.get(kind, "event_enabled-veto" if writer == "Layered::event_enabled" else kind)
                        ck.bad(rid, "%s:%s" % (run_name, writer), "FILTERING.enabled",
                               "run [%s] leaves filter bit(s) %s dirty (last writer %s): the next emission from a callsite cached `always` skips "
                               "`enabled`, reads the stale bit and the layer misses an event its filter accepts" % (inst, dirty, writer))
                        # key collapses all runs with the same (run, writer); count instance separately
                        continue
                    # delivery: layer i receives iff its filter accepts (static and event verdict) and every global filter accepts
                    if kind in ("event", "span"):
                        globals_ok = all((v[0] if interest == "sometimes" else True) and (v[1] if kind == "event" else True)
                                         for k, v in verdicts.items() if k[0] == "G")
                        want = set()
                        for k, v in verdicts.items():
                            if k[0] == "F" and globals_ok and v[0] and (v[1] if kind == "event" else True):
                                want.add(k[1])
                        if sim.delivered != want:
                            ck.bad(rid, "delivery:%s:%s" % (sname, kind), "Filtered",
                                   "run [%s] from a clean bitmap delivers to layers %s, expected %s" % (inst, sorted(sim.delivered), sorted(want)))
                            continue
                    ck.ok(rid, inst, detail=dict(final=sim.bits, delivered=sorted(sim.delivered)))


def r7(ck, F, rid="C07.R7"):
    """`Layered::pick_interest` replaces the interest a layer computed by the summed per-filter interest when the layer says
    (through the downcast marker) that it is per-layer-filtered. A Vec of layers may say so only if ALL its elements are
    filtered: with one unfiltered element the summed interest says nothing about that element, which then loses events
    its siblings' filters reject (or a global filter inside the Vec can no longer veto)."""
    b = F.impl_method("tracing_subscriber::subscribe::Subscribe", "alloc::vec::Vec<S>", "downcast_raw")
    if not ck.anchor(rid, "Vec<S>::downcast_raw", b):
        return
    key = "Vec<S>::downcast_raw answers the psf marker with None as soon as one element is unfiltered"
    rows = []
    for p in PathEval(b).run():
        if p.end != "return":
            continue
        marker = [c for c in p.conds if show(c[0]).startswith("is_psf_downcast_marker(")]
        if not marker or marker[0][1] == 0:
            continue
        quant = None
        for c in p.conds:
            t = c[0]
            if t[0] == "call" and t[1].rsplit("::", 1)[-1] in ("any", "all") and len(t[2]) == 2:
                cb = F.body(closure_of_term(t[2][1]) or "")
                rets = {show(q.ret) for q in PathEval(cb).run() if q.end == "return"} if cb else set()
                # `unfiltered && not an absent (None) layer`: an Option::None / empty element has no say -- it must behave
                # as if it were not in the Vec at all. Recognised as the conjunction of two is_none(downcast_raw(..)) tests,
                # the second one for the crate's none-layer marker.
                if cb and rets == {"0", "is_none(downcast_raw(arg2, of()))"}:
                    ofs = [tt["callee"].get("targs", [""])[0] for _, tt in cb.calls() if tt["callee"].get("path") == "core::any::TypeId::of"]
                    first = [show(cc[0]) for q in PathEval(cb).run() if q.end == "return" and show(q.ret) != "0" for cc in q.conds if cc[1] != 0]
                    if ofs and all(o.endswith("NoneLayerMarker") for o in ofs) and first and all(x.startswith("is_none(downcast_raw(arg2, arg1.") for x in first):
                        rets = {"is_none(downcast_raw(arg2, arg1.id)) [and not a none-layer]"}
                # the same predicate negated, for `!all(..)`: filtered OR an absent layer
                if cb and rets == {"1", "is_some(downcast_raw(arg2, of()))"}:
                    ofs = [tt["callee"].get("targs", [""])[0] for _, tt in cb.calls() if tt["callee"].get("path") == "core::any::TypeId::of"]
                    first = [show(cc[0]) for q in PathEval(cb).run() if q.end == "return" and show(q.ret) != "1" for cc in q.conds if cc[1] == 0]
                    if ofs and all(o.endswith("NoneLayerMarker") for o in ofs) and first and all(x.startswith("is_some(downcast_raw(arg2, arg1.") for x in first):
                        rets = {"is_some(downcast_raw(arg2, arg1.id)) [or a none-layer]"}
                quant = (t[1].rsplit("::", 1)[-1], sorted(rets), c[1] != 0)
        rows.append((quant, show(p.ret)))
    ok = bool(rows)
    why = "no path tests the per-layer-filter marker"
    # the same decision written as a loop over the elements (no any()/all() adaptor to read the predicate from): on the
    # marker paths, `None` is answered exactly after an element that is unfiltered *and* not an absent (None) layer, and
    # the other elements let the loop go on
    allp = PathEval(b).run()
    mk = [p for p in allp if any(show(c[0]).startswith("is_psf_downcast_marker(") and c[1] != 0 for c in p.conds)]
    if rows and all(q is None for q, _ in rows) and any(p.end == "loop" for p in mk):
        problems = []
        seen_none = False
        for p in mk:
            cs = [(show(c[0]), c[1]) for c in p.conds]
            elem = [(t, v) for t, v in cs if t.startswith(("is_none(downcast_raw(", "is_some(downcast_raw("))]
            unf = [((v != 0) if t.startswith("is_none(") else (v == 0)) for t, v in elem]       # `this test found nothing`
            if p.end == "return" and show(p.ret).startswith("Option::None") and elem:
                seen_none = True
                if not (len(unf) >= 2 and all(unf[-2:])):
                    problems.append("None is answered after an element that %s" % ("was not tested for being an absent (None) layer" if len(unf) < 2 else "is filtered or absent"))
            if p.end == "loop" and len(unf) >= 2 and all(unf[-2:]):
                problems.append("the loop goes on after an unfiltered, present element")
        if not seen_none:
            problems.append("no element can make the Vec answer None")
        if problems:
            ck.bad(rid, key, where(b.raw["sp"]), "; ".join(sorted(set(problems))), fn=b.path)
        else:
            ck.ok(rid, key, fn=b.path, detail="loop spelling")
        rows, ok = [], None
    for quant, ret in rows:
        if quant is None:
            ok, why = False, "the marker is answered without looking at every element"
            continue
        q, pred, taken = quant
        unfiltered_exists = None
        if pred and pred[0].startswith("is_none(downcast_raw("):
            unfiltered_exists = taken if q == "any" else None          # any(is_none) true  <=> some element unfiltered
            if q == "all":
                ok, why = False, "the marker is refused only when ALL elements are unfiltered (all(is_none)): a Vec mixing filtered and unfiltered layers claims to be per-layer-filtered"
                continue
        elif pred and pred[0].startswith("is_some(downcast_raw("):
            if q == "all":
                unfiltered_exists = not taken                            # all(is_some) false <=> some element unfiltered
            else:
                ok, why = False, "the marker is granted when ANY element is filtered (any(is_some)): a mixed Vec claims to be per-layer-filtered"
                continue
        else:
            ok, why = False, "unrecognised element predicate %s" % pred
            continue
        if unfiltered_exists and not ret.startswith("Option::None"):
            ok, why = False, "with an unfiltered element the marker is answered %s instead of None" % ret[:60]
        if pred and "[and not a none-layer]" not in pred[0] and "[or a none-layer]" not in pred[0]:
            ok, why = False, ("an Option::None (or empty) element counts as an unfiltered layer: a Vec of filtered layers and a None is not recognised as "
                              "per-layer-filtered, and the enclosing Layered publishes the filters' hint for the whole stack")
    if ok is None:
        pass
    elif ok:
        ck.ok(rid, key, fn=b.path, detail=[str(r) for r in rows])
    else:
        ck.bad(rid, key, where(b.raw["sp"]), why, fn=b.path)
    # the same for a Layered tree (`a.and_then(b)`): per-layer-filtered only if BOTH halves are, asked now (not read from
    # the flags cached at construction, one of which is also set for "the inner value is the Registry")
    lb = F.impl_method("tracing_subscriber::subscribe::Subscribe", "tracing_subscriber::subscribe::layered::Layered<A, B, C>", "downcast_raw")
    if ck.anchor(rid, "Subscribe for Layered::downcast_raw", lb):
        key2 = "Layered tree answers the psf marker with and(outer, inner) of the halves' own answers"
        got = [show(p.ret) for p in PathEval(lb).run() if p.end == "return"
               and any(show(c[0]).startswith("is_psf_downcast_marker(") and c[1] != 0 for c in p.conds)]
        good = {"and(downcast_raw(arg1.subscriber, arg2), downcast_raw(arg1.inner, arg2))", "and(downcast_raw(arg1.inner, arg2), downcast_raw(arg1.subscriber, arg2))"}
        # one half alone may answer only when the other half is an absent (None / empty) layer: it answered None for the
        # marker *and* Some for the none-layer marker on that path
        wrong = []
        for p in PathEval(lb).run():
            if p.end != "return" or not any(show(c[0]).startswith("is_psf_downcast_marker(") and c[1] != 0 for c in p.conds):
                continue
            r = show(p.ret)
            if r in good:
                continue
            conds = {show(c[0]): c[1] for c in p.conds}
            ok1 = False
            for me, other in (("inner", "subscriber"), ("subscriber", "inner")):
                if r == "downcast_raw(arg1.%s, arg2)" % me and conds.get("is_none(downcast_raw(arg1.%s, arg2))" % other, 0) != 0 \
                        and conds.get("is_some(downcast_raw(arg1.%s, of()))" % other, 0) != 0:
                    ok1 = True
            if not ok1:
                wrong.append(r[:80])
        single = {g for g in got if g not in good}
        if got and not wrong and len(single) < 2:
            ck.bad(rid, key2, where(lb.raw["sp"]), "an absent (None / empty) half is not neutral: `None.and_then(filtered)` is not recognised as per-layer-filtered "
                   "and its filter's hint is published for the whole stack (answers: %s)" % sorted(set(got)), fn=lb.path)
        elif got and not wrong:
            ck.ok(rid, key2, fn=lb.path, detail=sorted(set(got)))
        else:
            ck.bad(rid, key2, where(lb.raw["sp"]), "the marker is answered %s" % (wrong or "on no path"), fn=lb.path)
