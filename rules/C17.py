"""C17 — #[instrument] preserves behaviour and adds one well-formed span per call.

The attribute is a compiler from function items to function items; the corpus is the fixture crate fx_instrument, in which
every instrumented function `f` has a hand-written twin `f_twin` with the identical body made of calls to distinct marker
functions. Both are compiled by the real proc-macro and rustc; the rules compare their MIR.

R1 behaviour: the language of marker-call sequences (an NFA over the CFG, closures/inner futures of the expansion inlined,
   compared after determinisation) of `f` equals that of `f_twin`, including which sequences end in `return` and which in a
   panic; the value returned by a ret/err wrapper is the wrapped body's value.
R2 one well-formed span: exactly one SPAN callsite and one construction site per instrumented function, with the configured
   name, level, target, field names (skipped parameters absent), parent and follows_from.
R3 inside the span: Span::enter (sync) / Instrument::instrument (async) covers every marker; the guard is dropped after the
   last marker on normal and unwinding exits; ret/err events sit between enter and the guard's drop, on the right arm, with
   the right field and level; tracing's Instrumented::poll enters around the inner poll.
R4 arguments: the prelude of the expansion only borrows / copies parameters (no move, no &mut) before the body runs.
"""
import json
import os
from collections import defaultdict, deque

from rulekit import Facts, where
from rulekit import facts as _facts
from rulekit.sym import PathEval, show

FX = "fx_instrument"
PANICS = ("core::panicking::panic_fmt", "core::panicking::panic", "std::rt::begin_panic", "core::panicking::panic_display",
          "std::rt::panic_fmt", "core::panicking::panic_explicit")
SPAN_NEW = {"tracing::span::Span::new": "new", "tracing::span::Span::child_of": "child_of", "tracing::span::Span::new_root": "new_root"}
SPAN_OFF = {"tracing::__macro_support::MacroCallsite::disabled_span", "tracing::span::Span::none", "tracing::span::Span::new_disabled"}
ENTER = "tracing::span::Span::enter"
LEVELS = {"TRACE": 0, "DEBUG": 1, "INFO": 2, "WARN": 3, "ERROR": 4}
LE = "<tracing_core::metadata::Level as core::cmp::PartialOrd<tracing_core::metadata::LevelFilter>>::le"
INSTRUMENT = "tracing::instrument::Instrument::instrument"
FLOOR_FNS = 230


def load_expect(F):
    p = os.path.join(_facts.VERIF, "fixtures", "fx_instrument", "expect.json")
    with open(p) as fh:
        d = json.load(fh)
    # the generated part of the corpus (fixtures/gen_instrument.py), written into the fixture work copy
    gp = os.path.join(_facts.fixture_dir(F.config, None), "fx_instrument", "gen_expect.json")
    with open(gp) as fh:
        d.update(json.load(fh))
    return d


# ------------------------------------------------------------------------------------------------ marker automaton
def is_marker(path):
    return path.startswith(FX + "::") and "{closure" not in path and "::__" not in path


class Auto:
    """NFA of marker-call sequences of a body, with the expansion's closures / inner futures inlined."""

    def __init__(self, F, root_body):
        self.F = F
        self.root = root_body
        self.edges = defaultdict(list)
        self.accept = {}
        self.inlined = []
        self.via_instrumented = []
        self.token_sites = []        # (ns, bb, label)
        self.ty2def = {}
        for b in [root_body] + F.closures_of(root_body):
            for i, j, s in b.stmts():
                if s["k"] == "assign" and "agg" in s.get("rv", {}):
                    a = s["rv"]["agg"]
                    d = a.get("closure") or a.get("coroutine")
                    if d and "p" not in s["lhs"]:
                        self.ty2def[b.locals[s["lhs"]["l"]]] = d
        self.start = self.add(root_body, "")
        self.accept[("", "RET")] = "return"

    def nested(self, path):
        rp = self.root.root or self.root.path
        return path and path.startswith(rp + "::{closure") and self.F.body(path) is not None

    def target_of(self, body, t):
        c = t["callee"]
        m = c.get("method")
        if m in ("call", "call_once", "call_mut", "poll", "resume"):
            r = c.get("resolved")
            if self.nested(r):
                return r, False
            st = c.get("self_ty") or ""
            if st.startswith("tracing::instrument::Instrumented<") and m == "poll":
                inner = st[len("tracing::instrument::Instrumented<"):-1]
                d = self.ty2def.get(inner)
                if d and self.nested(d):
                    return d, True
        return None, False

    def add(self, body, ns, depth=0):
        entry = (ns, 0)
        for bb in sorted(body.reachable(0)):
            t = body.term(bb)
            k = t["k"]
            here = (ns, bb)
            if k == "return":
                self.edges[here].append((None, (ns, "RET")))
                continue
            if k != "call":
                for s in body.succ(bb):
                    self.edges[here].append((None, (ns, s)))
                continue
            cp = t["callee"].get("path") or ""
            ret = t.get("ret")
            if cp in PANICS:
                self.token_sites.append((ns, bb, "panic!"))
                self.edges[here].append(("panic!", ("", "PANIC")))
                self.accept[("", "PANIC")] = "panic"
                continue
            if is_marker(cp):
                self.token_sites.append((ns, bb, cp))
                if ret is not None:
                    self.edges[here].append((cp[len(FX) + 2:], (ns, ret)))
                continue
            tgt, via = self.target_of(body, t)
            if tgt and depth < 4:
                sub = "%s/%d>%s" % (ns, bb, tgt)
                self.inlined.append((body.path, bb, tgt))
                if via:
                    self.via_instrumented.append((body.path, bb, tgt))
                e = self.add(self.F.body(tgt), sub, depth + 1)
                self.edges[here].append((None, e))
                if ret is not None:
                    self.edges[(sub, "RET")].append((None, (ns, ret)))
                continue
            if ret is not None:
                self.edges[here].append((None, (ns, ret)))
        return entry

    # ---- determinisation
    def closure(self, states):
        out = set(states)
        work = list(states)
        while work:
            s = work.pop()
            for lab, d in self.edges.get(s, ()):
                if lab is None and d not in out:
                    out.add(d)
                    work.append(d)
        return frozenset(out)

    def step(self, S):
        by = defaultdict(set)
        for s in S:
            for lab, d in self.edges.get(s, ()):
                if lab is not None:
                    by[lab].add(d)
        return {lab: self.closure(ds) for lab, ds in by.items()}

    def accepts(self, S):
        return frozenset(self.accept[s] for s in S if s in self.accept)


def language_diff(A, B, limit=20000):
    """None if the two automata accept the same (sequence, ending) language, else a shortest distinguishing word."""
    a0, b0 = A.closure([A.start]), B.closure([B.start])
    seen = {(a0, b0)}
    q = deque([(a0, b0, ())])
    n = 0
    while q:
        a, b, w = q.popleft()
        n += 1
        if n > limit:
            return ("state limit", w)
        if A.accepts(a) != B.accepts(b):
            return ("after %s: instrumented may end with %s, twin with %s" % (list(w), sorted(A.accepts(a)) or "nothing", sorted(B.accepts(b)) or "nothing"), w)
        sa, sb = A.step(a), B.step(b)
        for lab in set(sa) | set(sb):
            x, y = sa.get(lab, frozenset()), sb.get(lab, frozenset())
            if not x or not y:
                who = "only the twin" if not x else "only the instrumented function"
                return ("after %s: %s can continue with %s" % (list(w), who, lab), w + (lab,))
            if (x, y) not in seen:
                seen.add((x, y))
                q.append((x, y, w + (lab,)))
    return None


def carrier_of(F, name, exp):
    """The body that holds the expansion's prelude: the fn itself (sync) or its outer coroutine (async)."""
    path = FX + "::" + name
    if exp.get("inner"):
        # legacy async-trait shape: the attribute instruments the inner `async fn` called inside Box::pin(..)
        path += "::" + exp["inner"]
    b = F.body(path)
    if b is None:
        return None, None
    if exp.get("async"):
        return b, F.body(path + "::{closure#0}")
    return b, b


def run(ck):
    cfg = "fx_instrument" if ck.tier == "quick" else "fx_instrument:%d:160" % ck.seed
    F = Facts(cfg)
    ck.configs.append(cfg)
    L = Facts("default")
    ck.configs.append("default")
    expect = load_expect(F)
    ck.explanation = (
        "Translation validation of the #[instrument] proc-macro on a fixture corpus (%d instrumented functions, each with "
        "an uninstrumented twin of identical body built from distinct marker calls), over rustc's MIR of the real "
        "expansion: (R1) the automaton of marker-call sequences of the instrumented function, with the expansion's "
        "closures and inner futures inlined, accepts exactly the language of the twin's automaton, including which "
        "sequences end in return and which in panic, and ret/err wrappers hand back the wrapped value; (R2) exactly one "
        "SPAN callsite and construction site with the configured name/level/target/fields/parent/follows_from (CTFE-decoded "
        "metadata); (R3) Span::enter dominates every marker when the level is enabled, its guard is dropped after the last "
        "marker on normal and unwinding exits, ret/err events lie between enter and that drop on the right arm with the "
        "right field and level, async bodies are polled only through Instrumented (whose poll enters the span around the "
        "inner poll) unless the span is disabled; (R4) the prelude never moves or mutably borrows a parameter. Returned "
        "values, panic payloads and drop counts for arbitrary bodies and inputs are not decided beyond this corpus." % len(expect))
    ck.assumptions += ["rustc compiles identical bodies to MIR with identical marker-call structure",
                       "the fixture corpus (fx_instrument) is the quantifier's sample of programs; other shapes are not covered"]
    ck.rule("C17.R1", "instrumented function and twin have the same marker-sequence language and endings", floor=FLOOR_FNS)
    ck.rule("C17.R2", "exactly one span callsite/construction with the configured metadata", floor=FLOOR_FNS)
    ck.rule("C17.R3", "body (each poll) runs inside the span; guard outlives the body; ret/err events inside", floor=FLOOR_FNS)
    ck.rule("C17.R4", "the expansion's prelude only reads parameters", floor=FLOOR_FNS)
    ck.rule("C17.R6", "what the body observes about its caller is unchanged: in a #[track_caller] function the body's Location::caller() still runs in a frame "
            "that inherits the attribute (the function itself, not a closure the expansion wrapped it in)", floor=2)
    ck.rule("C17.R5", "each span field carries its value the configured way: `?` through field::debug, `%` through field::display, "
            "otherwise the value itself, a bare name empty", floor=5)
    if len(expect) < FLOOR_FNS:
        ck.bad("C17.R1", "fixture corpus size", "fixtures/fx_instrument/expect.json", "only %d instrumented fixtures (floor %d)" % (len(expect), FLOOR_FNS))
    for name, exp in sorted(expect.items()):
        fn, car = carrier_of(F, name, exp)
        twin_fn, twin = carrier_of(F, name + "_twin", exp)
        if not ck.anchor("C17.R1", "fixture " + name, fn) or not ck.anchor("C17.R1", "fixture twin " + name, twin) or car is None:
            continue
        A = Auto(F, car)
        B = Auto(F, twin)
        r1(ck, F, name, exp, fn, car, twin, A, B)
        r2(ck, F, name, exp, car)
        r3(ck, F, name, exp, car, A)
        if exp.get("ret") or exp.get("err"):
            body_isolated(ck, F, name, exp, car, A)
        r4(ck, F, name, exp, car, A)
        if exp.get("kinds"):
            r5(ck, F, name, exp, car)
        if exp.get("track_caller"):
            r6(ck, F, name, exp, fn)
    r3_lib(ck, L)
    # a cancelled (dropped) async body's locals are destroyed inside the span too: Instrumented's Drop (C03.R7's drop clause)
    from rules import C03 as _C03
    _C03.r7_drop(ck, L, rid="C17.R3")


# ------------------------------------------------------------------------------------------------ R1
def r1(ck, F, name, exp, fn, car, twin, A, B):
    key = "%s: marker language equals twin's" % name
    if not B.token_sites:
        ck.bad("C17.R1", key, where(twin.raw["sp"]), "twin has no marker calls: fixture broken")
        return
    d = language_diff(A, B)
    if d is None:
        ck.ok("C17.R1", key, fn=car.path, detail="%d marker sites, %d inlined closure/future bodies" % (len(A.token_sites), len(A.inlined)))
    else:
        ck.bad("C17.R1", key, where(car.raw["sp"]), d[0], fn=car.path)
    if exp.get("async"):
        # the outer fn only builds the future
        ok = not [1 for bb, t in fn.calls() if not (exp.get("boxed") and t["callee"].get("path", "").startswith("alloc::boxed::Box"))]
        if ok:
            ck.ok("C17.R1", "%s: async fn does nothing before the first poll" % name, nontrivial=False)
        else:
            ck.bad("C17.R1", "%s: async fn does nothing before the first poll" % name, where(fn.raw["sp"]), "calls in the constructor fn", fn=fn.path)
    if (exp.get("ret") or exp.get("err")) and not exp.get("async"):
        wrapper_value(ck, F, name, exp, car, A)


def emits_event(F, path):
    b = F.body(path)
    return b is not None and any(t["callee"].get("path", "").startswith("tracing_core::event::Event::<'a>::") for bb, t in b.calls())


def body_closures(F, car, A):
    """Inlined closure/future calls in the wrapper that are not the event macros' own dispatch closures."""
    return [x for x in A.inlined if x[0] == car.path and not emits_event(F, x[2])]


def body_isolated(ck, F, name, exp, car, A):
    """ret/err: the user's body lives in a closure / future of its own, so that an early `return` or a short-circuiting
    `?` inside it ends only that closure and cannot skip the wrapper's ret/err events."""
    key = "%s: the body is isolated from the ret/err epilogue (an early return cannot skip the events)" % name
    marker_bodies = set()
    for ns, bb, lab in A.token_sites:
        marker_bodies.add(ns.rsplit(">", 1)[1] if ">" in ns else car.path)
    event_bodies = set()
    for x in [car] + F.closures_of(car):
        for bb, t in x.calls():
            r = t["callee"].get("resolved") or ""
            if t["callee"].get("method") in ("call", "call_once", "call_mut") and emits_event(F, r):
                event_bodies.add(x.path)
            if t["callee"].get("path", "").startswith("tracing_core::event::Event::<'a>::") and not x.path.endswith("}") is False:
                pass
    both = sorted(marker_bodies & event_bodies)
    if not event_bodies:
        ck.bad("C17.R3", key, where(car.raw["sp"]), "no ret/err event site found in the expansion", fn=car.path)
    elif both:
        ck.bad("C17.R3", key, where(car.raw["sp"]), "the user's statements and the ret/err event sit in the same body (%s): `return`/`?` in the body leaves "
               "through the wrapper and the event is never emitted" % ", ".join(b[len(car.path.split("::{closure")[0]):] or "fn" for b in both), fn=car.path)
    else:
        ck.ok("C17.R3", key, fn=car.path, detail="markers in %s; events in %s" % (sorted(x[len(car.path):] or "." for x in marker_bodies), sorted(x[len(car.path):] or "." for x in event_bodies)))


def wrapper_value(ck, F, name, exp, car, A):
    """ret/err: every returning path returns the closure's value (or Ok/Err rebuilt from the same arm's payload)."""
    key = "%s: wrapper returns the body's value unchanged" % name
    clo = body_closures(F, car, A)
    if len(clo) != 1:
        ck.bad("C17.R1", key, where(car.raw["sp"]), "expected one body closure call in the wrapper, found %d" % len(clo), fn=car.path)
        return
    cbb = clo[0][1]
    ev = PathEval(car, max_paths=20000)
    bad = []
    n = 0
    for p in ev.run():
        if p.end != "return" or cbb not in p.blocks:
            continue
        n += 1
        txt = show(p.ret)
        call = [c for c in p.calls if c[0] == cbb][0][3]
        ctxt = show(call)
        if p.ret == call:
            continue
        # rebuilt Result: Ok{ downcast(call).0 } / Err{...} on the path that tested the same discriminant
        if p.ret[0] == "agg" and p.ret[2] in ("Ok", "Err") and ctxt in txt:
            want = 0 if p.ret[2] == "Ok" else 1
            dis = [c for c in p.conds if c[0][0] == "discr" and c[0][1] == call]
            if dis and all(c[1] == want for c in dis):
                continue
            bad.append("returns %s on a path where the body's result tested as %s" % (p.ret[2], [c[1] for c in dis]))
            continue
        bad.append("returns %s, not the body closure's value" % txt[:120])
    if ev.truncated:
        bad.append("path enumeration truncated")
    if n and not bad:
        ck.ok("C17.R1", key, fn=car.path, detail="%d returning paths" % n)
    else:
        ck.bad("C17.R1", key, where(car.raw["sp"]), "; ".join(sorted(set(bad))[:3]) or "no returning path through the body closure", fn=car.path)


# ------------------------------------------------------------------------------------------------ R2
def const_index(F):
    idx = getattr(F, "_c17_idx", None)
    if idx is None:
        idx = {}
        for cname, d in F.raw.items():
            for c in d["consts"]:
                if c.get("id"):
                    idx[c["id"]] = c
        F._c17_idx = idx
    return idx


def callsites_in(F, bodies):
    """static ids of MacroCallsite statics referenced by the bodies -> decoded metadata"""
    idx = const_index(F)
    out = {}
    for b in bodies:
        for i, j, s in b.stmts():
            c = s.get("rv", {}).get("use", {}).get("const") if s["k"] == "assign" else None
            if c and c.get("static_id") and "MacroCallsite" in c.get("ty", ""):
                sid = c["static_id"]
                meta = [v for k, v in idx.items() if k.startswith(sid + "::") and k.endswith("__META")]
                out[sid] = meta[0]["val"]["f"] if len(meta) == 1 else None
    return out


def meta_summary(m):
    kind = m["kind"]["f"]["0"]["int"]
    lvl = m["level"]["f"]["0"].get("variant", "").upper()
    return {"name": m["name"].get("str"), "target": m["target"].get("str"), "level": lvl,
            "fields": [x.get("str") for x in m["fields"]["f"]["names"].get("slice", [])], "span": bool(kind & 2), "event": bool(kind & 1)}


def r2(ck, F, name, exp, car):
    bodies = [car] + F.closures_of(car)
    cs = callsites_in(F, bodies)
    spans = {}
    events = {}
    for sid, m in cs.items():
        if m is None:
            ck.bad("C17.R2", "%s: callsite metadata decodable" % name, where(car.raw["sp"]), "no unique __META for %s" % sid)
            continue
        ms = meta_summary(m)
        (spans if ms["span"] else events)[sid] = ms
    key = "%s: one span callsite with configured metadata" % name
    problems = []
    if len(spans) != 1:
        problems.append("%d SPAN callsites in the expansion (expected exactly 1)" % len(spans))
    else:
        ms = list(spans.values())[0]
        want = {"name": exp["name"].rsplit("::", 1)[-1], "level": exp["level"], "target": exp.get("target", FX)}
        for k, v in want.items():
            if ms[k] != v:
                problems.append("%s is %r, configured %r" % (k, ms[k], v))
        if sorted(ms["fields"]) != sorted(exp["fields"]):
            extra = sorted(set(ms["fields"]) - set(exp["fields"]))
            missing = sorted(set(exp["fields"]) - set(ms["fields"]))
            problems.append("fields %s; unexpected %s missing %s (skipped parameters must be absent, others present once)" % (ms["fields"], extra, missing))
    # a parameter of a value type (integers, bool, str/String, NonZero*, Wrapping) is recorded as that value, whatever way
    # its type is spelled; only other types go through `field::debug`. (ret/err values are not parameters.)
    VALUE_TY = __import__("re").compile(r"^&*(mut )?(bool|str|[ui](8|16|32|64|128|size)|f32|f64|alloc::string::String|core::num::(nonzero::)?NonZero.*|core::num::(wrapping::)?Wrapping<.*>)$")
    dbg_values = []
    for b in bodies:
        for bb, t in b.calls():
            if t["callee"].get("path") != "tracing_core::field::debug" or not t["argv"]:
                continue
            ty = (t["callee"].get("targs") or [""])[0]
            inner = ty
            while inner.startswith("&"):
                inner = inner[1:].lstrip()
                if inner.startswith("mut "):
                    inner = inner[4:]
            o = b.origin(t["argv"][0])
            from_param = o[0] == "arg"
            if VALUE_TY.match(inner) and from_param:
                dbg_values.append(inner)
    # (identifiers bound by a destructuring pattern are documented to be recorded with Debug whatever their type: the
    # corpus says how many such bindings a fixture has)
    if len(dbg_values) != exp.get("debug_value_bindings", 0):
        problems.append("%d value-typed parameter(s) recorded through field::debug as a Debug string (%s); the fixture has %d destructured binding(s) or `?` fields, "
                        "the only value-typed ones that may be" % (len(dbg_values), sorted(set(dbg_values)), exp.get("debug_value_bindings", 0)))
    # construction sites
    cons = [(b, bb, SPAN_NEW[t["callee"]["path"]]) for b in bodies for bb, t in b.calls() if t["callee"].get("path") in SPAN_NEW]
    if len(cons) != 1 or cons[0][0] is not car:
        problems.append("%d span construction sites (expected 1, in the prelude)" % len(cons))
    else:
        b, bb, how = cons[0]
        if bb in b.reachable(bb_succ_start(b, bb)):
            problems.append("span construction is inside a loop")
        if exp.get("parent"):
            if how != "child_of":
                problems.append("explicit parent configured but the span is built with Span::%s" % how)
            else:
                o = b.origin(b.term(bb)["argv"][0])
                if not (o[0] == "arg" or (o[0] == "call" and "Into" in str(o[2]["callee"].get("path")))):
                    problems.append("child_of's parent does not come from the configured expression")
        elif how != "new":
            problems.append("no parent configured but the span is built with Span::%s (contextual parent lost)" % how)
    ff = [(b, bb) for b in bodies for bb, t in b.calls() if t["callee"].get("path") == "tracing::span::Span::follows_from"]
    if bool(ff) != bool(exp.get("follows")):
        problems.append("follows_from calls: %d, configured: %s" % (len(ff), exp.get("follows")))
    if problems:
        ck.bad("C17.R2", key, where(car.raw["sp"]), "; ".join(problems), fn=car.path)
    else:
        ck.ok("C17.R2", key, fn=car.path, detail=list(spans.values())[0])
    # ret / err event callsites
    want_ev = []
    if exp.get("ret"):
        want_ev.append(("return", exp.get("ret_level", exp["level"])))
    if exp.get("err"):
        want_ev.append(("error", exp.get("err_level", "ERROR")))
    got = sorted((tuple(e["fields"]), e["level"], e["target"]) for e in events.values())
    wantl = sorted(((f,), lv, exp.get("target", FX)) for f, lv in want_ev)
    key = "%s: ret/err event callsites" % name
    if got == wantl:
        ck.ok("C17.R2", key, nontrivial=bool(wantl), detail=got)
    else:
        ck.bad("C17.R2", key, where(car.raw["sp"]), "event callsites %s, configured %s" % (got, wantl), fn=car.path)


def span_value_kinds(F, car):
    """field name -> how the expansion hands its value to the span ('debug' | 'display' | 'empty' | 'value' | 'absent'),
    decoded from the array given to FieldSet::value_set at the one span construction site; names in callsite order."""
    bodies = [car] + F.closures_of(car)
    cs = callsites_in(F, bodies)
    names = [meta_summary(m)["fields"] for m in cs.values() if m is not None and meta_summary(m)["span"]]
    cons = [(b, bb, t) for b in bodies for bb, t in b.calls() if t["callee"].get("path") in SPAN_NEW]
    if len(names) != 1 or len(cons) != 1:
        return None, "%d span callsites, %d construction sites" % (len(names), len(cons))
    b, bb, t = cons[0]
    vs = None
    for a in t["argv"]:
        o = b.origin(a)
        if o[0] == "call" and o[2]["callee"].get("path") == "tracing_core::field::FieldSet::value_set":
            vs = o[2]
    if vs is None:
        return None, "the span is not built from FieldSet::value_set"
    arr = b.origin(vs["argv"][1])
    if arr[0] != "agg" or "array" not in arr[1]["agg"]:
        return None, "value_set's argument is not an array literal"
    kinds = []
    for op in arr[1]["ops"]:
        tup = b.origin(op)
        if tup[0] != "agg" or len(tup[1]["ops"]) != 2:
            return None, "array element is not a (field, value) pair"
        v = b.origin(tup[1]["ops"][1])
        if v[0] == "agg" and v[1]["agg"].get("variant") == "None":
            kinds.append("absent")
            continue
        if v[0] != "agg" or v[1]["agg"].get("variant") != "Some":
            return None, "a pair's value is not an Option literal"
        x = b.origin(v[1]["ops"][0])
        if x[0] == "call" and x[2]["callee"].get("path") in ("tracing_core::field::debug", "tracing_core::field::display"):
            kinds.append(x[2]["callee"]["path"].rsplit("::", 1)[1])
        elif x[0] == "const" and "field::Empty" in str(x[1].get("ty")):
            kinds.append("empty")
        else:
            kinds.append("value")
    if len(kinds) != len(names[0]):
        return None, "%d values for %d fields" % (len(kinds), len(names[0]))
    return dict(zip(names[0], kinds)), None


def r6(ck, F, name, exp, fn):
    b = F.body(fn) if isinstance(fn, str) else fn
    if b is None:
        return
    key = "%s: Location::caller() of the body runs in the #[track_caller] function itself" % name
    LOC = "core::panic::location::Location::<'a>::caller"
    own = [bb for bb, t in b.calls() if t["callee"].get("path") == LOC]
    inner = [(c.path, bb) for c in F.closures_of(b) for bb, t in c.calls() if t["callee"].get("path") == LOC]
    if not b.raw.get("track_caller"):
        ck.bad("C17.R6", key, where(b.raw["sp"]), "the instrumented function lost #[track_caller]", fn=b.path)
    elif inner:
        ck.bad("C17.R6", key, where(b.raw["sp"]), "the body was moved into %s, which does not inherit #[track_caller]: Location::caller() there is a line inside the "
               "instrumented function, not the caller's -- the returned value / panic payload differs from the uninstrumented function's" % inner[0][0].rsplit("::", 1)[-1], fn=b.path)
    elif own:
        ck.ok("C17.R6", key, fn=b.path)
    else:
        ck.bad("C17.R6", key, where(b.raw["sp"]), "no Location::caller() call found in the expansion of a fixture that has one", fn=b.path)


def r5(ck, F, name, exp, car):
    key = "%s: field values rendered as configured" % name
    got, why = span_value_kinds(F, car)
    if got is None:
        ck.bad("C17.R5", key, where(car.raw["sp"]), why, fn=car.path)
        return
    wrong = ["%s is %s, configured %s" % (f, got.get(f), k) for f, k in sorted(exp["kinds"].items()) if got.get(f) != k]
    if wrong:
        ck.bad("C17.R5", key, where(car.raw["sp"]), "; ".join(wrong), fn=car.path)
    else:
        ck.ok("C17.R5", key, fn=car.path, detail=got)


def bb_succ_start(b, bb):
    s = b.succ(bb)
    return s[0] if s else bb


# ------------------------------------------------------------------------------------------------ R3
def r3(ck, F, name, exp, car, A):
    if exp.get("async"):
        return r3_async(ck, F, name, exp, car, A)
    key = "%s: body runs between Span::enter and the guard's drop" % name
    enters = [(bb, t) for bb, t in car.calls() if t["callee"].get("path") == ENTER]
    if len(enters) != 1:
        ck.bad("C17.R3", key, where(car.raw["sp"]), "%d Span::enter calls in the prelude (expected 1)" % len(enters), fn=car.path)
        return
    ebb, et = enters[0]
    guard = {et["dest"]["l"]}
    for _ in range(4):
        for i, j, s in car.stmts():
            if s["k"] == "assign" and "p" not in s["lhs"]:
                src = s["rv"].get("use", {}).get("move")
                if src and "p" not in src and src["l"] in guard:
                    guard.add(s["lhs"]["l"])
    # the entered span is the constructed one
    o = car.origin(et["argv"][0])
    cons_bbs = {bb for bb, t in car.calls() if t["callee"].get("path") in SPAN_NEW or t["callee"].get("path") in SPAN_OFF}
    problems = []
    if not (o[0] == "call" and o[1] in cons_bbs or o[0] == "phi" or o[0] == "multi"):
        src = o[1] if o[0] == "call" else None
        if src not in cons_bbs:
            # origin() may stop at the span local assigned on two branches (span!/disabled_span): accept if every
            # definition of that local is a constructor call
            problems += enter_receiver_problem(car, et, cons_bbs)
    top_sites = [bb for ns, bb, lab in A.token_sites if ns == ""] + [x[1] for x in body_closures(F, car, A)]
    if not top_sites:
        problems.append("no marker site in the wrapper")
    # (b) once a span was constructed, no marker is reachable without passing enter
    for c in cons_bbs:
        reach = car.reachable(c, avoid=(ebb,))
        hit = [t for t in top_sites if t in reach and t != c]
        if hit:
            problems.append("marker at bb%d reachable from the span construction without entering it" % hit[0])
            break
    # (c) the only way around enter is the level-disabled branch
    problems += bypass_only_when_disabled(car, ebb, top_sites, exp)
    # (d) on every path through enter: enter < markers/events < drop(guard), on normal and unwinding exits
    ev = PathEval(car, unwind=True, max_paths=60000)
    n = 0
    for p in ev.run():
        if ebb not in p.blocks or p.end not in ("return", "resume"):
            continue
        seq = []
        for c in p.calls:
            bb, cal = c[0], c[1]
            if bb == ebb:
                seq.append(("enter", bb))
            elif cal.get("path") == "<drop>" and car_drop_is(car, bb, guard):
                seq.append(("exit", bb))
            elif bb in top_sites:
                seq.append(("body", bb))
            elif cal.get("path") in ("tracing_core::event::Event::<'a>::dispatch", "tracing_core::event::Event::<'a>::child_of") or is_event_closure_call(F, car, c):
                seq.append(("event", bb))
        kinds = [k for k, _ in seq]
        if kinds.count("enter") != 1:
            continue
        n += 1
        ei = kinds.index("enter")
        entered_ok = p.blocks.index(ebb) + 1 < len(p.blocks) and p.blocks[p.blocks.index(ebb) + 1] == et.get("ret")
        if not entered_ok:
            continue    # enter itself unwound
        if "exit" not in kinds[ei:]:
            problems.append("a path ending in %s never drops the span guard" % p.end)
            continue
        xi = len(kinds) - 1 - kinds[::-1].index("exit")
        for i, k in enumerate(kinds):
            if k in ("body", "event") and not (ei < i < xi):
                problems.append("%s at bb%d lies outside enter..guard-drop on a path ending in %s" % (k, seq[i][1], p.end))
                break
    for sb in top_sites:
        t = car.term(sb)
        if t["k"] == "call" and not isinstance(t.get("unwind"), int) and sb in car.reachable(et.get("ret")):
            problems.append("a panic at bb%d unwinds out of the function with no cleanup path that drops the span guard" % sb)
    if ev.truncated:
        problems.append("path enumeration truncated")
    if not n:
        problems.append("no complete path through Span::enter")
    if problems:
        ck.bad("C17.R3", key, where(car.raw["sp"]), "; ".join(sorted(set(problems))[:4]), fn=car.path)
    else:
        ck.ok("C17.R3", key, fn=car.path, detail="%d paths (incl. unwinding) through enter" % n)
    if exp.get("ret") or exp.get("err"):
        event_arms(ck, F, name, exp, car, A)


def enter_receiver_problem(car, et, cons_bbs):
    """The receiver of Span::enter must be (a reference to) the local every definition of which is a constructor call."""
    op = et["argv"][0]
    pl = op.get("move") or op.get("copy")
    seen = 0
    while pl is not None and seen < 6:
        seen += 1
        defs = car.defs().get(pl["l"], [])
        if len(defs) == 1 and defs[0][0] == "stmt":
            rv = defs[0][3]
            if "ref" in rv:
                pl = rv["ref"]
                continue
            if "use" in rv and (rv["use"].get("move") or rv["use"].get("copy")):
                pl = rv["use"].get("move") or rv["use"].get("copy")
                continue
        break
    if pl is None:
        return ["Span::enter receiver is not a local"]
    defs = car.defs().get(pl["l"], [])
    calls = [d for d in defs if d[0] == "call"]
    if defs and len(calls) == len(defs) and all(d[1] in cons_bbs for d in calls):
        return []
    return ["Span::enter is not called on the span constructed by the prelude"]


def car_drop_is(car, bb, local):
    t = car.term(bb)
    return t["k"] == "drop" and t["place"]["l"] in local and "p" not in t["place"]


def is_event_closure_call(F, car, c):
    cal = c[1]
    if cal.get("method") not in ("call", "call_once", "call_mut"):
        return False
    r = cal.get("resolved") or ""
    b = F.body(r)
    if b is None or not r.startswith(car.path + "::{closure"):
        return False
    return any(t["callee"].get("path", "").startswith("tracing_core::event::Event::<'a>::") for bb, t in b.calls())


def bypass_only_when_disabled(car, ebb, top_sites, exp):
    """Paths from entry to the first marker that avoid Span::enter must have taken a `level <= max` test's false edge,
    and that test must be about the configured level."""
    first = None
    dom = car.dominators()
    # the first marker site: one that dominates or precedes the others; take the site with the fewest dominators
    for t in sorted(top_sites, key=lambda x: len(dom.get(x, ()))):
        first = t
        break
    if first is None:
        return []
    problems = []
    # enumerate acyclic paths 0 -> first avoiding ebb
    stack = [(0, [0], [])]
    count = 0
    while stack:
        bb, path, decisions = stack.pop()
        count += 1
        if count > 200000:
            problems.append("prelude path enumeration exceeded its bound")
            break
        if bb == first:
            ok = False
            for sbb, taken in decisions:
                t = car.term(sbb)
                o = car.origin(t["on"])
                if o[0] == "call" and o[2]["callee"].get("full", o[2]["callee"].get("path")) and LE in (o[2]["callee"].get("full") or ""):
                    val = [a[0] for a in t["arms"] if a[1] == taken]
                    if val and val[0] == 0 and taken != t["otherwise"] or (not val and False):
                        # ... and the level that failed is the span's own (a ret/err event's more verbose level may be
                        # disabled while the span itself is wanted)
                        lvl = level_const(car, car.origin(o[2]["argv"][0])) if o[2].get("argv") else None
                        if lvl is not None and lvl != LEVELS[exp["level"]]:
                            problems.append("the span is skipped because level %s failed the max-level test, but the span's own level is %s: with a collector "
                                            "whose hint lies between the two the body runs outside any span" % (lvl, exp["level"]))
                        else:
                            ok = True
            if not ok:
                if not problems:
                    problems.append("the body can be reached without entering the span on a path that never saw `level <= max level` fail")
                break
            continue
        for s in car.succ(bb):
            if s == ebb or s in path:
                continue
            t = car.term(bb)
            d = decisions + [(bb, s)] if t["k"] == "switch" else decisions
            stack.append((s, path + [s], d))
    # the level tested is the configured one
    lv = set()
    for bb, t in car.calls():
        if LE in (t["callee"].get("full") or "") and not car.blocks[bb].get("cleanup"):
            o = car.origin(t["argv"][0])
            v = level_const(car, o)
            if v is not None:
                lv.add(v)
    if lv and lv != {LEVELS[exp["level"]]}:
        # ret/err events test their own levels; the span's must be among them
        allowed = {LEVELS[exp["level"]], LEVELS[exp.get("ret_level", exp["level"])], LEVELS[exp.get("err_level", "ERROR")]}
        if not lv <= allowed or LEVELS[exp["level"]] not in lv:
            problems.append("level tests in the expansion use %s, configured %s" % (sorted(lv), exp["level"]))
    return problems


def level_const(body, o):
    if o[0] != "const":
        return None
    c = o[1]
    if "int" in c and c.get("ty", "").endswith("Level"):
        return c["int"]
    pr = c.get("promoted")
    if pr:
        idx = int(pr[len("promoted["):-1])
        for p in body.raw.get("promoted", []):
            if p["idx"] == idx and len(p["consts"]) == 1 and p["consts"][0].get("ty") == "tracing_core::metadata::Level":
                return p["consts"][0].get("int")
    v = c.get("val")
    if isinstance(v, dict) and v.get("ref", {}).get("adt") == "tracing_core::metadata::Level":
        return v["ref"].get("bits")
    return None


def dom_chain(dom, x):
    out = []
    while x is not None and x not in out:
        out.append(x)
        x = dom.get(x)
    return out


def event_arms(ck, F, name, exp, car, A):
    """ret event only on the Ok/plain arm, err event only on the Err arm, each recording the body's payload."""
    key = "%s: ret/err events on the right arm" % name
    clo = body_closures(F, car, A)
    if len(clo) != 1:
        ck.bad("C17.R3", key, where(car.raw["sp"]), "expected one body closure call", fn=car.path)
        return
    cbb = clo[0][1]
    idx = const_index(F)
    problems = []
    seen = set()
    ev = PathEval(car, max_paths=60000)
    for p in ev.run():
        if p.end != "return" or cbb not in p.blocks:
            continue
        call = [c for c in p.calls if c[0] == cbb][0][3]
        dis = [c[1] for c in p.conds if c[0][0] == "discr" and c[0][1] == call]
        arm = None if not dis else ("Ok" if dis[0] == 0 else "Err")
        for c in p.calls:
            if not is_event_closure_call(F, car, c):
                continue
            # which callsite does this event closure use: the MacroCallsite static referenced in the same arm's blocks
            fields = event_fields_of_closure(F, car, c, idx)
            seen.add((arm, fields))
            if fields == ("error",) and arm != "Err":
                problems.append("error event emitted on the %s arm" % arm)
            if fields == ("return",) and arm == "Err":
                problems.append("return event emitted on the Err arm")
            if fields == ("return",) and exp.get("err") and arm != "Ok":
                problems.append("return event emitted on the %s arm" % arm)
    if exp.get("err") and not any(a == "Err" and f == ("error",) for a, f in seen):
        problems.append("no path emits the error event on the Err arm")
    if exp.get("ret") and not any(f == ("return",) for a, f in seen):
        problems.append("no path emits the return event")
    if ev.truncated:
        problems.append("path enumeration truncated")
    if problems:
        ck.bad("C17.R3", key, where(car.raw["sp"]), "; ".join(sorted(set(problems))[:4]), fn=car.path)
    else:
        ck.ok("C17.R3", key, fn=car.path, detail=sorted(map(str, seen)))


def event_fields_of_closure(F, car, c, idx):
    b = F.body(c[1].get("resolved"))
    for i, j, s in b.stmts():
        k = s.get("rv", {}).get("use", {}).get("const") if s["k"] == "assign" else None
        if k and k.get("static_id"):
            sid = k["static_id"]
            sid = sid[:-len("::__META")] if sid.endswith("::__META") else sid
            meta = [v for kk, v in idx.items() if kk.startswith(sid + "::") and kk.endswith("__META")] or [v for kk, v in idx.items() if kk == k["static_id"] and kk.endswith("__META")]
            if len(meta) == 1:
                return tuple(meta_summary(meta[0]["val"]["f"])["fields"])
    return None


def r3_async(ck, F, name, exp, car, A):
    key = "%s: the body future is polled only through Instrumented (or bare when the span is disabled)" % name
    problems = []
    polls = [x for x in A.inlined if x[0] == car.path]
    via = [x for x in A.via_instrumented if x[0] == car.path]
    top_markers = [s for s in A.token_sites if s[0] == ""]
    if top_markers:
        problems.append("marker calls directly in the outer future (outside the instrumented future)")
    if len(via) != 1:
        problems.append("%d polls through Instrumented (expected 1)" % len(via))
    bare = [x for x in polls if x not in via]
    inst = [(bb, t) for bb, t in car.calls() if t["callee"].get("path") == INSTRUMENT]
    if len(inst) != 1:
        problems.append("%d Instrument::instrument calls (expected 1)" % len(inst))
    else:
        ibb, it = inst[0]
        o = car.origin(it["argv"][1])
        span_ok = o[0] == "call" and (o[2]["callee"].get("path") in SPAN_NEW or o[2]["callee"].get("path") in SPAN_OFF)
        if not span_ok:
            # the span lives in the coroutine state: accept a move out of the state field written by a constructor
            span_ok = span_field_written_by_ctor(car, it["argv"][1])
        if not span_ok:
            problems.append("Instrument::instrument is not given the span constructed by the prelude")
        fo = car.origin(it["argv"][0])
        if not (fo[0] == "agg" and fo[1]["agg"].get("coroutine") in {x[2] for x in polls}) and not (fo[0] == "call" and fo[2]["callee"].get("method") == "into_future"):
            problems.append("Instrument::instrument is not given the body future")
    # a bare poll is legal only where Span::is_disabled() was true
    # (`is_none`: no collector *and* no metadata; `is_disabled`: no collector. With the `log` feature a span nobody collects
    # keeps its metadata to emit its `-> name` / `<- name` records from enter/exit: only `is_none` may skip Instrumented)
    dis = [(bb, t) for bb, t in car.calls() if t["callee"].get("path") in ("tracing::span::Span::is_disabled", "tracing::span::Span::is_none")]
    if bare and len(dis) == 1:
        k2 = "async bodies bypass Instrumented only for a span that is nothing at all (Span::is_none)"
        if dis[0][1]["callee"]["path"].endswith("is_disabled"):
            ck.bad("C17.R3", k2, where(car.raw["sp"]), "the expansion polls the body bare whenever Span::is_disabled(): with the `log` feature and no collector the span exists to "
                   "emit its lifecycle records, and an async instrumented function is then never polled inside it (no `-> name` / `<- name` records, unlike the sync expansion)", fn=car.path)
        else:
            ck.ok("C17.R3", k2, fn=car.path)
    if bare:
        if len(dis) != 1:
            problems.append("bare poll of the body future without a Span::is_none / is_disabled test")
        else:
            dbb = dis[0][0]
            sw = None
            # the switch consuming is_disabled's result (possibly through `!`)
            cur = dis[0][1].get("ret")
            hops = 0
            while cur is not None and hops < 4:
                if car.term(cur)["k"] == "switch":
                    sw = cur
                    break
                s = car.succ(cur)
                cur = s[0] if len(s) == 1 else None
                hops += 1
            if sw is None:
                problems.append("Span::is_disabled result is not branched on")
            else:
                t = car.term(sw)
                neg = any(s["k"] == "assign" and "un" in s.get("rv", {}) for s in car.blocks[sw]["stmts"]) or \
                    any(s["k"] == "assign" and "un" in s.get("rv", {}) for s in car.blocks[dis[0][1].get("ret")]["stmts"])
                # edge taken when is_disabled() == false (enabled)
                zero = [a[1] for a in t["arms"] if a[0] == 0]
                enabled_edge = (t["otherwise"] if neg else (zero[0] if zero else None))
                disabled_edge = (zero[0] if zero else None) if neg else t["otherwise"]
                if enabled_edge is None or disabled_edge is None:
                    problems.append("cannot identify the enabled/disabled edges of the is_disabled test")
                else:
                    en = car.reachable(enabled_edge, avoid=(sw,))
                    # yields return to the dispatch switch at bb0; restrict to first-poll reachability from the edge
                    for x in bare:
                        first_poll_blocks = first_segment(car, enabled_edge)
                        if x[1] in first_poll_blocks:
                            problems.append("the body future is polled bare on the enabled branch")
                    for x in via:
                        if x[1] in first_segment(car, disabled_edge):
                            pass
    if problems:
        ck.bad("C17.R3", key, where(car.raw["sp"]), "; ".join(sorted(set(problems))[:4]), fn=car.path)
    else:
        ck.ok("C17.R3", key, fn=car.path, detail="instrumented polls %d, bare polls (disabled span) %d" % (len(via), len(bare)))
    if exp.get("ret") or exp.get("err"):
        # events live in the middle future, which is the instrumented one: the event closure calls must be in a body
        # that is itself polled (transitively) only through the Instrumented poll
        mids = {x[2] for x in polls}
        evb = [b for b in F.closures_of(car) if any(t["callee"].get("path", "").startswith("tracing_core::event::Event::<'a>::") for bb, t in b.calls())]
        outside = [b.path for b in evb if not any(b.path.startswith(m + "::") for m in mids)]
        k2 = "%s: ret/err events are emitted inside the instrumented future" % name
        if evb and not outside:
            ck.ok("C17.R3", k2, fn=car.path, detail=[b.path[len(car.path):] for b in evb])
        else:
            ck.bad("C17.R3", k2, where(car.raw["sp"]), "event closures %s are not nested in the instrumented future %s" % (outside or "none found", sorted(mids)), fn=car.path)


def first_segment(car, start):
    """Blocks reachable from `start` without passing a yield/return (i.e. within the same poll)."""
    out = set()
    work = [start]
    while work:
        bb = work.pop()
        if bb in out:
            continue
        out.add(bb)
        t = car.term(bb)
        if t["k"] in ("return", "yield"):
            continue
        work.extend(car.succ(bb))
    return out


def span_field_written_by_ctor(car, op):
    pl = op.get("move") or op.get("copy")
    if pl is None:
        return False
    # follow local copies back to a coroutine-state field
    hops = 0
    while "p" not in pl and hops < 5:
        defs = car.defs().get(pl["l"], [])
        if len(defs) != 1 or defs[0][0] != "stmt":
            return False
        rv = defs[0][3]
        nxt = rv.get("use", {}).get("move") or rv.get("use", {}).get("copy")
        if nxt is None:
            return False
        pl = nxt
        hops += 1
    fld = [x.get("f") for x in pl.get("p", []) if isinstance(x, dict) and "f" in x]
    if not fld:
        return False
    # every assignment to that state field is a move of a constructor call's result
    writes = 0
    for i, j, s in car.stmts():
        if s["k"] != "assign" or s["lhs"]["l"] != pl["l"]:
            continue
        f2 = [x.get("f") for x in s["lhs"].get("p", []) if isinstance(x, dict) and "f" in x]
        if f2 != fld:
            continue
        o = car.origin(s["rv"].get("use", {}))
        writes += 1
        if not (o[0] == "call" and (o[2]["callee"].get("path") in SPAN_NEW or o[2]["callee"].get("path") in SPAN_OFF)):
            return False
    return writes > 0


def r3_lib(ck, L, rid="C17.R3"):
    """tracing::instrument::Instrumented: poll enters the span around the inner poll; drop enters it around the inner drop."""
    key = "Instrumented::poll enters the span around the inner poll"
    b = L.impl_method("core::future::future::Future", "tracing::instrument::Instrumented<", "poll")
    if not ck.anchor(rid, "Future for Instrumented", b):
        return
    problems = []
    n = 0
    # the same thing delegated to Span::in_scope(|| inner.poll(cx)): in_scope holds the guard across its closure and exits on
    # unwinding (that is C03.R5's rule for Span::in_scope)
    for bb, t in b.calls():
        if t["callee"].get("path") == "tracing::span::Span::in_scope" and len(t["argv"]) == 2:
            o = b.origin(t["argv"][1])
            cd = o[1].get("agg", {}).get("closure") if o[0] == "agg" else (o[1].get("closure") if o[0] == "const" else None)
            cb = L.body(cd) if cd else None
            if cb is not None and any(ct["callee"].get("method") == "poll" and ct["callee"].get("trait") == "core::future::future::Future" for cbb, ct in cb.calls()) \
                    and b.postdominates(bb, 0):
                ck.ok(rid, key, fn=b.path, detail="through Span::in_scope (guard lifetime decided by C03.R5)")
                return
    ev = PathEval(b, unwind=True)
    for p in ev.run():
        if p.end not in ("return", "resume"):
            continue
        kinds = []
        for c in p.calls:
            cal = c[1]
            if cal.get("path") == ENTER or cal.get("path") == "tracing::span::Span::do_enter":
                kinds.append("enter")
            elif cal.get("method") == "poll" and cal.get("trait") == "core::future::future::Future":
                kinds.append("poll")
            elif (cal.get("path") == "<drop>" and "Entered" in str(cal.get("drop_ty"))) or cal.get("path") == "tracing::span::Span::do_exit" \
                    or (cal.get("path") == "core::mem::drop" and "Entered" in " ".join(cal.get("targs", []))):
                kinds.append("exit")
        if "poll" not in kinds:
            continue
        n += 1
        # a poll call that unwinds straight out of the function (`unwind continue`) has no cleanup path on which the
        # span could be exited
        for c in p.calls:
            if c[1].get("method") == "poll" and c[1].get("trait") == "core::future::future::Future":
                uw = b.term(c[0]).get("unwind")
                if not isinstance(uw, int) and "enter" in kinds:
                    problems.append("a panic in the polled future unwinds out of poll without exiting the span (no cleanup path holds the guard): the span stays entered on this thread")
        if kinds.count("enter") != 1 or kinds.index("enter") > kinds.index("poll"):
            problems.append("inner poll not preceded by exactly one Span::enter: %s" % kinds)
        elif "exit" not in kinds[kinds.index("poll"):]:
            problems.append("the span is not exited after the inner poll on a path ending in %s%s" % (p.end, " (a panic in the polled future leaves the span entered on this thread)" if p.end == "resume" else ""))
    if n and not problems:
        ck.ok(rid, key, fn=b.path, detail="%d paths" % n)
    else:
        ck.bad(rid, key, where(b.raw["sp"]), "; ".join(sorted(set(problems))) or "no path polls the inner future", fn=b.path)


# ------------------------------------------------------------------------------------------------ R4
def r4(ck, F, name, exp, car, A):
    """Before the first marker (or the move into the body closure/future), parameters are only read."""
    key = "%s: prelude only reads parameters" % name
    allowed = set(exp.get("moved_by_attr", []))
    if exp.get("async"):
        # parameters are captured into the coroutine state; the prelude is the part of the outer future before the
        # body future is built. Parameters appear as state fields (upvars) with names.
        params = None
    top_sites = [bb for ns, bb, lab in A.token_sites if ns == ""] + [x[1] for x in body_closures(F, car, A)]
    if not top_sites:
        ck.bad("C17.R4", key, where(car.raw["sp"]), "no marker site", fn=car.path)
        return
    # prelude blocks: those from which a Span constructor / enter / instrument call is still reachable
    pre_targets = {bb for bb, t in car.calls() if t["callee"].get("path") in SPAN_NEW or t["callee"].get("path") in SPAN_OFF
                   or t["callee"].get("path") in (ENTER, INSTRUMENT)}
    prelude = set()
    for bb in car.reachable(0):
        if car.blocks[bb].get("cleanup"):
            continue
        if bb in top_sites:
            continue
        if car.reachable(bb, avoid=tuple(top_sites)) & pre_targets:
            prelude.add(bb)
    problems = []
    nuses = 0

    def is_param(pl):
        if exp.get("async"):
            # upvar fields of the coroutine state (by-value captures)
            ps = pl.get("p", [])
            return pl["l"] == 1 and any(isinstance(x, dict) and x.get("n") and x.get("byref") is False for x in ps)
        return 1 <= pl["l"] <= car.argc

    def pname(pl):
        if exp.get("async"):
            return [x.get("n") for x in pl.get("p", []) if isinstance(x, dict) and x.get("n")][0]
        return car.local_name(pl["l"])

    def droppy(pl):
        return True

    for bb in sorted(prelude):
        blk = car.blocks[bb]
        items = [s for s in blk["stmts"] if s["k"] == "assign"]
        for s in items:
            rv = s["rv"]
            # moves
            for op in ops_of(rv):
                pl = op.get("move")
                if pl is not None and is_param(pl) and pname(pl) not in allowed:
                    if is_body_capture(rv) or is_state_shuffle(s, exp):
                        continue
                    nuses += 1
                    if not copy_type(car, pl):
                        problems.append("parameter `%s` is moved in the prelude (bb%d)" % (pname(pl), bb))
                elif op.get("copy") is not None and is_param(op["copy"]):
                    nuses += 1
            if "ref" in rv and is_param(rv["ref"]):
                nuses += 1
                if rv.get("mut") and pname(rv["ref"]) not in allowed and not two_phase_self(car, rv):
                    problems.append("parameter `%s` is mutably borrowed in the prelude (bb%d)" % (pname(rv["ref"]), bb))
        t = blk["term"]
        if t["k"] == "call":
            for op in t["argv"]:
                pl = op.get("move")
                if pl is not None and is_param(pl) and pname(pl) not in allowed and not copy_type(car, pl):
                    problems.append("parameter `%s` is passed by value to %s in the prelude" % (pname(pl), t["callee"].get("path")))
        if t["k"] == "drop" and is_param(t["place"]) and "p" not in t["place"]:
            problems.append("parameter `%s` is dropped in the prelude" % pname(t["place"]))
    if problems:
        ck.bad("C17.R4", key, where(car.raw["sp"]), "; ".join(sorted(set(problems))[:4]), fn=car.path)
    else:
        ck.ok("C17.R4", key, fn=car.path, detail="%d prelude blocks, %d parameter reads" % (len(prelude), nuses))


def ops_of(rv):
    out = []
    if "use" in rv:
        out.append(rv["use"])
    for k in ("ops",):
        out.extend(rv.get(k, []))
    for k in ("a", "b", "op"):
        v = rv.get(k)
        if isinstance(v, dict) and ("move" in v or "copy" in v):
            out.append(v)
    return [o for o in out if isinstance(o, dict)]


def is_body_capture(rv):
    a = rv.get("agg")
    return bool(a and (a.get("closure") or a.get("coroutine")))


def is_state_shuffle(s, exp):
    # async: the state machine moves upvars between state slots of the same coroutine
    return bool(exp.get("async")) and s["lhs"].get("l") == 1 and "p" in s["lhs"]


def copy_type(car, pl):
    ty = car.locals[pl["l"]]
    if "p" in pl:
        return True     # a projection: field reads of Copy fields are reported as `copy` by MIR; moves of fields are flagged by rustc itself
    return ty in ("u64", "usize", "bool", "u32", "i64", "i32") or ty.startswith("&") and not ty.startswith("&mut")


def two_phase_self(car, rv):
    return False
