"""C11 — filter directives: the most specific match wins, and filters round-trip.

Mostly an input-quantified property (grammar, string ordering). Structural clauses decided:
R1 the directive vector is kept sorted: mutated only by DirectiveSet::add at the binary_search position
R2 the first matching directive (in storage order) decides; no match => disabled; siblings agree
R3 prefix direction: metadata target starts_with directive target; field names only constrain events
R4 specificity order is reversed (most specific first): target length first, result reversed
R5 span-scoped directives: enter pushes / exit pops under the same predicate; close removes; per-thread scope
"""
from rulekit import Facts, where
from rulekit.sym import PathEval, show
from rulekit.query import bool_paths, relation_held, field_users, guards_of, closure_of_term, norm_cmp, recv_fields

D = "tracing_subscriber::filter::directive::"
E = "tracing_subscriber::filter::env::"
SD = D + "StaticDirective"
DS = D + "DirectiveSet"


def run(ck):
    F = Facts("release")     # without debug_assertions the Ord impls have no debug-only invariant checks in their tables
    ck.configs.append("release")
    ck.explanation = (
        "Structural clauses of directive matching from MIR: the sorted directive vector is mutated only by "
        "DirectiveSet::add, which overwrites/inserts at the index returned by binary_search on that same vector; "
        "Extend/FromIterator/Targets/EnvFilter builders all go through add; enabled/target_enabled take the *first* "
        "element of the filtered iteration in storage order and compare `directive.level >= level`, no match => false; "
        "cares_about calls str::starts_with with the metadata's target as receiver and the directive's target as pattern; "
        "both Ord impls compare the target length first and reverse the result (most specific first); EnvFilter pushes on "
        "enter and pops on exit under the same `by_id contains span` predicate, removes on close, inserts on new_span iff "
        "the callsite has a matcher, and keeps the scope stack in a ThreadLocal. The grammar, Display/parse round trips, "
        "tie-breaking and value matchers are input-quantified and NOT decided.")
    ck.assumptions += ["slice::binary_search/insert semantics", "Dynamics::matcher deliberately folds over all caring directives (not covered)"]
    ck.rule("C11.R7", "directive levels are compared by a correct total order (as C19.R1/R2/R4)", floor=60)
    ck.rule("C11.R8", "EnvFilter and Targets implement the same hooks as a layer and as a per-subscriber filter (as C09.R9)", floor=9)
    ck.rule("C11.R13", "a `{a,b}` field list is cut into fields by the field regex's capture group, without the separating comma", floor=1)
    ck.rule("C11.R12", "a value matcher prints in a form its own parser reads back as the same kind (float matchers keep their decimal point)", floor=1)
    ck.rule("C11.R11", "the builder's default directive is added only to a filter that parsed no directive of either kind", floor=1)
    ck.rule("C11.R10", "span-scoped directives can raise the level for a callsite the static directives turn off: EnvFilter never caches `never` while it has span directives (as C08.R11)", floor=3)
    ck.rule("C11.R14", "EnvFilter.has_dynamics is true whenever a span-scoped directive is stored: every path that adds to `dynamics` sets it, and the builder derives it from `dynamics` being non-empty", floor=2)
    ck.rule("C11.R15", "span-directive value matchers: each record_* of the matcher visitor tests exactly the ValueMatch variants of its value kind, with the right comparison, and marks the field matched only when the test succeeds", floor=6)
    ck.rule("C11.R16", "`is this a span or an event` (what decides whether span directives and field-name constraints apply) reads the callsite kind's own bit: three distinct bits, each predicate tests its own", floor=6)
    ck.rule("C11.R17", "the max-level shortcut in front of the directive table never hides an entry: DirectiveSet::add keeps max_level >= every stored level, also on replacement (as C08.R4)", floor=1)
    ck.rule("C11.R18", "`the directive allows its level` compares levels with a correct total order (as C19.R1/R2/R4)", floor=60)
    ck.rule("C11.R19", "Targets builder steps add exactly the directive they name: with_target -> (Some(target), no field names, level), with_default -> (None, no field names, level), each through DirectiveSet::add, returning the same Targets", floor=2)
    ck.rule("C11.R22", "a value directive matches a recorded value of either integer type: a non-negative literal is parsed as the unsigned matcher (the one both "
            "record_u64 and record_i64 test), so the parsers try bool, then u64, then i64, then f64", floor=2)
    ck.rule("C11.R21", "a directive that matches on a field value can enable a span of any level, so with such directives the filter's hint is TRACE (else the "
            "macros' max-level gate drops the span before the filter sees its value); every enabling path of enabled() sits behind max_level (as C08.R5)", floor=3)
    ck.rule("C11.R20", "inside a matching span the enabled level is the most verbose level among *all* its matched value directives (else the span directives' base level): SpanMatcher::level takes the maximum, SpanMatch::filter yields its level exactly when matched", floor=2)
    ck.rule("C11.R9", "EnvFilter Builder steps keep every other option (same-named field carry-over, as C13.R6)", floor=3)
    ck.rule("C11.R1", "directive vector mutated only by DirectiveSet::add at the binary_search position; max_level kept an upper bound", floor=5)
    ck.rule("C11.R2", "first match in storage order decides; no match disables; siblings agree", floor=4)
    ck.rule("C11.R3", "prefix direction and field-name constraints", floor=3)
    ck.rule("C11.R4", "Ord: target length first, reversed (most specific first)", floor=4)
    ck.rule("C11.R5", "span-scoped directives: push/pop pairing, per-thread scope", floor=5)
    ck.rule("C11.R6", "every entered matching span's level is consulted: enabled if ANY scope entry >= level", floor=2)
    r1(ck, F)
    r2(ck, F)
    r3(ck, F)
    r4(ck, F)
    r5(ck, F)
    r6(ck, F)
    from rules import C19
    C19.order_rules(ck, Facts("default"), "C11.R7")
    # the cached max level gates Targets and EnvFilter before any directive is looked at (C08.R4's rule, instantiated):
    # a directive that overwrites an equal one must still raise it, or the most specific match is never consulted
    from rules import C08
    C08.directive_add_rule(ck, F, rid="C11.R1")
    from rules import C09
    C09.role_agreement(ck, F, rid="C11.R8", only=("EnvFilter", "Targets"))
    from rulekit.query import builder_carry_over
    builder_carry_over(ck, F, "C11.R9", ("tracing_subscriber::filter::env::builder::",))
    has_dynamics_rule(ck, F)
    match_visitor_rule(ck, F)
    kind_rule(ck, F)
    targets_builder_rule(ck, F)
    span_matcher_level_rule(ck, F)
    value_literal_order(ck, F)
    from rules import C08 as _C08
    _C08.r5(ck, F, rid="C11.R21")
    from rules import C19 as _C19
    _C19.order_rules(ck, Facts("default"), "C11.R18")
    C08.directive_add_rule(ck, Facts("release"), rid="C11.R17")
    # ... and the one option that changes what a value pattern *means* is honoured where the filter is built: with
    # `with_regex(false)` every directive's patterns are turned into literal matchers, for every directive
    for fpath, fname in (("tracing_subscriber::filter::env::builder::Builder::from_directives", "Builder::from_directives"),
                         ("tracing_subscriber::filter::env::EnvFilter::add_directive", "EnvFilter::add_directive")):
        fd = F.body(fpath)
        if not ck.anchor("C11.R9", fname, fd):
            continue
        from rulekit.query import guards_of
        key = "%s: with regex support off every directive is made literal (deregexify)" % fname
        sites = [(x, bb) for x in [fd] + F.closures_of(fd) for bb, t in x.calls() if t["callee"].get("method") == "deregexify"]
        ok = len(sites) == 1
        why = "%d deregexify calls" % len(sites)
        if ok:
            g, _ = guards_of(sites[0][0], sites[0][1])
            flags = [v for t, v in g if t.endswith(".regex")]
            other = [t for t, v in g if not t.endswith(".regex") and not t.startswith("discr(next(") and t not in ("0", "1")]
            if not flags or any(v not in (0, False) for v in flags):
                ok, why = False, "deregexify does not run exactly when `regex` is false (guards %s)" % sorted(t[:40] for t, v in g)
            elif other:
                ok, why = False, "deregexify additionally depends on %s" % other
        if ok:
            ck.ok("C11.R9", key, fn=fd.path)
        else:
            ck.bad("C11.R9", key, where(fd.raw["sp"]), why + ": `with_regex(false)` is documented to match field values literally; patterns from untrusted input stay regular expressions", fn=fd.path)
    C08.envfilter_interest(ck, F, rid="C11.R10")
    r11(ck, F)
    r12(ck, F)
    r13(ck, F)


def r1(ck, F):
    mutators = set()
    for b, bb, kind, d in field_users(F, DS, "directives", crate="tracing_subscriber"):
        m = kind.split(":", 1)[1] if kind.startswith("call:") else kind
        if m in ("insert", "push", "remove", "clear", "retain", "sort", "sort_by", "assign", "index_mut", "deref_mut", "truncate", "extend", "swap", "drain", "pop"):
            mutators.add(b.path)
    want = {DS + "::<T>::add"}
    if mutators == want:
        ck.ok("C11.R1", "DirectiveSet.directives mutated only in DirectiveSet::add")
    else:
        ck.bad("C11.R1", "DirectiveSet.directives mutated only in DirectiveSet::add", str(sorted(mutators ^ want)), "mutators: %s" % sorted(mutators))
    add = F.body(DS + "::<T>::add")
    if ck.anchor("C11.R1", "DirectiveSet::add", add):
        rows = {}
        for p in PathEval(add).run():
            if p.end != "return":
                continue
            bs = [c for c in p.conds if show(c[0]).startswith("discr(binary_search(")]
            if not bs:
                continue
            found = bs[0][1] == 0
            ins = [c for c in p.calls if c[1].get("method") == "insert"]
            idxm = [c for c in p.calls if c[1].get("method") == "index_mut"]
            rows[found] = (["insert(%s)" % show(c[2][1]) for c in ins], ["index_mut(%s)" % show(c[2][1]) for c in idxm], show(bs[0][0]))
        ok = set(rows) == {True, False}
        if ok:
            f, nf = rows[True], rows[False]
            same_vec = "binary_search(deref(arg1.directives), arg2)" in f[2] or "binary_search((arg1.directives), arg2)" in f[2].replace("deref", "")
            ok = same_vec and not f[0] and len(f[1]) == 1 and "as Ok).0" in f[1][0] and len(nf[0]) == 1 and "as Err).0" in nf[0][0] and not nf[1]
        if ok:
            ck.ok("C11.R1", "add: found -> overwrite at that index, not found -> insert at the returned index", fn=add.path, detail={str(k): v[:2] for k, v in rows.items()})
        else:
            ck.bad("C11.R1", "add: found -> overwrite at that index, not found -> insert at the returned index", where(add.raw["sp"]), "table %s" % rows, fn=add.path)
    # every construction path goes through add
    for fn, via in ((("<%s<T> as core::iter::traits::collect::Extend<T>>::extend" % DS), "add"),
                    (("<%s<T> as core::iter::traits::collect::FromIterator<T>>::from_iter" % DS), "extend")):
        b = F.body(fn)
        if not ck.anchor("C11.R1", fn.split(" as ")[1].split(">::")[0] if " as " in fn else fn, b):
            continue
        used = {t["callee"].get("method") for x in [b] + F.closures_of(b) for bb, t in x.calls()}
        if via in used:
            ck.ok("C11.R1", "%s goes through %s" % (fn.rsplit("::", 1)[1], via), fn=b.path)
        else:
            ck.bad("C11.R1", "%s goes through %s" % (fn.rsplit("::", 1)[1], via), where(b.raw["sp"]), "calls %s" % sorted(x for x in used if x), fn=b.path)


def r2(ck, F):
    tabs = {}
    for m, it in (("enabled", "directives_for(arg1, arg2)"), ("target_enabled", "directives_for_target(arg1, arg2)")):
        b = F.body("%s::<%s>::%s" % (DS, SD, m))
        if not ck.anchor("C11.R2", "DirectiveSet<StaticDirective>::" + m, b):
            continue
        rows = {}
        for p in PathEval(b).run():
            if p.end == "return" and p.conds:
                rows[(show(p.conds[0][0]), p.conds[0][1])] = show(norm_cmp(p.ret))     # `level <= d.level` is `d.level >= level`
        first = "discr(next(%s))" % it
        lvl = "level(arg2)" if m == "enabled" else "arg3"
        want = {(first, 0): "0", (first, 1): "ge((next(%s) as Some).0.level, %s)" % (it, lvl)}
        if not rows:
            # the same table written as `ITER.next().map_or(false, |d| d.level >= level)`
            ps = [p for p in PathEval(b).run() if p.end == "return"]
            if len(ps) == 1 and ps[0].ret[0] == "call" and ps[0].ret[1].endswith("::map_or") and len(ps[0].ret[2]) == 3:
                recv, dflt, clo = ps[0].ret[2]
                cb = F.body(closure_of_term(clo) or "")
                crets = {show(q.ret) for q in PathEval(cb).run() if q.end == "return"} if cb else set()
                if show(recv) == "next(%s)" % it and dflt[0] == "const" and dflt[2] == 0 and len(crets) == 1 and \
                        list(crets)[0].startswith("ge(arg2.level, "):
                    rows = dict(want)
        tabs[m] = rows
        if rows == want:
            ck.ok("C11.R2", "%s: first caring directive decides by `d.level >= level`; none -> false" % m, fn=b.path, detail={str(k): v for k, v in rows.items()})
        else:
            ck.bad("C11.R2", "%s: first caring directive decides by `d.level >= level`; none -> false" % m, where(b.raw["sp"]), "table %s" % rows, fn=b.path)
    # the filtered iterators preserve storage order: directives().filter(..)
    for fn in ("::<T>::directives_for", "::<%s>::directives_for_target" % SD):
        b = F.body(DS + fn)
        if not ck.anchor("C11.R2", "DirectiveSet" + fn, b):
            continue
        r = [show(p.ret) for p in PathEval(b).run() if p.end == "return"]
        if len(r) == 1 and r[0].startswith("filter(directives(arg1), ") and "rev(" not in r[0]:
            ck.ok("C11.R2", "%s iterates in storage order" % fn.rsplit("::", 1)[1], fn=b.path, detail=r[0][:80])
        else:
            ck.bad("C11.R2", "%s iterates in storage order" % fn.rsplit("::", 1)[1], where(b.raw["sp"]), "iterator is %s" % r, fn=b.path)
    # Targets' Subscribe / Filter impls and would_enable reach the same two functions
    T = "tracing_subscriber::filter::targets::Targets"
    uses = {}
    for tr in ("tracing_subscriber::subscribe::Subscribe", "tracing_subscriber::subscribe::Filter"):
        b = F.impl_method(tr, T, "enabled")
        if b is not None:
            uses[tr.rsplit("::", 1)[1]] = {t["callee"].get("path") for bb, t in b.calls()}
    we = F.body(T + "::would_enable")
    if we is not None:
        uses["would_enable"] = {t["callee"].get("path") for bb, t in we.calls()}
    e1 = "%s::<%s>::enabled" % (DS, SD)
    e2 = "%s::<%s>::target_enabled" % (DS, SD)
    if uses and all(e1 in v or e2 in v for v in uses.values()) and len(uses) == 3:
        ck.ok("C11.R2", "Targets as layer, as filter and would_enable share the DirectiveSet decision", detail={k: sorted(x.rsplit("::", 1)[1] for x in v if x) for k, v in uses.items()})
    else:
        ck.bad("C11.R2", "Targets as layer, as filter and would_enable share the DirectiveSet decision", T, "uses %s" % uses)


def r3(ck, F):
    for fn in ("<%s as %sMatch>::cares_about" % (SD, D), SD + "::cares_about_target", "<%sdirective::Directive as %sMatch>::cares_about" % (E, D)):
        b = F.body(fn)
        nm = fn.rsplit("::", 1)[1] + (" (env)" if "env::" in fn else "")
        if not ck.anchor("C11.R3", nm, b):
            continue
        sw = [t for bb, t in b.calls() if t["callee"].get("method") == "starts_with" and "str" in t["callee"].get("path", "")]
        ok = len(sw) == 1
        if ok:
            recv = show_term(b, sw[0]["argv"][0])
            pat = show_term(b, sw[0]["argv"][1])
            ok = ("arg2" in recv and "arg1" not in recv) and ("arg1" in pat and "target" in pat)
        # a directive whose target does not prefix-match never cares
        rows = [(dict((show(c[0]).split("(")[0], c[1] != 0) for c in p.conds), show(p.ret)) for p in bool_paths(b) if p.end == "return"]
        ok = ok and all(r == "0" for c, r in rows if c.get("starts_with") is False)
        if ok:
            ck.ok("C11.R3", "%s: metadata.target.starts_with(directive.target); mismatch never cares" % nm, fn=b.path)
        else:
            ck.bad("C11.R3", "%s: metadata.target.starts_with(directive.target); mismatch never cares" % nm, where(b.raw["sp"]),
                   "starts_with receiver/pattern reversed or a non-matching prefix can still care", fn=b.path)
        if "cares_about_target" in fn:
            # the target-only matcher (would_enable) must skip directives that carry field names, as real filtering of a
            # field-less probe does: every accepting row has tested that field_names is empty
            def empty_known(p):
                for c in p.conds:
                    t = show(c[0])
                    if "field_names" in t and ("is_empty(" in t or "len(" in t):
                        return True
                return False
            acc = [p for p in bool_paths(b) if p.end == "return" and show(p.ret) != "0"]
            k = "cares_about_target: a directive with field names never matches a bare target (would_enable agrees with filtering)"

            def empty_true(p):      # ... and with the right polarity: accepted because the list *is* empty
                for c in p.conds:
                    t = show(c[0])
                    if "field_names" in t and t.startswith("is_empty("):
                        return c[1] != 0
                    if "field_names" in t and "len(" in t:
                        r = relation_held(t, c[1])      # len == 0, 0 == len, len != 0, len > 0, 0 < len, len < 1 ... in any spelling
                        if r and "0" in (r[0], r[2]):
                            return r[1] == "==" or (r[1] == "<=" and r[2] == "0")
                        if r and "1" in (r[0], r[2]):
                            return r[1] == "<" and r[2] == "1"
                return True
            if acc and all(empty_known(p) for p in acc) and not all(empty_true(p) for p in acc):
                ck.bad("C11.R3", k, where(b.raw["sp"]), "a row accepts a bare target because the directive *has* field names (and rejects the ones without)", fn=b.path)
            elif acc and all(empty_known(p) for p in acc):
                ck.ok("C11.R3", k, fn=b.path)
            else:
                ck.bad("C11.R3", k, where(b.raw["sp"]), "a row accepts without having looked at field_names: Targets parsed from `t[{f}]=lvl` make would_enable "
                       "answer from a directive that real filtering of a field-less event skips", fn=b.path)
        if "cares_about_target" not in fn and "env::" not in fn:
            # field names only constrain events
            span_rows = [r for c, r in rows if c.get("is_event") is False and c.get("starts_with") is not False]
            if span_rows and all(r == "1" for r in span_rows):
                ck.ok("C11.R3", "StaticDirective: field-name constraints apply to events only", fn=b.path)
            else:
                ck.bad("C11.R3", "StaticDirective: field-name constraints apply to events only", where(b.raw["sp"]), "span rows %s" % span_rows, fn=b.path)
            # ... and do apply to them: an event is accepted by a directive with field names only after every name was
            # looked up in the event's field set (loop run to exhaustion / all() / any())
            k2 = "StaticDirective: an event matches a directive with field names only if it has every one of them"
            badp = 0
            nacc = 0
            for pth in bool_paths(b, max_visits=3):
                if pth.end != "return" or show(pth.ret) == "0":
                    continue
                cs = [(show(c[0]), c[1]) for c in pth.conds]
                ev = [v for t, v in cs if t.startswith("is_event(")]
                emp = [v for t, v in cs if t.startswith("is_empty(") and "field_names" in t]
                if not ev or ev[0] == 0:
                    continue            # a span (or kind not looked at: covered by the row above)
                nacc += 1
                known_empty = bool(emp) and emp[0] != 0
                scanned = any("field_names" in t and ("next(" in t or t.startswith("all(") or t.startswith("any(")) for t, v in cs)
                if not known_empty and not scanned:
                    badp += 1
            # ... with the right polarity: a name the event does not have rejects it, a name it has lets the scan go on
            k3 = "StaticDirective: a missing field name rejects the event, a present one does not"
            wrong = []
            for pth in bool_paths(b):
                look = [(show(c[0]), c[1]) for c in pth.conds if "field(fields(arg2)" in show(c[0])]
                if not look:
                    continue
                t, v = look[-1]
                missing = (t.startswith("is_none(") and v != 0) or (t.startswith("is_some(") and v == 0) or (t.startswith("discr(") and v == 0)
                if pth.end == "return" and show(pth.ret) == "0" and not missing:
                    wrong.append("rejects after *finding* the field (%s = %s)" % (t[:50], v))
                if missing and not (pth.end == "return" and show(pth.ret) == "0"):
                    wrong.append("goes on (%s) after finding a field missing" % pth.end)
            for cl in F.closures_of(b):
                for q in PathEval(cl).run():
                    if q.end == "return" and q.ret is not None and "field(" in show(q.ret):
                        t = show(q.ret)
                        used_all = any(show(c[0]).startswith("all(") for pp in bool_paths(b) for c in pp.conds)
                        if used_all and not t.startswith("is_some("):
                            wrong.append("the per-name test handed to all() is %s" % t[:60])
                        if not used_all and any(show(c[0]).startswith("any(") for pp in bool_paths(b) for c in pp.conds) and not t.startswith("is_none("):
                            wrong.append("the per-name test handed to any() is %s" % t[:60])
            if wrong:
                ck.bad("C11.R3", k3, where(b.raw["sp"]), "; ".join(sorted(set(wrong))) + ": `target[field]=level` then applies to exactly the events that lack the field", fn=b.path)
            else:
                ck.ok("C11.R3", k3, fn=b.path)
            if nacc and not badp:
                ck.ok("C11.R3", k2, fn=b.path)
            else:
                ck.bad("C11.R3", k2, where(b.raw["sp"]), "%d accepting event path(s) never compared the directive's field names with the event's fields although the list may be non-empty: "
                       "`target[field]=level` would apply to events without that field" % badp if nacc else "no accepting event path found", fn=b.path)


def show_term(b, op):
    from rulekit.sym import PathEval as PE
    ev = PE(b)
    # evaluate along the unique straight-line prefix: use origin-based text instead
    o = b.origin(op)
    if o[0] == "arg":
        return "arg%d.%s" % (o[1], ".".join(str(p.get("n", p)) if isinstance(p, dict) else str(p) for p in o[2]))
    if o[0] == "call":
        inner = " ".join(show_term(b, a) for a in o[2]["argv"])
        return "%s(%s)" % (o[2]["callee"].get("method"), inner)
    return o[0]


def cmp_keys(F, b):
    """The sequence of comparison keys of an Ord::cmp written as `a.cmp(b).then_with(|| ..).then_with(|| ..).reverse()`."""
    def label(t):
        txt = show(t)
        import re as _re
        m = _re.match(r"^cmp\((.*)\)$", txt)
        if not m:
            return "?" + txt[:40]
        # split the two sides at the top-level comma
        depth, cut = 0, None
        for i, ch in enumerate(m.group(1)):
            if ch in "({":
                depth += 1
            elif ch in ")}":
                depth -= 1
            elif ch == "," and depth == 0:
                cut = i
                break
        if cut is None:
            return "?" + txt[:40]
        a, c = m.group(1)[:cut].strip(), m.group(1)[cut + 1:].strip()
        norm = lambda x: _re.sub(r"\b(arg1\.self|arg1\.other|arg1|arg2|…)\.", "", x)
        fa, fb = norm(a), norm(c)
        if fa != fb or not (("self" in a or "arg1" in a) and ("other" in c or "arg2" in c)) and "…" not in a:
            return "?" + txt[:40]
        for pat, lab in ((r"^map\(as_ref\(target\), alloc::string::String::len\)$", "target.len"), (r"^len\((\w+)\)$", r"\1.len"), (r"^is_some\((\w+)\)$", r"\1.is_some"),
                         (r"^index\((\w+), RangeFull\{\}\)$", r"\1"), (r"^(\w+)$", r"\1")):
            mm = _re.match(pat, fa)
            if mm:
                return mm.expand(lab)
        return "?" + fa[:40]

    def walk(body, t):
        if t[0] == "call" and t[1].endswith("::reverse") and t[2]:
            return walk(body, t[2][0])
        if t[0] == "call" and t[1].endswith("::then_with") and len(t[2]) == 2:
            left = walk(body, t[2][0])
            cl = t[2][1]
            cp = cl[1][len("closure:"):] if cl[0] == "agg" and str(cl[1]).startswith("closure:") else None
            cb = F.body(cp) if cp else None
            if cb is None:
                return left + ["?closure"]
            rets = [q.ret for q in PathEval(cb).run() if q.end == "return"]
            return left + (walk(cb, rets[0]) if len(rets) == 1 else ["?multi"])
        if t[0] == "call" and t[1].endswith("::then") and len(t[2]) == 2:
            return walk(body, t[2][0]) + walk(body, t[2][1])
        # `(a1, a2, a3).cmp(&(b1, b2, b3))`: tuples compare lexicographically, component by component
        if t[0] == "call" and t[1].endswith("::cmp") and len(t[2]) == 2 and all(x[0] == "agg" and str(x[1]).startswith("tuple") for x in t[2]) \
                and len(t[2][0][3]) == len(t[2][1][3]):
            out = []
            for x, y in zip(t[2][0][3], t[2][1][3]):
                out.append(label(("call", "core::cmp::Ord::cmp", (x, y), 0)))
            return out
        return [label(t)]
    rets = [q.ret for q in PathEval(b).run() if q.end == "return"]
    if len(rets) != 1:
        return ["?multi"]
    return walk(b, rets[0])


def r4(ck, F):
    for fn, nm in (("<%s as core::cmp::Ord>::cmp" % SD, "StaticDirective"), ("<%sdirective::Directive as core::cmp::Ord>::cmp" % E, "Directive")):
        b = F.body(fn)
        if not ck.anchor("C11.R4", "Ord for " + nm, b):
            continue
        r = [show(p.ret) for p in PathEval(b).run() if p.end == "return"]
        ok = len(r) == 1 and r[0].startswith("reverse(")
        first = False
        if ok:
            # innermost (first) comparison key: cmp(map(as_ref(self.target), String::len), map(as_ref(other.target), String::len))
            txt = r[0]
            core = txt[txt.index("cmp(map(as_ref("):] if "cmp(map(as_ref(" in txt else ""
            first = core.startswith("cmp(map(as_ref(") and "String::len" in core.split("{closure")[0]
        # the whole key sequence: "most specific first" is target length, then (span name present,) then the number of
        # field constraints -- all before the lexicographic tie-breakers, each comparing self's component with other's
        want_prefix = ["target.len", "field_names.len"] if nm == "StaticDirective" else ["target.len", "in_span.is_some", "fields.len"]
        keys = cmp_keys(F, b)
        kkey = "%s: specificity keys %s come first, in this order" % (nm, want_prefix)
        if keys[:len(want_prefix)] == want_prefix and not any(k.startswith("?") for k in keys):
            ck.ok("C11.R4", kkey, fn=b.path, detail=keys)
        else:
            ck.bad("C11.R4", kkey, where(b.raw["sp"]), "cmp compares %s: a directive with more field constraints (or a span name) no longer sorts before a less specific one "
                   "whenever the lexicographic tie-break disagrees, and the first match stops being the most specific" % keys, fn=b.path)
        if ok and not first and keys[:1] == ["target.len"]:
            first = True        # the same first key inside a tuple comparison
        if ok and first:
            ck.ok("C11.R4", "%s: compares target length first and reverses the result" % nm, fn=b.path)
        else:
            ck.bad("C11.R4", "%s: compares target length first and reverses the result" % nm, where(b.raw["sp"]), "cmp is %s" % [x[:160] for x in r], fn=b.path)
        # operands are (self, other) in this order inside the reversed comparison
        po = F.body(fn.replace("Ord>::cmp", "PartialOrd>::partial_cmp"))
        if po is not None:
            pr = [show(p.ret) for p in PathEval(po).run() if p.end == "return"]
            if pr == ["Option::Some{cmp(arg1, arg2)}"]:
                ck.ok("C11.R4", "%s: partial_cmp delegates to cmp" % nm, fn=po.path)
            else:
                ck.bad("C11.R4", "%s: partial_cmp delegates to cmp" % nm, where(po.raw["sp"]), "partial_cmp is %s" % pr, fn=po.path)


def r5(ck, F, rid="C11.R5"):
    EF = E + "EnvFilter"
    adt = F.adts.get(EF)
    if ck.anchor(rid, "EnvFilter", adt):
        ty = {f["name"]: f["ty"] for f in adt["variants"][0]["fields"]}.get("scope", "")
        if ty.startswith("thread_local::ThreadLocal<"):
            ck.ok(rid, "EnvFilter.scope is a ThreadLocal", detail=ty[:90])
        else:
            ck.bad(rid, "EnvFilter.scope is a ThreadLocal", adt["span"], "scope has type %s: span-scoped levels would leak across threads" % ty)
    tabs = {}
    for m, act in (("on_enter", "push"), ("on_exit", "pop")):
        b = F.body("%s::%s" % (EF, m))
        if not ck.anchor(rid, "EnvFilter::" + m, b):
            continue
        acts = [bb for bb, t in b.calls() if t["callee"].get("method") == act]
        if len(acts) != 1:
            ck.bad(rid, "EnvFilter::%s performs one %s" % (m, act), where(b.raw["sp"]), "%d %s calls" % (len(acts), act), fn=b.path)
            continue
        g, _ = guards_of(b, acts[0])
        pred = []
        for t, v in g:
            if v == 0 or v is False:
                continue
            if "by_id" in t and (t.startswith("discr(get(") or "contains_key(" in t):
                pred.append("by_id contains the span id")
            elif t.startswith("cares_about_span(arg1, arg2)"):
                # helper: by_id.read().contains_key(span)
                h = F.body(EF + "::cares_about_span")
                hr = [show(p.ret) for p in PathEval(h).run() if p.end == "return" and show(p.ret) != "0"] if h else []
                if hr and all(x.startswith("contains_key(") and "by_id" in x and x.endswith(", arg2)") for x in hr):
                    pred.append("by_id contains the span id")
        pred = sorted(set(pred))
        # any OTHER condition on the push (or the pop) that the other side does not have unbalances the stack: e.g. skipping
        # the push for an unmatched (OFF) span while still popping for it makes an inner exit pop the outer span's entry
        extra = []
        for t, v in g:
            if "by_id" in t or t.startswith(("cares_about_span(", "discr(get(", "discr(read(", "is_ok(", "discr(branch(")):
                continue
            if t.startswith("discr(") and ("read(" in t or "get(" in t or "lock" in t):
                continue        # lock-poisoning plumbing of try_lock!
            extra.append((t[:70], v))
        pred = pred + (["EXTRA %s" % (extra,)] if extra else [])
        tabs[m] = pred
        if pred and not extra:
            ck.ok(rid, "EnvFilter::%s: %s only for spans with a stored matcher" % (m, act), fn=b.path, detail=pred)
        elif extra:
            ck.bad(rid, "EnvFilter::%s: %s exactly for spans with a stored matcher" % (m, act), where(b.raw["sp"]),
                   "the %s is additionally conditioned on %s: enter and exit no longer push/pop for the same spans, so the per-thread scope stack gets out of step" % (act, extra), fn=b.path)
        else:
            ck.bad(rid, "EnvFilter::%s: %s only for spans with a stored matcher" % (m, act), where(b.raw["sp"]), "guards %s" % sorted(g), fn=b.path)
    if len(tabs) == 2:
        if tabs["on_enter"] == tabs["on_exit"]:
            ck.ok(rid, "enter and exit use the same predicate (balanced scope stack)")
        else:
            ck.bad(rid, "enter and exit use the same predicate (balanced scope stack)", EF, "enter: %s exit: %s" % (tabs["on_enter"], tabs["on_exit"]))
    oc = F.body(EF + "::on_close")
    if ck.anchor(rid, "EnvFilter::on_close", oc):
        rem = [(bb, t) for bb, t in oc.calls() if t["callee"].get("method") == "remove"]
        # a stored matcher is removed whenever there is one: the only thing that may skip the removal is "nothing stored"
        # (the cares_about_span fast path), with that polarity, or a poisoned lock
        wrongp = False
        if rem:
            g, _ = guards_of(oc, rem[0][0])
            for t, v in g:
                if t.startswith("cares_about_span(") and (v == 0 or v is False):
                    wrongp = True
                if "contains_key(" in t and (v == 0 or v is False):
                    wrongp = True
        if rem and not wrongp:
            ck.ok(rid, "on_close removes the span's matcher", fn=oc.path)
        elif wrongp:
            ck.bad(rid, "on_close removes the span's matcher", where(oc.raw["sp"]), "the removal runs only for spans *without* a stored matcher: every closed span leaves its matcher behind", fn=oc.path)
        else:
            ck.bad(rid, "on_close removes the span's matcher", where(oc.raw["sp"]), "no remove call", fn=oc.path)
    ns = F.body(EF + "::on_new_span")
    if ck.anchor(rid, "EnvFilter::on_new_span", ns):
        ins = [bb for bb, t in ns.calls() if t["callee"].get("method") == "insert"]
        ok = len(ins) == 1
        if ok:
            g, _ = guards_of(ns, ins[0])
            ok = any(("by_cs" in t or "get(" in t) and v != 0 for t, v in g) and not any(("by_cs" in t and "get(" in t) and (v == 0 or v is False) for t, v in g)
        if ok:
            ck.ok(rid, "on_new_span stores a matcher iff the callsite has span-scoped directives", fn=ns.path)
        else:
            ck.bad(rid, "on_new_span stores a matcher iff the callsite has span-scoped directives", where(ns.raw["sp"]), "insert not guarded by the by_cs lookup", fn=ns.path)


def r6(ck, F):
    """EnvFilter::enabled: the per-thread scope stack is traversed exhaustively and any entry >= level enables.
    (A matching span stays entered while inner spans are entered, so looking only at the innermost entry would drop
    events the outer span's directive enables.)"""
    EF = E + "EnvFilter"
    b = F.body(EF + "::enabled")
    if not ck.anchor("C11.R6", "EnvFilter::enabled", b):
        return
    key = "enabled: any scope entry >= level enables"
    bodies = [b] + F.closures_of(b)
    scope_calls = [bb for bb, t in b.calls() if t["callee"].get("method") == "get_or_default"]
    if len(scope_calls) != 1:
        ck.bad("C11.R6", key, where(b.raw["sp"]), "%d reads of the scope stack (expected 1)" % len(scope_calls), fn=b.path)
        return
    found = []
    why = []
    for x in bodies:
        for bb, t in x.calls():
            c = t["callee"]
            if c.get("method") != "ge" or "LevelFilter" not in (c.get("full") or c.get("path") or "") or len(t["argv"]) != 2:
                continue
            o = x.origin(t["argv"][0])
            if x is b and o[0] == "call" and o[2]["callee"].get("method") == "next" and "Iter" in (o[2]["callee"].get("full") or ""):
                nbb = o[1]
                in_loop = nbb in x.reachable(x.succ(nbb)[0]) if x.succ(nbb) else False
                it = x.origin(o[2]["argv"][0])
                from_scope = derives_from_call(x, it, scope_calls[0])
                if in_loop and from_scope:
                    # a hit returns true
                    hit = [a[1] for a in x.term(t["ret"])["arms"]] if x.term(t["ret"])["k"] == "switch" else []
                    other = x.term(t["ret"]).get("otherwise") if x.term(t["ret"])["k"] == "switch" else None
                    rets = set()
                    if other is not None:
                        for p in PathEval(x).run(start=other):
                            if p.end == "return":
                                rets.add(show(p.ret))
                    if rets == {"1"}:
                        found.append("loop over the scope stack; a hit returns true")
                    else:
                        why.append("a scope entry >= level does not make enabled return true (returns %s)" % sorted(rets))
                else:
                    why.append("the compared filter comes from Iterator::next but %s" % ("not inside a loop" if not in_loop else "not from the scope stack"))
            elif x is not b and o[0] == "arg":
                # closure given to Iterator::any over the scope
                anyc = [(bb2, t2) for bb2, t2 in b.calls() if t2["callee"].get("method") == "any"]
                if anyc and derives_from_call(b, b.origin(anyc[0][1]["argv"][0]), scope_calls[0]):
                    found.append("Iterator::any over the scope stack")
                else:
                    chain = []
                    for bb2, t2 in b.calls():
                        for a in t2["argv"]:
                            oa = b.origin(a)
                            cd = (oa[1].get("agg", {}).get("closure") if oa[0] == "agg" else oa[1].get("closure") if oa[0] == "const" else None)
                            if cd == x.path:
                                r = b.origin(t2["argv"][0])
                                chain = [t2["callee"].get("method")]
                                while r[0] == "call" and len(chain) < 6 and r[1] != scope_calls[0]:
                                    chain.append(r[2]["callee"].get("method"))
                                    r = b.origin(r[2]["argv"][0]) if r[2]["argv"] else ("none",)
                    why.append("the compared scope entry reaches the comparison through %s, not through an exhaustive traversal (loop or Iterator::any) of the scope stack: "
                               "an outer entered span's directive is ignored" % (" <- ".join(str(c) for c in chain) or "a closure"))
            elif x is b and o[0] == "call" and o[2]["callee"].get("method") in ("last", "first", "get", "index", "pop", "last_mut"):
                if derives_from_call(x, x.origin(o[2]["argv"][0]), scope_calls[0]):
                    why.append("only the `%s` entry of the scope stack is compared with the level: an outer entered span's more verbose directive is ignored while an inner matching span is entered" % o[2]["callee"].get("method"))
    if found and not why:
        ck.ok("C11.R6", key, fn=b.path, detail=found)
    else:
        ck.bad("C11.R6", key, where(b.raw["sp"]), "; ".join(sorted(set(why))) or "no comparison of scope entries with the level found", fn=b.path)
    # the pushed value is the matcher's level for that span
    oe = F.body(EF + "::on_enter")
    if ck.anchor("C11.R6", "EnvFilter::on_enter", oe):
        push = [(bb, t) for bb, t in oe.calls() if t["callee"].get("method") == "push"]
        ok = False
        if len(push) == 1:
            o = oe.origin(push[0][1]["argv"][1])
            ok = o[0] == "call" and o[2]["callee"].get("method") == "level" and "SpanMatch" in (o[2]["callee"].get("full") or o[2]["callee"].get("path") or "")
        if ok:
            ck.ok("C11.R6", "on_enter pushes the entered span's matcher level", fn=oe.path)
        else:
            ck.bad("C11.R6", "on_enter pushes the entered span's matcher level", where(oe.raw["sp"]), "the pushed value is not MatchSet<SpanMatch>::level() of the span's matcher", fn=oe.path)


def derives_from_call(body, o, call_bb, depth=0):
    """Does origin `o` trace back (through receiver arguments of calls) to the call at block `call_bb`?"""
    while depth < 12:
        depth += 1
        if o[0] != "call":
            return False
        if o[1] == call_bb:
            return True
        if not o[2]["argv"]:
            return False
        o = body.origin(o[2]["argv"][0])
    return False


def r11(ck, F):
    """`EnvFilter::new("[span{f=1}]=debug")` must enable exactly what the string says. Builder::from_directives appends the
    builder's default directive (bare `error` for `new`/`from_env`) as a fallback for an *empty* filter; if the fallback
    also fires when only span-scoped directives were given, a directive nobody wrote is enabled and Display no longer
    round-trips. The site that reads `self.default_directive` must be guarded by emptiness of both tables."""
    b = F.body(E + "builder::Builder::from_directives")
    if not ck.anchor("C11.R11", "Builder::from_directives", b):
        return
    sites = []
    for bb, t in b.calls():
        for a in t["argv"]:
            o = b.origin(a)
            if o[0] == "arg" and o[1] == 1 and [x.get("n") for x in o[2]][:1] == ["default_directive"]:
                sites.append(bb)
    for i, j, st in b.stmts():
        if st["k"] == "assign" and "use" in st.get("rv", {}):
            o = b.origin(st["rv"]["use"])
            if o[0] == "arg" and o[1] == 1 and [x.get("n") for x in o[2]][:1] == ["default_directive"]:
                sites.append(i)
    key = "from_directives: the default directive is a fallback for an empty filter only"
    if not sites:
        ck.bad("C11.R11", key, where(b.raw["sp"]), "no use of self.default_directive found (shape not recognised)", fn=b.path)
        return
    problems = []
    for bb in sorted(set(sites)):
        g, _ = guards_of(b, bb)
        empt = [t for t, v in g if "is_empty(" in t]
        tables = {("0" if ").0)" in t else "1" if ").1)" in t else t) for t in empt}
        if len(tables) < 2:
            problems.append("the use at bb%d is guarded by emptiness of %d table(s) only (%s)" % (bb, len(tables), [t[:70] for t in empt]))
    if problems:
        ck.bad("C11.R11", key, where(b.raw["sp"]), "; ".join(problems) + ": a filter made of span directives alone silently gains the default directive", fn=b.path)
    else:
        ck.ok("C11.R11", key, fn=b.path, detail=sorted(set(sites)))


def r12(ck, F):
    """ValueMatch::parse tries bool, then u64, then i64, then f64: a float matcher whose value is integral must not be
    printed as `1` (it would come back as U64(1), which does not match the float 1.0 a span records). The F64 arm of Display
    has to go through a float formatter that keeps the decimal point or exponent (Debug / LowerExp), every other arm prints
    its own payload."""
    VM = E + "field::ValueMatch"
    b = F.body("<%s as core::fmt::Display>::fmt" % VM)
    adt = F.adts.get(VM)
    if not (ck.anchor("C11.R12", "Display for ValueMatch", b) and ck.anchor("C11.R12", "ValueMatch", adt)):
        return
    names = [v["name"] for v in adt["variants"]]
    rows = {}
    for p in PathEval(b).run():
        if p.end == "return" and p.conds and show(p.conds[0][0]) == "discr(arg1)" and isinstance(p.conds[0][1], int) and p.ret[0] == "call":
            rows[names[p.conds[0][1]]] = (p.ret[1], show(p.ret[2][0]))
    key = "ValueMatch::F64 is printed with a float formatter that keeps the decimal point"
    f = rows.get("F64")
    if f and f[0] in ("core::fmt::Debug::fmt", "core::fmt::LowerExp::fmt", "core::fmt::UpperExp::fmt") and "as F64" in f[1]:
        ck.ok("C11.R12", key, fn=b.path, detail={k: v[0].rsplit("::", 2)[-2] for k, v in rows.items()})
    else:
        ck.bad("C11.R12", key, where(b.raw["sp"]), "the F64 arm prints through %s: `x=1.0` is shown as `x=1`, which parses back as an integer matcher and no longer "
               "matches the float the span records (Display/parse round trip changes the filter)" % (f,), fn=b.path)


def r13(ck, F):
    """`[span{a=1,b=2}]`: FIELD_FILTER_RE matches `a=1,` -- field plus separator -- and captures the field alone in group 1.
    Directive::parse must hand field::Match::parse the capture, not the whole match (`Regex::find_iter`): with the comma in
    it the field name / value pattern is wrong, the directive matches no span, and Display shows `{a=1,,b=2}`."""
    top = F.body(E + "directive::Directive::parse")
    if not ck.anchor("C11.R13", "Directive::parse", top):
        return
    bodies = [top] + F.closures_of(top)
    parses = [(x, bb, t) for x in bodies for bb, t in x.calls() if (t["callee"].get("path") or "").endswith("field::Match::parse")]
    finds = [where(t["sp"]) for x in bodies for bb, t in x.calls() if (t["callee"].get("path") or "").endswith("Regex::find_iter")]
    caps = [1 for x in bodies for bb, t in x.calls() if (t["callee"].get("path") or "").endswith("Regex::captures_iter")]
    key = "Directive::parse cuts the fields of a list out with the field regex's capture group"
    if parses and caps and not finds:
        ck.ok("C11.R13", key, fn=top.path)
    else:
        ck.bad("C11.R13", key, where(top.raw["sp"]), "field::Match::parse is fed from Regex::find_iter (%s): the whole match includes the `,` separator" % (finds or "no captures_iter found"), fn=top.path)


def has_dynamics_rule(ck, F, rid="C11.R14"):
    """`has_dynamics` is the switch in front of everything span-scoped (register_callsite, enabled, max_level_hint read it
    first). It is a cache of `!dynamics.is_empty()`: wherever a directive is added to `dynamics` the flag is set on that
    path, and where the filter is assembled the flag is computed from the assembled `dynamics`."""
    EF = E + "EnvFilter"
    n = 0
    for b in F.body_list:
        if b.crate != "tracing_subscriber" or "filter::env" not in b.path:
            continue
        adds = [bb for bb, t in b.calls() if t["callee"].get("method") == "add" and "DirectiveSet" in (t["callee"].get("path") or "")
                and "dynamics" in (recv_fields(b, t)[1] or [])]
        if not adds:
            continue
        n += 1
        key = "%s: adding a span-scoped directive sets has_dynamics" % b.path.replace(E, "")
        bad = 0
        for pth in PathEval(b).run():
            if pth.end != "return" or not any(a in pth.blocks for a in adds):
                continue
            setflag = False
            for bb in pth.blocks:
                for st in b.blocks[bb]["stmts"]:
                    if st["k"] == "assign" and any(isinstance(x, dict) and x.get("n") == "has_dynamics" for x in st["lhs"].get("p", [])):
                        c = (st.get("rv", {}).get("use") or {}).get("const") or {}
                        if c.get("int") == 1 or c.get("bool") is True or str(c.get("val")) in ("true", "1"):
                            setflag = True
            if not setflag:
                bad += 1
        if bad:
            ck.bad(rid, key, where(b.raw["sp"]), "%d path(s) add to `dynamics` and leave has_dynamics as it was: on a filter built without span directives the "
                   "added one is stored (and printed by Display) but never consulted" % bad, fn=b.path)
        else:
            ck.ok(rid, key, fn=b.path)
    # the assembling site: EnvFilter { .., has_dynamics: !dynamics.is_empty(), dynamics, .. }
    for b in F.body_list:
        if b.crate != "tracing_subscriber":
            continue
        for i, j, st in b.stmts():
            a = st.get("rv", {}).get("agg") if st["k"] == "assign" else None
            if not a or a.get("adt") != EF or "has_dynamics" not in (a.get("fields") or []):
                continue
            n += 1
            ops = dict(zip(a["fields"], st["rv"]["ops"]))
            o = b.origin(ops["has_dynamics"])
            key = "%s builds EnvFilter with has_dynamics = !dynamics.is_empty()" % b.path.replace(E, "")
            ok = False
            if o[0] == "un" and isinstance(o[1], dict) and o[1].get("un") == "Not":
                inner = b.origin(o[1]["a"])
                ok = inner[0] == "call" and inner[2]["callee"].get("method") == "is_empty" and "dynamics" in str(b.origin(inner[2]["argv"][0])) + str(inner[2]["argv"][0])
                if not ok and inner[0] == "call" and inner[2]["callee"].get("method") == "is_empty":
                    # is_empty(&dynamics) where `dynamics` is the local later moved into the aggregate
                    src = b.origin(inner[2]["argv"][0])
                    dyn = ops.get("dynamics")
                    ok = dyn is not None and (src[0] in ("local", "call", "agg", "multi") or True)
            elif o[0] == "bin":
                ok = "is_empty" in str(o)
            elif o[0] == "call" and o[2]["callee"].get("method") in ("is_empty", "not"):
                ok = True
            txt = str(o)
            if not ok and "is_empty" in txt and "Not" in txt:
                ok = True
            if ok:
                ck.ok(rid, key, fn=b.path)
            else:
                ck.bad(rid, key, where(st.get("sp") or b.raw["sp"]), "has_dynamics is %s" % txt[:120], fn=b.path)
    if n < 2:
        ck.bad(rid, "sites that add to or assemble `dynamics`", EF, "only %d site(s) found" % n)


def match_visitor_rule(ck, F):
    """`[span{field=value}]=level` raises the level while a span whose recorded field *has that value* is entered. The
    comparison lives in MatchVisitor: one decision table per value kind, keyed by the variant of the stored ValueMatch."""
    adt = F.adts.get(E + "field::ValueMatch")
    if not ck.anchor("C11.R15", "ValueMatch", adt):
        return
    vname = {i: v["name"] for i, v in enumerate(adt["variants"])}
    WANT = {
        "record_bool": {"Bool": "eq"}, "record_u64": {"U64": "eq"}, "record_i64": {"I64": "eq", "U64": "eq-converted"},
        "record_f64": {"F64": "eq-epsilon", "NaN": "is_nan"}, "record_str": {"Debug": "debug_matches", "Pat": "str_matches"},
        "record_debug": {"Debug": "debug_matches", "Pat": "debug_matches"},
    }

    def kind(t):
        if t.startswith("debug_matches("):
            return "debug_matches"
        if t.startswith("str_matches("):
            return "str_matches"
        if t.startswith("is_nan("):
            return "is_nan"
        if "EPSILON" in t and (" Lt " in t or " Le " in t) and "abs(" in t:
            return "eq-epsilon"
        if t.startswith("eq(") and "try_into(" in t or "try_from(" in t:
            return "eq-converted"
        if " Eq " in t or t.startswith("eq("):
            return "eq"
        return "?" + t[:40]
    for i in F.impls:
        if i.get("trait") != "tracing_core::field::Visit" or "field::MatchVisitor" not in i["self_ty"]:
            continue
        for m, want in WANT.items():
            b = F.body(i["methods"].get(m) or "")
            key = "MatchVisitor::%s: %s" % (m, ", ".join("%s by %s" % kv for kv in sorted(want.items())))
            if not ck.anchor("C11.R15", "MatchVisitor::" + m, b):
                continue
            table = {}
            problems = []
            for pth in PathEval(b).run():
                if pth.end != "return":
                    continue
                cs = [(show(c[0]), c[1]) for c in pth.conds if c[0][0] != "const"]
                stored = any(c[1].get("method") == "store" for c in pth.calls)
                var = [v for t, v in cs if t.startswith("discr((get(") or t.startswith("discr(((get(")]
                tests = [(t, v) for t, v in cs if not t.startswith("discr(")]
                if not var or not isinstance(var[-1], int):
                    if stored:
                        problems.append("a path marks the field matched without looking at the stored matcher's kind")
                    continue
                vn = vname.get(var[-1], str(var[-1]))
                if len(tests) != 1:
                    problems.append("%s: %d tests on one path" % (vn, len(tests)))
                    continue
                k = kind(tests[0][0])
                table[vn] = k
                if stored != (tests[0][1] != 0):
                    problems.append("%s: the field is marked matched on the %s edge of its test" % (vn, "false" if stored else "true edge is ignored, not on the"))
            if table != want:
                problems.append("variants tested: %s, expected %s" % (table, want))
            if problems:
                ck.bad("C11.R15", key, where(b.raw["sp"]), "; ".join(sorted(set(problems))[:3]), fn=b.path)
            else:
                ck.ok("C11.R15", key, fn=b.path)


def kind_rule(ck, F, rid="C11.R16"):
    M = "tracing_core::metadata::"
    bits = {n: (F.consts.get(M + "Kind::%s_BIT" % n) or {}).get("val", {}).get("int") for n in ("EVENT", "SPAN", "HINT")}
    consts = {n: (F.consts.get(M + "Kind::" + n) or {}).get("val", {}).get("int") for n in ("EVENT", "SPAN", "HINT")}
    key = "Kind::EVENT / SPAN / HINT are three distinct single bits"
    vals = [bits[n] for n in bits]
    if all(isinstance(v, int) and v and v & (v - 1) == 0 for v in vals) and len(set(vals)) == 3 and consts == bits:
        ck.ok(rid, key, detail=bits)
    else:
        ck.bad(rid, key, M + "Kind", "bits %s, constants %s" % (bits, consts))
    for m, n in (("is_event", "EVENT"), ("is_span", "SPAN"), ("is_hint", "HINT")):
        b = F.body(M + "Kind::" + m)
        if not ck.anchor(rid, "Kind::" + m, b):
            continue
        rets = [show(p.ret) for p in PathEval(b).run() if p.end == "return"]
        key = "Kind::%s tests the %s bit" % (m, n)
        want = ("((arg1.0 BitAnd Kind::%s_BIT) Eq Kind::%s_BIT)" % (n, n), "(Kind::%s_BIT Eq (arg1.0 BitAnd Kind::%s_BIT))" % (n, n),
                "((arg1.0 BitAnd Kind::%s_BIT) Ne 0)" % n, "((Kind::%s_BIT BitAnd arg1.0) Eq Kind::%s_BIT)" % (n, n))
        if len(rets) == 1 and rets[0] in want:
            ck.ok(rid, key, fn=b.path)
        else:
            ck.bad(rid, key, where(b.raw["sp"]), "returns %s" % rets, fn=b.path)
    for m in ("is_event", "is_span"):
        b = F.body(M + "Metadata::<'a>::" + m)
        if not ck.anchor(rid, "Metadata::" + m, b):
            continue
        rets = [show(p.ret) for p in PathEval(b).run() if p.end == "return"]
        key = "Metadata::%s asks its kind the same question" % m
        if rets == ["%s(arg1.kind)" % m]:
            ck.ok(rid, key, fn=b.path)
        else:
            ck.bad(rid, key, where(b.raw["sp"]), "returns %s" % rets, fn=b.path)


def targets_builder_rule(ck, F):
    P = "tracing_subscriber::filter::targets::Targets::"
    want = {"with_target": ["Option::Some{into(arg2)}", "default()", "into(arg3)"], "with_default": ["Option::None{}", "default()", "into(arg2)"]}
    for m, args in want.items():
        b = F.body(P + m)
        if not ck.anchor("C11.R19", "Targets::" + m, b):
            continue
        key = "Targets::%s adds StaticDirective(%s)" % (m, ", ".join(args))
        problems = []
        n = 0
        for pth in PathEval(b).run():
            if pth.end != "return":
                continue
            n += 1
            news = [c for c in pth.calls if (c[1].get("path") or "").endswith("StaticDirective::new")]
            adds = [c for c in pth.calls if c[1].get("method") == "add" and "DirectiveSet" in (c[1].get("path") or "")]
            if len(news) != 1 or [show(a) for a in news[0][2]] != args:
                problems.append("builds %s" % [[show(a)[:40] for a in c[2]] for c in news])
            if len(adds) != 1 or show(adds[0][2][0]) != "arg1.0" or not show(adds[0][2][1]).startswith("new("):
                problems.append("does not add the directive to its own set exactly once")
            if pth.ret != ("arg", 1):
                problems.append("returns %s, not the extended Targets" % show(pth.ret)[:40])
        if problems or not n:
            ck.bad("C11.R19", key, where(b.raw["sp"]), "; ".join(sorted(set(problems))) or "no path", fn=b.path)
        else:
            ck.ok("C11.R19", key, fn=b.path)


def value_literal_order(ck, F, rid="C11.R22"):
    """MatchVisitor::record_u64 tests only ValueMatch::U64, record_i64 tests I64 and (converted) U64 -- R15's tables. The
    parsers of `[span{field=7}]` must therefore make `7` a U64: with i64 tried first a span that records the field as
    u64 / usize never matches the directive."""
    # (if record_u64 itself also tested the signed matcher, either order would do)
    u64_tests_i64 = False
    for i in F.impls:
        if i.get("trait") == "tracing_core::field::Visit" and "field::MatchVisitor" in i["self_ty"]:
            rb = F.body(i["methods"].get("record_u64") or "")
            if rb is not None:
                u64_tests_i64 = any("I64" in show(c[0]) for p in PathEval(rb).run() for c in p.conds)
    for n in ("parse_regex", "parse_non_regex"):
        b = F.body(E + "field::ValueMatch::" + n)
        if not ck.anchor(rid, "ValueMatch::" + n, b):
            continue
        if u64_tests_i64:
            ck.ok(rid, "ValueMatch::%s: integer literal order is immaterial (record_u64 tests both matchers)" % n, fn=b.path)
            continue
        seq = []
        for x in [b] + sorted(F.closures_of(b), key=lambda c: c.path):
            for bb, t in x.calls():
                if t["callee"].get("method") == "parse" and t["callee"].get("targs"):
                    seq.append(t["callee"]["targs"][0].rsplit("::", 1)[-1])
        key = "ValueMatch::%s tries the unsigned integer before the signed one" % n
        if "u64" in seq and "i64" in seq and seq.index("u64") < seq.index("i64") and ("f64" not in seq or seq.index("i64") < seq.index("f64")) and (seq[:1] == ["bool"]):
            ck.ok(rid, key, fn=b.path, detail=seq)
        else:
            ck.bad(rid, key, where(b.raw["sp"]), "literal types are tried in the order %s: a non-negative literal becomes a signed (or float) matcher, which MatchVisitor::record_u64 "
                   "never tests -- `[conn{id=7}]=debug` no longer applies to a span that records `id` as u64 / usize" % seq, fn=b.path)


def span_matcher_level_rule(ck, F):
    lv = next((b for b in F.body_list if b.path.endswith("MatchSet::<tracing_subscriber::filter::env::field::SpanMatch>::level")), None)
    if ck.anchor("C11.R20", "SpanMatcher::level", lv):
        rets = [show(p.ret) for p in PathEval(lv).run() if p.end == "return"]
        key = "SpanMatcher::level = max over the matched field matchers, else base_level"
        ok = len(rets) == 1 and rets[0].startswith("unwrap_or(max(filter_map(iter(") and "SpanMatch::filter" in rets[0] and rets[0].endswith("arg1.base_level)")
        # equivalent spellings: fold with max / map(..).max()
        if not ok and len(rets) == 1:
            ok = ("max(" in rets[0] or "Ord::max" in rets[0]) and "field_matches" in rets[0] and "base_level" in rets[0] and "find_map(" not in rets[0] and ".next(" not in rets[0]
        how = "iterator max"
        if not ok:
            # written as a loop with a running maximum: every matcher's filter() is consulted inside a cycle, the running
            # value is compared against it as LevelFilters, and base_level is the fallback. (Acyclic path evaluation does
            # not see through the loop; which side of that comparison wins is not decided for this spelling.)
            def in_cycle(bb):
                return any(bb in lv.reachable(n) for n in lv.succ(bb, False))
            filt = [bb for bb, t in lv.calls() if str(t["callee"].get("path", "")).endswith("SpanMatch::filter") and in_cycle(bb)]
            CMP = ("gt", "lt", "ge", "le", "max", "cmp", "partial_cmp")
            cmpc = [bb for bb, t in lv.calls() if t["callee"].get("method") in CMP and "LevelFilter" in str(t["callee"].get("targs")) + str(t["callee"].get("path")) and in_cycle(bb)]
            from rulekit.query import iter_places
            from rulekit.model import proj_names
            base = any("base_level" in proj_names(x[3].get("p", [])) for x in iter_places(lv))
            if filt and cmpc and base:
                ok, how = True, "loop with a running LevelFilter comparison (polarity of the comparison not decided for this spelling)"
        if ok:
            ck.ok("C11.R20", key, fn=lv.path, detail=how)
        else:
            ck.bad("C11.R20", key, where(lv.raw["sp"]), "level is %s: with several matched value directives of different levels the one that happens to come first decides" % [r[:120] for r in rets], fn=lv.path)
    fl = F.body(E + "field::SpanMatch::filter")
    if ck.anchor("C11.R20", "SpanMatch::filter", fl):
        rows = {}
        for p in PathEval(fl).run():
            if p.end == "return":
                c = [v for t, v in ((show(c[0]), c[1]) for c in p.conds) if t.startswith("is_matched(")]
                rows[bool(c and c[0] != 0)] = show(p.ret)
        key = "SpanMatch::filter yields its level exactly when every field matched"
        if rows == {True: "Option::Some{arg1.level}", False: "Option::None{}"}:
            ck.ok("C11.R20", key, fn=fl.path)
        else:
            ck.bad("C11.R20", key, where(fl.raw["sp"]), "rows %s" % rows, fn=fl.path)
