"""C15 — the non-blocking writer neither loses, duplicates nor reorders accepted lines.

R1 one consumer, one queue     R2 accept paths of Write::write      R3 exactly one whole write per line (siblings agree)
R4 error discipline            R5 shutdown ordering; bounded waits   R6 saturating dropped-lines counter
"""
from rulekit import Facts, where
from rulekit.sym import PathEval, show
from rulekit.query import ordering_of, ORD_RANK

A = "tracing_appender::"
NB = A + "non_blocking::"
WK = A + "worker::Worker::<T>::"
STATE = {0: "Empty", 1: "Disconnected", 2: "Continue", 3: "Shutdown"}


def run(ck):
    F = Facts("default")
    ck.configs.append("default")
    ck.explanation = (
        "Decision tables and ordering rules extracted from the MIR of tracing-appender's non_blocking/worker modules: a "
        "single receiver moved into a single worker thread; the guard's sender is a clone of the writer's (so Shutdown "
        "queues behind accepted lines); Write::write enqueues the whole buffer exactly once per call (lossy: try_send, "
        "count exactly the failures; non-lossy: blocking send, error surfaced) and reports buf.len(); the two receive "
        "handlers agree and write each Line with exactly one write_all; an I/O error propagates out of one `work` batch "
        "and the loop continues; flush on every Ok batch; the writer is dropped before the shutdown rendezvous; the "
        "guard sends Shutdown on the line channel, then the rendezvous, then joins. The two bounded waits in the guard's "
        "drop are reported as the known finding F8. FIFO order itself is crossbeam's contract.")
    ck.assumptions += ["crossbeam_channel bounded channels are FIFO and deliver each message once",
                       "the underlying writer's write_all is whole-or-error"]
    ck.rule("C15.R1", "one queue, one consumer, guard shares the line channel", floor=3)
    ck.rule("C15.R2", "Write::write: whole buffer enqueued once; lossy counts exactly the failures", floor=4)
    ck.rule("C15.R3", "each received Line is written with exactly one write_all; handlers agree", floor=8)
    ck.rule("C15.R4", "an I/O error affects only its batch; flush on every Ok batch", floor=3)
    ck.rule("C15.R5", "shutdown ordering; guard drop waits for the worker", floor=4)
    ck.rule("C15.R6", "dropped-lines counter saturates and loses no increment", floor=3)
    ck.rule("C15.R8", "the mode the writer runs in is the one configured: no builder call puts `lossy` or the queue capacity back to its default, and finish() hands "
            "both to the writer it builds", floor=4)
    ck.rule("C15.R7", "a line accepted behind the shutdown marker is still written (the worker drains the channel before it releases the writer)", floor=1)
    r1(ck, F)
    r2(ck, F)
    r3(ck, F)
    r4(ck, F)
    r7(ck, F)
    r8(ck, F)
    r5(ck, F)
    r6(ck, F)


def r1(ck, F):
    b = F.body(NB + "NonBlocking::create")
    if not ck.anchor("C15.R1", "NonBlocking::create", b):
        return
    bounded = [(bb, t) for bb, t in b.calls() if t["callee"].get("path") == "crossbeam_channel::channel::bounded"]
    wt = [(bb, t) for bb, t in b.calls() if t["callee"].get("path") == WK + "worker_thread"]
    ok = len(bounded) == 2 and len(wt) == 1
    if ok:
        # first bounded(limit) -> (sender, receiver); Worker::new(receiver..); guard gets sender.clone(); NonBlocking.channel = sender
        lim = b.origin(bounded[0][1]["argv"][0])
        zero = b.origin(bounded[1][1]["argv"][0])
        ok = lim[0] == "arg" and zero[0] == "const" and zero[1].get("int") == 0
    if ok:
        ck.ok("C15.R1", "create: one line queue (capacity = limit), one rendezvous channel, one worker thread", fn=b.path)
    else:
        ck.bad("C15.R1", "create: one line queue (capacity = limit), one rendezvous channel, one worker thread", where(b.raw["sp"]),
               "bounded calls %d, worker_thread calls %d" % (len(bounded), len(wt)), fn=b.path)
    # guard's sender is a clone of the channel stored in NonBlocking
    gnew = [(bb, t) for bb, t in b.calls() if t["callee"].get("path") == NB + "WorkerGuard::new"]
    ok = len(gnew) == 1
    if ok:
        s = b.origin(gnew[0][1]["argv"][1])
        ok = s[0] == "call" and s[2]["callee"].get("method") == "clone"
        if ok:
            src = b.origin(s[2]["argv"][0])
            ps = [p for p in PathEval(b).run() if p.end == "return"]
            chan = None
            if ps and ps[0].ret[0] == "agg":
                nbv = ps[0].ret[3][0]
                if nbv[0] == "agg":
                    adt = F.adts[NB + "NonBlocking"]
                    names = [f["name"] for f in adt["variants"][0]["fields"]]
                    chan = dict(zip(names, nbv[3])).get("channel")
            ok = chan is not None and chan[0] == "field" and chan[1][0] == "call" and chan[1][3] == bounded[0][0]
            ok = ok and src[0] == "call" and src[1] == bounded[0][0]
    if ok:
        ck.ok("C15.R1", "the guard's Shutdown travels on the same FIFO as the lines", fn=b.path)
    else:
        ck.bad("C15.R1", "the guard's Shutdown travels on the same FIFO as the lines", where(b.raw["sp"]),
               "WorkerGuard's sender is not a clone of the NonBlocking channel: Shutdown could overtake accepted lines", fn=b.path)
    clones = [x.path for x in F.body_list if x.crate == "tracing_appender" for bb, t in x.calls()
              if t["callee"].get("method") == "clone" and "Receiver<" in " ".join(t["callee"].get("targs", []))]
    if not clones:
        ck.ok("C15.R1", "the Receiver is never cloned (single consumer)")
    else:
        ck.bad("C15.R1", "the Receiver is never cloned (single consumer)", clones[0], "Receiver cloned in %s" % clones)


def r2(ck, F):
    b = F.body("<%sNonBlocking as std::io::Write>::write" % NB)
    if not ck.anchor("C15.R2", "NonBlocking::write", b):
        return
    rows = {}
    for p in PathEval(b).run():
        if p.end != "return":
            continue
        lossy = [c for c in p.conds if show(c[0]) == "arg1.is_lossy"]
        if not lossy:
            continue
        is_lossy = lossy[0][1] != 0
        sends = [c for c in p.calls if c[1].get("method") in ("send", "try_send", "send_timeout")]
        incr = sum(1 for c in p.calls if c[1].get("method") == "incr_saturating")
        failed = None
        for c in p.conds:
            t = show(c[0])
            if t.startswith("is_err(try_send("):
                failed = c[1] != 0
            if t.startswith("discr(send("):
                failed = c[1] == 1
        rows[(is_lossy, failed)] = (sends, incr, p.ret)
    problems = []
    for (is_lossy, failed), (sends, incr, ret) in rows.items():
        if len(sends) != 1:
            problems.append("%d enqueue operations on one path" % len(sends))
            continue
        m = sends[0][1].get("method")
        msg = sends[0][2][1]
        whole = msg[0] == "agg" and msg[2] == "Line" and show(msg[3][0]) == "to_vec(arg2)"
        if not whole:
            problems.append("the enqueued message is %s, not Line(buf.to_vec())" % show(msg))
        if is_lossy:
            if m != "try_send":
                problems.append("lossy mode uses %s (must not block)" % m)
            if incr != (1 if failed else 0):
                problems.append("lossy: dropped counter incremented %d times when try_send %s" % (incr, "failed" if failed else "succeeded"))
            if show(ret) != "Result::Ok{len(arg2)}":
                problems.append("lossy: returns %s (expected Ok(buf.len()))" % show(ret))
        else:
            if m != "send":
                problems.append("non-lossy mode uses %s (must wait, never drop)" % m)
            if incr:
                problems.append("non-lossy mode counts drops")
            if failed and not show(ret).startswith("Result::Err"):
                problems.append("non-lossy: a failed send returns %s" % show(ret))
            if failed is False and show(ret) != "Result::Ok{len(arg2)}":
                problems.append("non-lossy: a successful send returns %s" % show(ret))
    if set(rows) != {(True, True), (True, False), (False, True), (False, False)}:
        problems.append("decision table incomplete: %s" % sorted(rows))
    for k in sorted(rows):
        key = "write[lossy=%s, send %s]" % (k[0], "fails" if k[1] else "succeeds")
        mine = [x for x in problems]
        if not problems:
            ck.ok("C15.R2", key, fn=b.path)
    if problems:
        ck.bad("C15.R2", "NonBlocking::write accept table", where(b.raw["sp"]), "; ".join(sorted(set(problems))), fn=b.path)


def handler_table(F, name):
    b = F.body(WK + name)
    if b is None:
        return None, None
    rows = {}
    for p in PathEval(b).run():
        if p.end != "return":
            continue
        ds = [(show(c[0]), c[1]) for c in p.conds if c[0][0] == "discr"]
        writes = [c for c in p.calls if c[1].get("trait") == "std::io::Write"]
        kind = None
        if ds and ds[0] == ("discr(arg2)", 0):
            kind = "Line" if len(ds) > 1 and ds[1][1] == 0 else "Shutdown"
        elif ds and ds[0][0] == "discr(arg2)":
            kind = "Err" + (":%s" % ds[1][1] if len(ds) > 1 else "")
        wr_ok = None
        if kind == "Line":
            br = [c for c in p.conds if show(c[0]).startswith("discr(branch(write_all(")]
            wr_ok = bool(br) and br[0][1] == 0
        rows[(kind, wr_ok)] = ([(c[1].get("method"), show(c[2][1]) if len(c[2]) > 1 else "") for c in writes], show(p.ret))
    return b, rows


def r3(ck, F):
    tabs = {}
    for name in ("handle_recv", "handle_try_recv"):
        b, rows = handler_table(F, name)
        if not ck.anchor("C15.R3", name, b):
            continue
        tabs[name] = rows
        for (kind, wr_ok), (writes, ret) in sorted(rows.items(), key=repr):
            key = "%s[%s%s]" % (name, kind, "" if wr_ok is None else (", write ok" if wr_ok else ", write fails"))
            if kind == "Line":
                good = len(writes) == 1 and writes[0][0] == "write_all" and "Line" in writes[0][1]
                good = good and (ret == "Result::Ok{WorkerState::Continue{}}" if wr_ok else ret.startswith("from_residual("))
                if good:
                    ck.ok("C15.R3", key, fn=b.path, detail=writes)
                else:
                    ck.bad("C15.R3", "%s: Line handling" % name, where(b.raw["sp"]), "Line -> writes %s, returns %s (expected exactly one write_all(msg); Continue or the error)" % (writes, ret), fn=b.path)
            else:
                if not writes:
                    ck.ok("C15.R3", key, fn=b.path, detail=ret)
                else:
                    ck.bad("C15.R3", "%s: non-Line handling" % name, where(b.raw["sp"]), "%s writes %s" % (kind, writes), fn=b.path)
    if len(tabs) == 2:
        a = {k: v for k, v in tabs["handle_recv"].items() if k[0] in ("Line", "Shutdown")}
        c = {k: v for k, v in tabs["handle_try_recv"].items() if k[0] in ("Line", "Shutdown")}
        if a == c:
            ck.ok("C15.R3", "handle_recv and handle_try_recv agree on Line/Shutdown")
        else:
            ck.bad("C15.R3", "handle_recv and handle_try_recv agree on Line/Shutdown", WK, "%s vs %s" % (a, c))


def r4(ck, F):
    w = F.body(WK + "work")
    if ck.anchor("C15.R4", "Worker::work", w):
        ok = True
        why = ""
        n_ok = 0
        ws = F.adts.get("tracing_appender::worker::WorkerState")
        terminal_idx = {i for i, v in enumerate(ws["variants"]) if v["name"] in ("Shutdown", "Disconnected")} if ws else set()
        # `state == WorkerState::X` compares with a promoted `&WorkerState::X`: which variant each promoted stands for
        prom_variant = {}
        for pr in w.raw.get("promoted", []):
            for st_ in pr.get("stmts", []):
                agg = (st_.get("rv") or {}).get("agg") or {}
                if agg.get("adt") == "tracing_appender::worker::WorkerState":
                    prom_variant[pr["idx"]] = agg.get("variant")
        import re as _re
        flush_err_paths = 0
        for p in PathEval(w).run():
            if p.end != "return":
                continue
            r = show(p.ret)
            flushed = any(c[1].get("method") == "flush" for c in p.calls)
            # which state the batch ended in, when the path branches on it (discriminant of WorkerState)
            st = [c[1] for c in p.conds if show(c[0]).startswith("discr((branch(handle_") and isinstance(c[1], int)]
            terminal = bool(st) and st[-1] in terminal_idx
            # ... or compares it with named variants (`state == WorkerState::Shutdown || ..`)
            ruled_out = set()
            for c in p.conds:
                m = _re.match(r"^(eq|ne)\(\(branch\(handle_.*, (promoted\[\d+\])\)$", show(c[0]))
                if m and prom_variant.get(m.group(2)) and c[1] is not None:
                    is_eq = (m.group(1) == "eq") == (c[1] != 0)
                    if is_eq:
                        terminal = prom_variant[m.group(2)] in ("Shutdown", "Disconnected")
                    else:
                        ruled_out.add(prom_variant[m.group(2)])
            non_terminal = (bool(st) and st[-1] not in terminal_idx) or {"Shutdown", "Disconnected"} <= ruled_out
            if r.startswith("from_residual((branch(flush(") or r.startswith("map(flush(arg1.writer)") and "discr(flush(" in " ".join(show(c[0]) for c in p.conds):
                flush_err_paths += 1
                if not non_terminal:
                    ok, why = False, ("the end-of-batch flush error is returned on a path that has not established the batch ended in a non-terminal state: a flush "
                                      "error at shutdown hides Shutdown/Disconnected from the worker loop, which keeps waiting (or spins) and never drops the writer")
            if r.startswith("Result::Ok"):
                n_ok += 1
                if not flushed:
                    ok, why = False, "an Ok batch returns without flushing the writer"
            elif r.startswith("from_residual(") or r.startswith("map(flush(arg1.writer)"):
                # a handler's error, or the flush's own error, propagates -- but never instead of a terminal state
                if terminal:
                    ok, why = False, "a batch that ended in Shutdown/Disconnected returns the flush error instead of that state"
                if r.startswith("map(flush("):
                    n_ok += 1
            else:
                ok, why = False, "unexpected return %s" % r
        # "stop" must reach the worker loop whatever the final flush does: with `flush()?` before `Ok(state)` a failing
        # flush turns Shutdown / Disconnected into Err, which the loop treats as "carry on": the writer is never released
        # errors of the handlers propagate (`?`): the branch on their result leads to from_residual
        if ok and n_ok:
            ck.ok("C15.R4", "work: flush on every batch; errors propagate, but never instead of Shutdown/Disconnected", fn=w.path)
        else:
            ck.bad("C15.R4", "work: flush on every batch; errors propagate, but never instead of Shutdown/Disconnected", where(w.raw["sp"]), why or "no Ok path", fn=w.path)
        # loop shape: blocking recv first, then try_recv while Continue
        names = [t["callee"].get("method") for bb, t in w.calls()]
        if names.count("recv") == 1 and names.count("try_recv") == 1:
            ck.ok("C15.R4", "work: one blocking recv per batch, then try_recv until not Continue", fn=w.path)
        else:
            ck.bad("C15.R4", "work: one blocking recv per batch, then try_recv until not Continue", where(w.raw["sp"]), "calls %s" % names, fn=w.path)
    t = F.body(WK + "worker_thread::{closure#0}")
    if ck.anchor("C15.R4", "worker_thread loop", t):
        rows = {}
        for p in PathEval(t).run():
            d = [c for c in p.conds if show(c[0]).startswith("discr(work(")]
            if not d or p.end == "unreachable":
                continue
            if d[0][1] == 1:
                rows["Err"] = p.end
            else:
                st = [c for c in p.conds if show(c[0]).startswith("discr((work(")]
                if st:
                    rows[STATE.get(st[0][1], st[0][1])] = p.end
        want = {"Err": "loop", "Continue": "loop", "Empty": "loop", "Shutdown": "return", "Disconnected": "return"}
        if rows == want:
            ck.ok("C15.R4", "worker loop: an Err batch continues the loop; only Shutdown/Disconnected end it", fn=t.path, detail=rows)
        else:
            ck.bad("C15.R4", "worker loop: an Err batch continues the loop; only Shutdown/Disconnected end it", where(t.raw["sp"]), "table %s" % rows, fn=t.path)


def r5(ck, F):
    t = F.body(WK + "worker_thread::{closure#0}")
    if ck.anchor("C15.R5", "worker_thread loop", t):
        ok = True
        for p in PathEval(t).run():
            if p.end != "return":
                continue
            seq = [c[1].get("method") or c[1].get("path") for c in p.calls]
            drops = [i for i, c in enumerate(p.calls) if c[1].get("path") == "core::mem::drop"]
            recvs = [i for i, c in enumerate(p.calls) if c[1].get("method") == "recv"]
            if not drops or not recvs or drops[0] > recvs[0]:
                ok = False
        if ok:
            ck.ok("C15.R5", "worker: the writer is dropped before the shutdown rendezvous", fn=t.path)
        else:
            ck.bad("C15.R5", "worker: the writer is dropped before the shutdown rendezvous", where(t.raw["sp"]), "drop(self.writer) does not precede shutdown.recv() on the exit path", fn=t.path)
    d = F.body("<%sWorkerGuard as core::ops::drop::Drop>::drop" % NB)
    if not ck.anchor("C15.R5", "Drop for WorkerGuard", d):
        return
    joined = 0
    order_ok = True
    timeouts = {}
    for p in PathEval(d).run():
        if p.end != "return":
            continue
        st = [c for c in p.calls if c[1].get("method") == "send_timeout"]
        recv_fields_ = [show(c[2][0]) for c in st]
        j = [c for c in p.calls if c[1].get("method") == "join"]
        if j:
            joined += 1
            if recv_fields_[:2] != ["arg1.sender", "arg1.shutdown"]:
                order_ok = False
        # classify the bounded-wait arms: a path that returns without join although Shutdown was (or could not be) delivered in time
        txt = [(show(c[0]), c[1]) for c in p.conds]
        if len(st) == 1 and not j:
            # first send_timeout failed
            inner = [v for s, v in txt if "as Err" in s]
            if inner and inner[0] == 0:
                timeouts["line-channel"] = "the Shutdown message could not be queued within its send_timeout"
        if len(st) == 2 and not j:
            inner = [v for s, v in txt if "arg1.shutdown" in s and "as Err" in s]
            if inner and inner[0] == 0:
                timeouts["rendezvous"] = "the worker did not reach the shutdown rendezvous within its send_timeout"
    if joined and order_ok:
        ck.ok("C15.R5", "guard drop: Shutdown on the line channel, then rendezvous, then join", fn=d.path)
    else:
        ck.bad("C15.R5", "guard drop: Shutdown on the line channel, then rendezvous, then join", where(d.raw["sp"]), "no joining path or wrong order", fn=d.path)
    for what in sorted(timeouts):
        ck.bad("C15.R5", "guard-drop-bounded-wait:%s" % what, where(d.raw["sp"]),
               "Drop for WorkerGuard gives up after a bounded wait (%s): lines accepted before the drop may be written after it returns, or never if the process exits" % timeouts[what], fn=d.path)
    if not timeouts:
        ck.ok("C15.R5", "guard drop has no bounded-wait arm", fn=d.path)


def r6(ck, F):
    b = F.body(NB + "ErrorCounter::incr_saturating")
    if not ck.anchor("C15.R6", "incr_saturating", b):
        return
    names = [t["callee"].get("method") for bb, t in b.calls()]
    early = False
    for p in PathEval(b).run():
        if p.end == "return" and any("MAX" in show(c[0]) and c[1] != 0 for c in p.conds) and not any(c[1].get("method") == "compare_exchange" for c in p.calls):
            early = True
    if "saturating_add" in names and "compare_exchange" in names and "fetch_add" not in names:
        ck.ok("C15.R6", "CAS loop with saturating_add (never wraps)", fn=b.path)
    else:
        ck.bad("C15.R6", "CAS loop with saturating_add (never wraps)", where(b.raw["sp"]), "calls %s" % names, fn=b.path)
    # every dropped line is counted: the only ways out of the loop are a successful CAS or a saturated counter; a
    # failed CAS retries with the value it observed
    key = "a failed compare_exchange retries with the observed value (no increment is lost)"
    if "fetch_update" in names and "compare_exchange" not in names:
        ck.ok("C15.R6", key, fn=b.path, detail="fetch_update idiom")
    else:
        lost = []
        retried = False
        for p in PathEval(b, max_visits=2).run():
            cas = [c for c in p.calls if c[1].get("method") == "compare_exchange"]
            if not cas:
                continue
            failed_last = False
            for c in cas:
                tests = [x for x in p.conds if x[0][0] == "discr" and x[0][1] == c[3]]
                failed_last = bool(tests) and tests[0][1] == 1
            if p.end == "return" and failed_last:
                sat = any("MAX" in show(x[0]) and x[1] != 0 for x in p.conds[-2:])
                if not sat:
                    lost.append("returns after a failed compare_exchange without retrying")
            if len(cas) >= 2:
                first, second = cas[0], cas[1]
                exp = show(second[2][1]) if len(second[2]) > 1 else ""
                if "compare_exchange(" in exp and "Err" in exp:
                    retried = True
                elif exp:
                    lost.append("the retry compares against %s, not the value the failed CAS observed" % exp[:80])
        if lost or not retried:
            ck.bad("C15.R6", key, where(b.raw["sp"]), "; ".join(sorted(set(lost))) or "no retry path found: a concurrent increment makes this one vanish", fn=b.path)
        else:
            ck.ok("C15.R6", key, fn=b.path)
    if early:
        ck.ok("C15.R6", "early return at usize::MAX", fn=b.path)
    else:
        ck.bad("C15.R6", "early return at usize::MAX", where(b.raw["sp"]), "no early return when saturated", fn=b.path)


def r8(ck, F):
    """`.lossy(false).thread_name("x")` must still be non-lossy: each consuming setter returns the builder it was given with
    its own field assigned, or rebuilds it carrying every other field over."""
    from rulekit.query import builder_carry_over
    NB = "tracing_appender::non_blocking::NonBlockingBuilder::"
    builder_carry_over(ck, F, "C15.R8", (NB,))
    adt = F.adts.get("tracing_appender::non_blocking::NonBlockingBuilder")
    fields = [f["name"] for f in adt["variants"][0]["fields"]] if adt else []
    for b in F.body_list:
        if not b.path.startswith(NB) or b.argc < 2 or str(b.raw["locals"][0]) != str(b.raw["locals"][1]):
            continue
        key = "NonBlockingBuilder::%s returns the builder it was given, one option set" % b.path.rsplit("::", 1)[-1]
        rets = [p.ret for p in PathEval(b).run() if p.end == "return"]
        if rets and all(r is not None and (r == ("arg", 1) or (r[0] == "agg" and r[1] == "partial") or (r[0] == "agg" and "NonBlockingBuilder" in str(r[1]))) for r in rets):
            # a whole-struct aggregate was already judged by builder_carry_over; `mut self` + field assignment keeps the rest
            writes = {x.get("n") for i, j, st in b.stmts() if st["k"] == "assign" and st["lhs"].get("l") == 1 for x in st["lhs"].get("p", []) if isinstance(x, dict) and "n" in x}
            if len(writes) <= 1:
                ck.ok("C15.R8", key, fn=b.path, detail=sorted(w for w in writes if w))
            else:
                ck.bad("C15.R8", key, where(b.raw["sp"]), "assigns %s" % sorted(w for w in writes if w), fn=b.path)
        else:
            ck.bad("C15.R8", key, where(b.raw["sp"]), "returns %s" % [show(r)[:60] for r in rets], fn=b.path)
    fin = F.body(NB + "finish")
    if ck.anchor("C15.R8", "NonBlockingBuilder::finish", fin):
        calls = [t for bb, t in fin.calls() if str(t["callee"].get("path", "")).endswith("NonBlocking::create")]
        key = "finish() builds the writer from the configured capacity, mode and thread name"
        if len(calls) == 1:
            src = []
            for a in calls[0]["argv"][1:]:
                o = fin.origin(a)
                hops = 0
                while o[0] == "call" and o[2]["argv"] and hops < 3:
                    o = fin.origin(o[2]["argv"][0]); hops += 1
                src.append(o[2][0].get("n") if o[0] == "arg" and len(o) > 2 and o[2] else o[0])
            if set(src) >= {"buffered_lines_limit", "is_lossy", "thread_name"} and len(src) == len(set(src)):
                ck.ok("C15.R8", key, fn=fin.path, detail=src)
            else:
                ck.bad("C15.R8", key, where(fin.raw["sp"]), "NonBlocking::create is given %s" % src, fn=fin.path)
        else:
            ck.bad("C15.R8", key, where(fin.raw["sp"]), "%d NonBlocking::create calls" % len(calls), fn=fin.path)


def r7(ck, F):
    """WorkerGuard::drop sends Msg::Shutdown through the *same* channel as the lines. NonBlocking::write keeps accepting
    lines (returning Ok, counting nothing as dropped) until the receiver is gone, so a line enqueued after the marker --
    by a thread still logging while the guard is dropped -- is "accepted" yet sits behind the point where the worker
    stops. Unless the worker drains what is left after seeing Shutdown, such lines are silently discarded."""
    t = F.body(WK + "worker_thread::{closure#0}")
    w = F.body(WK + "work")
    if not (ck.anchor("C15.R7", "worker_thread loop", t) and ck.anchor("C15.R7", "Worker::work", w)):
        return
    drains = [tt["callee"].get("method") for x in (t, w) for bb, tt in x.calls() if tt["callee"].get("method") in ("try_iter", "drain", "recv_timeout", "iter")]
    # does the batching loop keep receiving after a Shutdown? (it loops only while the state is Continue)
    key_ok = "the worker drains the channel after the shutdown marker"
    if drains:
        ck.ok("C15.R7", key_ok, fn=t.path, detail=drains)
    else:
        ck.bad("C15.R7", "lines accepted behind the shutdown marker are discarded", where(t.raw["sp"]),
               "work() stops receiving at Msg::Shutdown and the worker thread then drops the receiver: nothing drains the lines that NonBlocking::write accepted after the "
               "guard queued the marker (they are neither written nor counted as dropped)", fn=t.path)
