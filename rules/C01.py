"""C01 — caches never change what a collector's own filter decides.

Invariant argument (DESIGN §2 C01): if (a) every live collector went through register_dispatch, (b) a
callsite's cached interest is the Interest::and-fold over all live dispatchers with `sometimes` on any
disagreement, (c) MAX_LEVEL is the max over live hints with "no hint" = TRACE, and (d) the macro guard is
exactly static ∧ max ∧ interest≠never ∧ (always ∨ current.enabled()), then the shortcuts only skip work.
Each premise is a shape of code decided here.
"""
from rulekit.query import rebuild_interest_path
from rulekit import Facts, where, proj_names
from rulekit.sym import PathEval, show
from rulekit.query import guards_of, ordering_of, ORD_RANK, const_int, recv_fields, field_users
from rules import fxlib

CORE = "tracing_core::"
CS = "tracing_core::callsite::inner::"
MS = "tracing::__macro_support::MacroCallsite"
INTEREST = "tracing_core::collect::Interest"


def run(ck):
    ck.explanation = (
        "Every premise of the invariant argument is extracted from MIR and compared with its specification: R1 the "
        "exact guard (order, operands, same callsite static, same level constant) in front of every delivery call in "
        "the expansion of every macro arm (fixture crate using the real macros; arm coverage enforced); R2 the "
        "is_enabled table; R3 the three interest byte tables are mutually inverse; R4 Interest::and over {N,S,A}^2; "
        "R5 the fold over all live dispatchers and the max-level recomputation; R6 every new collector is "
        "registered; R7 who may write the caches; R8 (thorough) the compile-time maximum level table under every "
        "feature. These are all paths of the named functions, i.e. every history; no execution is involved.")
    ck.assumptions += ["collectors' own register_callsite/max_level_hint are self-consistent (assumed by the property)",
                       "thread interleavings of registration are covered structurally under C04 only"]
    ck.rule("C01.R12", "`level <= max level` means what it says: the Level/LevelFilter encoding, comparison operators and set_max/current (as C19.R1/R2/R4)", floor=60)
    ck.rule("C01.R1", "macro guard == static ∧ max ∧ interest≠never ∧ is_enabled, nothing else, before every delivery", floor=300)
    ck.rule("C01.R1c", "every terminal macro arm is exercised by a fixture function", floor=9)
    ck.rule("C01.R2", "MacroCallsite::is_enabled == always ∨ current.enabled(self.meta)", floor=2)
    ck.rule("C01.R3", "interest byte tables (interest/register/set_interest) mutually inverse", floor=8)
    ck.rule("C01.R4", "Interest::and: equal -> same, different -> sometimes", floor=2)
    ck.rule("C01.R5", "cached interest/max level folded over all live dispatchers", floor=6)
    ck.rule("C01.R15", "every rebuild recomputes the max level and walks the callsites, unconditionally (std and no_std)", floor=2)
    ck.rule("C01.R14", "where first-hit registration consults the global default (no_std), installing a global default re-evaluates the cached interests", floor=1)
    ck.rule("C01.R13", "the no_std registry re-evaluates what the std one does (interests and max level from the same calls; as C04.R7)", floor=4)
    ck.rule("C01.R6", "every new collector is registered (register_dispatch)", floor=6)
    ck.rule("C01.R7", "who may write MAX_LEVEL / callsite interest", floor=4)
    ck.rule("C01.R16", "first hit of a callsite: only the winner of the registration CAS registers; a loser answers `sometimes`, never a definitive cached value (as C04.R4)", floor=4)
    ck.rule("C01.R17", "`the emitting thread's current collector` is resolved as C02 says: get_default's fast path iff no scope exists anywhere, else the thread's scoped default or the published global one (as C02.R2/R3/R4)", floor=10)
    ck.rule("C01.R18", "no registered callsite is lost to later re-evaluations: the registry's lock-free push (as C04.R3)", floor=5)
    ck.rule("C01.R19", "the questions the macros ask their Dispatch are the collector's: Dispatch::enabled / register_callsite / max_level_hint forward 1:1 (as C09.R4)", floor=3)
    ck.rule("C01.R20", "the level comparisons in front of a collector (callsite level vs static / published maximum) use a correct total order (as C19.R1/R2/R4)", floor=60)
    ck.rule("C01.R8", "STATIC_MAX_LEVEL table under each max_level feature, each release_max_level feature and pairs of both, with and without debug assertions", floor=30)
    ck.rule("C01.R11", "collector wrappers forward the interest / enabled / hint questions to the wrapped collector (as C09.R1/R2)", floor=20)
    ck.rule("C01.R10", "interest rebuilds, collector registration and first-hit registration are serialised by the registry lock (as C04.R1)", floor=3)
    ck.rule("C01.R9", "the callsite registry never loses a registered callsite (lock-free push/walk, as C04.R3)", floor=5)
    F = Facts("default")
    ck.configs.append("default")
    from rules import C19
    C19.order_rules(ck, F, "C01.R12")
    # R5/R6 re-evaluate "every registered callsite": a callsite dropped from the list keeps its first cached interest
    # forever, so the list's push (link, CAS, retry from the observed head) and walk are premises of this property
    from rules import C04
    C04.r3(ck, F, rid="C01.R9")
    # ... and a rebuild must not run concurrently with a registration or another rebuild (C04.R1's critical sections)
    C04.r1(ck, F, rid="C01.R10")
    # without std the same re-evaluation (interests *and* the max level) must happen: sibling agreement (C04.R7)
    C04.r7(ck, F, rid="C01.R13")
    install_reevaluates(ck)
    rebuild_unconditional(ck)
    # a collector behind Box/Arc/Layered/... must be asked itself: a wrapper that falls back to the trait default for
    # register_callsite / enabled / max_level_hint caches an interest the collector never gave (C09.R1/R2, instantiated)
    from rules import C09
    C09.wrapper_rules(ck, F, rids={"R0": "C01.R11", "R1": "C01.R11", "R2": "C01.R11", "R3": "C01.R11"}, traits=["tracing_core::collect::Collect"],
                      only={"register_callsite", "enabled", "event_enabled", "max_level_hint", "on_register_dispatch"})
    r2(ck, F)
    r3(ck, F)
    r4(ck, F)
    r5(ck, F)
    r6(ck, F)
    r7(ck, F)
    from rules import C04 as _C04
    _C04.r4(ck, F, rid="C01.R16")
    _C04.r3(ck, F, rid="C01.R18")
    from rules import C19 as _C19
    _C19.order_rules(ck, F, "C01.R20")
    C09.dispatch_forwarding(ck, F, rid="C01.R19", only={"enabled", "register_callsite", "max_level_hint"})
    from rules import C02 as _C02
    _C02.r1(ck, F, rid="C01.R17")      # the count behind the fast path: one RMW per guard, symmetric
    _C02.r2(ck, F, rid="C01.R17")
    _C02.r3(ck, F, rid="C01.R17")
    _C02.r4(ck, F, rid="C01.R17")
    fx = "fx" if ck.tier == "quick" else "fx:%d:300" % ck.seed
    FX = Facts(fx)
    ck.configs.append(fx)
    r1(ck, F, FX)
    r8(ck)       # 24 one-crate builds of `tracing` (one per feature x profile), about half a second each


# ------------------------------------------------------------------ R1
def r1(ck, F, FX):
    n_by_arm = {}
    for fname, exp in sorted(FX.expect.items()):
        b = FX.body("fx_macros::macros_gen::" + fname)
        if not ck.anchor("C01.R1", fname, b):
            continue
        res = fxlib.guard_shape(FX, b, exp)
        arm = res.get("arm")
        n_by_arm.setdefault((exp["kind"], arm), 0)
        n_by_arm[(exp["kind"], arm)] += 1
        key = "%s [%s!%s]" % (fname, exp["macro"], " ".join(exp["prefix"]))
        if res["ok"]:
            ck.ok("C01.R1", key, fn=b.path, detail=res.get("detail"))
        else:
            ck.bad("C01.R1", "%s! arm macros.rs:%s: %s" % (exp["macro"], arm, res["why_key"]), where(b.raw["sp"]),
                   "%s (fixture %s: %s)" % (res["why"], fname, res.get("detail")), fn=b.path)
    # arm coverage: every `static __CALLSITE` line in tracing/src/macros.rs must have been expanded by some fixture
    arms = fxlib.terminal_arms()
    used = {a for (_, a) in n_by_arm}
    for a in arms:
        if a in used:
            ck.ok("C01.R1c", "macros.rs:%d" % a, nontrivial=False)
        else:
            ck.bad("C01.R1c", "macros.rs arm uncovered", "tracing/src/macros.rs:%d" % a,
                   "no fixture function expands the macro arm that defines `static __CALLSITE` at line %d: extend fixtures/gen_fixtures.py" % a)


# ------------------------------------------------------------------ R2
def r2(ck, F):
    b = F.body(MS + "::is_enabled")
    if not ck.anchor("C01.R2", "MacroCallsite::is_enabled", b):
        return
    rows = {}
    for p in PathEval(b).run():
        if p.end != "return":
            continue
        c = [x for x in p.conds if x[0][0] == "call" and x[0][1] == INTEREST + "::is_always" and x[0][2] == (("arg", 2),)]
        if len(c) != 1 or len(p.conds) != 1:
            rows["?"] = p
            continue
        rows[c[0][1] != 0] = p
    ok = set(rows) == {True, False}
    if ok:
        t, f = rows[True], rows[False]
        ok = t.ret[0] == "const" and t.ret[2] == 1 and not any(c[1].get("path", "").endswith("get_default") for c in t.calls)
        r = f.ret
        ok = ok and r[0] == "call" and r[1] == "tracing_core::dispatch::get_default"
    if ok:
        ck.ok("C01.R2", "is_enabled: always -> true, else ask the current default", fn=b.path)
    else:
        ck.bad("C01.R2", "is_enabled: always -> true, else ask the current default", where(b.raw["sp"]),
               "decision table is %s" % {k: show(v.ret) for k, v in rows.items()}, fn=b.path)
    cl = F.body(MS + "::is_enabled::{closure#0}")
    if ck.anchor("C01.R2", "is_enabled closure", cl):
        calls = [(bb, t) for bb, t in cl.calls() if t["callee"].get("impl_adt") == "tracing_core::dispatch::Dispatch"]
        ok = len(calls) == 1 and calls[0][1]["callee"]["method"] == "enabled"
        if ok:
            bb, t = calls[0]
            who, fields = recv_fields(cl, t, 0)
            m_who, m_fields = recv_fields(cl, t, 1)
            ok = who == 2 and m_who == 1 and m_fields[-1:] == ["meta"]
            ps = [p for p in PathEval(cl).run() if p.end == "return"]
            ok = ok and len(ps) == 1 and ps[0].ret[0] == "call" and ps[0].ret[3] == bb
        if ok:
            ck.ok("C01.R2", "the dynamic check is current.enabled(self.meta), returned unchanged", fn=cl.path)
        else:
            ck.bad("C01.R2", "the dynamic check is current.enabled(self.meta), returned unchanged", where(cl.raw["sp"]),
                   "closure does not return `default.enabled(self.meta)`", fn=cl.path)


# ------------------------------------------------------------------ R3
def r3(ck, F):
    consts = {}
    for n in ("INTEREST_NEVER", "INTEREST_SOMETIMES", "INTEREST_ALWAYS", "INTEREST_EMPTY"):
        c = F.consts.get("%s::<T>::%s" % (MS, n))
        if not ck.anchor("C01.R3", n, c):
            return
        consts[n] = c["val"]["int"]
    enc = {"never": consts["INTEREST_NEVER"], "sometimes": consts["INTEREST_SOMETIMES"], "always": consts["INTEREST_ALWAYS"]}
    if len(set(enc.values())) == 3 and consts["INTEREST_EMPTY"] not in enc.values():
        ck.ok("C01.R3", "byte constants distinct; EMPTY is none of them", detail=consts)
    else:
        ck.bad("C01.R3", "byte constants distinct; EMPTY is none of them", MS, "constants %s" % consts)

    def ctor(t):
        if t and t[0] == "call" and t[1].startswith(INTEREST + "::"):
            return t[1].rsplit("::", 1)[1]
        return None

    def load_rows(fn, allow_register):
        b = F.body(fn)
        if not ck.anchor("C01.R3", fn, b):
            return None
        rows = {}
        for p in PathEval(b).run():
            if p.end != "return":
                continue
            c = [x for x in p.conds if x[0][0] == "call" and x[0][1].endswith("::load") and x[0][2][0] == ("field", ("arg", 1), "interest")]
            if not c:
                continue
            v = c[-1][1]
            r = ctor(p.ret)
            if r is None and p.ret[0] == "call" and p.ret[1] == MS + "::register":
                r = "register()"
            rows.setdefault(v, set()).add(r)
        return rows

    # interest(): 0->never 1->sometimes 2->always other->register()
    rows = load_rows(MS + "::interest", True)
    if rows is not None:
        want = {enc["never"]: {"never"}, enc["sometimes"]: {"sometimes"}, enc["always"]: {"always"}, None: {"register()"}}
        for k, v in want.items():
            key = "interest(): byte %s -> %s" % (k, "/".join(sorted(v)))
            if rows.get(k) == v:
                ck.ok("C01.R3", key)
            else:
                ck.bad("C01.R3", key, MS + "::interest", "byte %s decodes to %s" % (k, rows.get(k)))
        extra = set(rows) - set(want)
        if extra:
            ck.bad("C01.R3", "interest(): extra rows", MS + "::interest", "rows %s" % {k: rows[k] for k in extra})
    # register(): final load 0->never 2->always other->sometimes
    rows = load_rows(MS + "::register", False)
    if rows is not None:
        want = {enc["never"]: {"never"}, enc["always"]: {"always"}, None: {"sometimes"}}
        if enc["sometimes"] in rows:
            want[enc["sometimes"]] = {"sometimes"}
            want.pop(None, None) if None not in rows else None
        for k, v in want.items():
            key = "register(): byte %s -> %s" % (k, "/".join(sorted(v)))
            if rows.get(k) == v:
                ck.ok("C01.R3", key)
            else:
                ck.bad("C01.R3", key, MS + "::register", "byte %s decodes to %s" % (k, rows.get(k)))
    # set_interest: is_never->0, is_always->2, else->1, stored to self.interest
    b = F.body("<%s as tracing_core::callsite::Callsite>::set_interest" % MS)
    if ck.anchor("C01.R3", "set_interest", b):
        got = {}
        for p in PathEval(b).run():
            if p.end != "return":
                continue
            st = [c for c in p.calls if c[1].get("method") in ("store", "swap") and c[2][0] == ("field", ("arg", 1), "interest")]
            if len(st) != 1:
                got["?"] = "no single store to self.interest"
                continue
            val = st[0][2][1]
            tests = {x[0][1].rsplit("::", 1)[1]: (x[1] != 0) for x in p.conds if x[0][0] == "call" and x[0][2] == (("arg", 2),)}
            if tests.get("is_never"):
                k = "never"
            elif tests.get("is_always"):
                k = "always"
            elif tests.get("is_sometimes"):
                k = "sometimes"
            else:
                k = "sometimes" if set(tests) >= {"is_never", "is_always"} else "?"
            got[k] = val[2] if val[0] == "const" else show(val)
        for k in ("never", "sometimes", "always"):
            key = "set_interest(%s) stores %d" % (k, enc[k])
            if got.get(k) == enc[k]:
                ck.ok("C01.R3", key)
            else:
                ck.bad("C01.R3", key, where(b.raw["sp"]), "set_interest(%s) stores %r" % (k, got.get(k)), fn=b.path)
    # initial value
    new = F.body(MS + "::<T>::new")
    if ck.anchor("C01.R3", "MacroCallsite::new", new):
        ok = False
        for p in PathEval(new).run():
            if p.end == "return" and p.ret[0] == "agg":
                f0 = p.ret[3][0]
                ok = f0[0] == "call" and f0[2] and f0[2][0][0] == "const" and (
                    f0[2][0][2] == consts["INTEREST_EMPTY"] or f0[2][0][3] == MS + "::<T>::INTEREST_EMPTY")
        if ok:
            ck.ok("C01.R3", "a fresh callsite starts EMPTY (forces registration)")
        else:
            ck.bad("C01.R3", "a fresh callsite starts EMPTY (forces registration)", where(new.raw["sp"]), "interest is not initialised to INTEREST_EMPTY")


# ------------------------------------------------------------------ R4
def r4(ck, F):
    b = F.body(INTEREST + "::and")
    if not ck.anchor("C01.R4", "Interest::and", b):
        return
    rows = {}
    for p in PathEval(b).run():
        if p.end != "return":
            continue
        c = p.conds[0] if len(p.conds) == 1 else None
        if not c or c[0][0] != "call" or not c[0][1].endswith("PartialEq::eq"):
            rows["?"] = show(p.ret)
            continue
        same_fields = {c[0][2][0], c[0][2][1]} == {("field", ("arg", 1), "0"), ("field", ("arg", 2), "0")}
        rows[(c[1] != 0, same_fields)] = p.ret
    eq = rows.get((True, True))
    ne = rows.get((False, True))
    if eq in (("arg", 1), ("arg", 2)):
        ck.ok("C01.R4", "equal interests -> that interest")
    else:
        ck.bad("C01.R4", "equal interests -> that interest", where(b.raw["sp"]), "on equality returns %s" % show(eq), fn=b.path)
    if ne and ne[0] == "call" and ne[1] == INTEREST + "::sometimes":
        ck.ok("C01.R4", "different interests -> sometimes")
    else:
        ck.bad("C01.R4", "different interests -> sometimes", where(b.raw["sp"]), "on disagreement returns %s (a collector's `always`/`never` would override another's)" % show(ne), fn=b.path)
    # InterestKind equality is the derived structural one
    der = [i for i in F.impls if i.get("trait") == "core::cmp::PartialEq" and i["self_ty"] == "tracing_core::collect::InterestKind"]
    if der and der[0]["derived"]:
        pass
    else:
        ck.bad("C01.R4", "InterestKind: derived PartialEq", "tracing_core::collect::InterestKind", "equality on InterestKind is hand-written: table no longer determined")


# ------------------------------------------------------------------ R5
def r5(ck, F, rid="C01.R5"):
    rci = F.body(CS + "rebuild_callsite_interest")
    if ck.anchor(rid, "rebuild_callsite_interest", rci):
        ps = [p for p in PathEval(rci).run() if p.end == "return"]
        ok = len(ps) == 2
        why = "expected two paths (some dispatcher / none)"
        if ok:
            for p in ps:
                si = [c for c in p.calls if c[1].get("method") == "set_interest"]
                if len(si) != 1:
                    ok, why = False, "set_interest not called exactly once on every path"
                    break
                val = si[0][2][1]
                cond = p.conds[0]
                it = cond[0][1] if cond[0][0] == "discr" else None
                # the iterator: next(filter_map(iter(arg1), closure))
                good_iter = it and it[0] == "call" and it[1].endswith("Iterator::next") and it[2][0][0] == "call" and it[2][0][1].endswith("filter_map") \
                    and it[2][0][2][0][0] == "call" and it[2][0][2][0][1].endswith("::iter") and it[2][0][2][0][2] == (("arg", 1),)
                if not good_iter:
                    ok, why = False, "the fold does not iterate over the whole dispatcher slice: %s" % show(cond[0])
                    break
                if cond[1] == 1:
                    # fold(iter, first, Interest::and)
                    if not (val[0] == "call" and val[1].endswith("Iterator::fold") and val[2][2][0] == "const" and val[2][2][2] == ("fn", INTEREST + "::and")
                            and val[2][0] == it[2][0] and val[2][1][0] == "field"):
                        ok, why = False, "interests are not combined with Interest::and over the remaining dispatchers: %s" % show(val)
                        break
                else:
                    if not (val[0] == "call" and val[1] == INTEREST + "::never"):
                        ok, why = False, "with no live dispatcher the interest is %s, expected never()" % show(val)
                        break
        if ok:
            ck.ok(rid, "callsite interest = Interest::and-fold over all dispatchers; none -> never", fn=rci.path)
        else:
            ck.bad(rid, "callsite interest = Interest::and-fold over all dispatchers; none -> never", where(rci.raw["sp"]), why, fn=rci.path)
        # the only element dropped is a dead registrar; each live one is asked register_callsite(meta of this callsite)
        # the closure handed to filter_map (in rebuild_callsite_interest itself or in a helper inlined into it)
        c0 = None
        for bb, t in rci.calls():
            if t["callee"].get("method") == "filter_map" and len(t["argv"]) == 2:
                o = rci.origin(t["argv"][1])
                cd = o[1].get("agg", {}).get("closure") if o[0] == "agg" else (o[1].get("closure") if o[0] == "const" else None)
                c0 = F.body(cd) if cd else None
        c0 = c0 or F.body(CS + "rebuild_callsite_interest::{closure#0}")
        ok = c0 is not None
        if ok:
            ps = [p for p in PathEval(c0).run() if p.end == "return"]
            ok = len(ps) == 1 and ps[0].ret[0] == "call" and ps[0].ret[1].endswith("Option::<T>::map") and \
                ps[0].ret[2][0][0] == "call" and ps[0].ret[2][0][1].endswith("Registrar::upgrade") and ps[0].ret[2][0][2] == (("arg", 2),)
            # the closure handed to map (wherever it is defined: in place, or in a helper inlined into c0)
            from rulekit.query import closure_of_term
            c00 = F.body(closure_of_term(ps[0].ret[2][1]) or "") if ok and len(ps[0].ret[2]) > 1 else None
            ok = ok and c00 is not None
            ps2 = [p for p in PathEval(c00).run() if p.end == "return"] if c00 is not None else []
            ok = ok and len(ps2) == 1 and ps2[0].ret[0] == "call" and ps2[0].ret[1] == "tracing_core::dispatch::Dispatch::register_callsite"
        if ok:
            ck.ok(rid, "filter_map drops only dead registrars; live ones are asked register_callsite", fn=c0.path)
        else:
            ck.bad(rid, "filter_map drops only dead registrars; live ones are asked register_callsite", CS + "rebuild_callsite_interest::{closure#0}",
                   "closure is not `registrar.upgrade().map(|d| d.register_callsite(meta))`")
    ri = F.body(rebuild_interest_path(F))
    rc = F.body(CS + "rebuild_interest::{closure#0}")
    if ck.anchor(rid, "rebuild_interest", ri) and ck.anchor(rid, "rebuild_interest retain closure", rc):
        # retain closure table
        rows = {}
        assigns = []
        for p in PathEval(rc).run():
            if p.end != "return":
                continue
            up = [c for c in p.conds if c[0][0] == "discr" and c[0][1][0] == "call" and c[0][1][1].endswith("Registrar::upgrade")]
            gt = [c for c in p.conds if c[0][0] == "call" and c[0][1].endswith("PartialOrd::gt")]
            # `max_level < hint` is the same test with the operands swapped: normalise to gt(hint, max_level)
            for c in p.conds:
                if c[0][0] == "call" and c[0][1].endswith("PartialOrd::lt") and len(c[0][2]) == 2:
                    t = c[0]
                    gt.append((("call", t[1][:-2] + "gt", (t[2][1], t[2][0])) + tuple(t[3:]), c[1], c[2]))
            live = bool(up) and up[0][1] == 1
            wrote = False
            for bb in p.blocks:
                for s in rc.blocks[bb]["stmts"]:
                    if s["k"] != "assign":
                        continue
                    if any(isinstance(x, dict) and x.get("n") == "max_level" for x in s["lhs"].get("p", [])):
                        wrote = True
                    elif s["lhs"].get("p") == ["*"]:
                        o = rc.origin({"copy": {"l": s["lhs"]["l"]}})
                        if o[0] == "arg" and o[1] == 1 and "max_level" in proj_names(o[2]):
                            wrote = True
            rows[(live, gt[0][1] != 0 if gt else None)] = (p.ret[2] if p.ret[0] == "const" else show(p.ret), wrote,
                                                           show(gt[0][0]) if gt else None)
        ok = True
        why = ""
        if rows.get((False, None), (None,))[0] != 0:
            ok, why = False, "a dead registrar is not removed (or a live one is): %s" % rows
        for k in ((True, True), (True, False)):
            if rows.get(k, (None,))[0] != 1:
                ok, why = False, "a live registrar is dropped from the list: %s" % rows
        if ok and not (rows[(True, True)][1] and not rows[(True, False)][1]):
            ok, why = False, "max_level is not raised exactly when level_hint > max_level: %s" % rows
        if ok:
            g = rows[(True, True)][2]
            if not ("unwrap_or(max_level_hint(" in g and "LevelFilter::TRACE)" in g and g.endswith("arg1.max_level)")):
                ok, why = False, "the comparison is `%s`; expected gt(hint.unwrap_or(TRACE), max_level)" % g
        if ok:
            ck.ok(rid, "retain keeps exactly the live dispatchers; max_level = max(hint or TRACE)", fn=rc.path, detail={str(k): v for k, v in rows.items()})
        else:
            ck.bad(rid, "retain keeps exactly the live dispatchers; max_level = max(hint or TRACE)", where(rc.raw["sp"]), why, fn=rc.path)
        # accumulator starts at OFF; set_max receives it after the loops
        ps = [p for p in PathEval(ri).run() if p.end == "return"]
        ok = len(ps) == 1
        if ok:
            names = [c[1].get("method") for c in ps[0].calls if c[1].get("method")]
            order_ok = [n for n in names if n in ("retain", "for_each", "set_max")] == ["retain", "for_each", "set_max"]
            sms = [c for c in ps[0].calls if c[1].get("method") == "set_max"]
            order_ok = order_ok and len(sms) == 1
            sm = sms[0] if sms else None
            init = [s for i, j, s in ri.stmts() if s["k"] == "assign" and "use" in s["rv"] and "const" in s["rv"]["use"]
                    and s["rv"]["use"]["const"].get("def") == "tracing_core::metadata::LevelFilter::OFF"]
            ok = order_ok and bool(init)
            if ok:
                acc = init[0]["lhs"]["l"]
                arg = ri.origin(ri.term(sm[0])["argv"][0])
                ok = (arg[0] in ("multi", "local") and arg[1] == acc) or (arg[0] == "const" and False)
                if not ok:
                    # the accumulator is read by copy: `_x = copy _acc`
                    a = ri.term(sm[0])["argv"][0]
                    pl = a.get("copy") or a.get("move")
                    d = ri.defs().get(pl["l"], [])
                    ok = any(dd[0] == "stmt" and (dd[3].get("use", {}).get("copy") or {}).get("l") == acc for dd in d) or pl["l"] == acc
        if ok:
            ck.ok(rid, "rebuild_interest: OFF-initialised max, every callsite re-evaluated, then set_max(max)", fn=ri.path)
        else:
            ck.bad(rid, "rebuild_interest: OFF-initialised max, every callsite re-evaluated, then set_max(max)", where(ri.raw["sp"]),
                   "expected `max = OFF; retain(..); callsites.for_each(rebuild_callsite_interest); set_max(max)`", fn=ri.path)
        c1 = F.body(CS + "rebuild_interest::{closure#1}")
        if ck.anchor(rid, "rebuild_interest for_each closure", c1):
            calls = [t for bb, t in c1.calls() if t["callee"].get("path") == CS + "rebuild_callsite_interest"]
            if len(calls) == 1:
                ck.ok(rid, "for_each re-evaluates each registered callsite", fn=c1.path)
            else:
                ck.bad(rid, "for_each re-evaluates each registered callsite", where(c1.raw["sp"]), "closure does not call rebuild_callsite_interest once")
    # for_each covers the list: no early exit except the end-of-list test
    fe = F.body("tracing_core::callsite::LinkedList::for_each")
    if ck.anchor(rid, "LinkedList::for_each", fe):
        sw = [(i, blk["term"]) for i, blk in enumerate(fe.blocks) if blk["term"]["k"] == "switch" and not blk.get("cleanup")]
        real = []
        for i, t in sw:
            o = fe.origin(t["on"])
            if o[0] == "discr":
                real.append((i, t))
            elif o[0] in ("const",):
                continue
            else:
                # drop flags (bool locals assigned constants) are not decisions
                pl = t["on"].get("copy") or t["on"].get("move")
                ds = fe.defs().get(pl["l"], []) if pl else []
                if ds and all(d[0] == "stmt" and "use" in d[3] and "const" in d[3]["use"] for d in ds):
                    continue
                real.append((i, t))
        fcalls = [bb for bb, t in fe.calls() if t["callee"].get("method") == "call_mut"]
        ok = len(real) == 1 and len(fcalls) == 1
        if ok:
            i, t = real[0]
            o = fe.origin(t["on"])
            src = fe.origin({"copy": o[1]["discr"]})
            ok = src[0] == "call" and src[2]["callee"].get("method") == "as_ref"
        if ok:
            ck.ok(rid, "for_each visits every node: the only exit is the null next pointer", fn=fe.path)
        else:
            ck.bad(rid, "for_each visits every node: the only exit is the null next pointer", where(fe.raw["sp"]),
                   "the traversal has %d data-dependent branches (expected exactly the end-of-list test) and %d calls of f" % (len(real), len(fcalls)), fn=fe.path)


# ------------------------------------------------------------------ R6
def r6(ck, F, rid="C01.R6"):
    D = "tracing_core::dispatch::"
    KIND = D + "Kind"
    ok_sites = 0
    for b in F.body_list:
        if b.crate != "tracing_core":
            continue
        for i, j, s in b.stmts():
            rv = s.get("rv", {})
            if "agg" not in rv or rv["agg"].get("adt") != D + "Dispatch":
                continue
            key = "%s builds a Dispatch" % b.path
            col = b.origin(rv["ops"][0])
            kind = None
            fresh = False
            if col[0] == "agg" and col[1]["agg"].get("adt") == KIND:
                variant = col[1]["agg"].get("variant")
                inner = b.origin(col[1]["ops"][0])
                if variant == "Scoped":
                    if inner[0] == "call" and inner[2]["callee"].get("path", "").endswith(("Arc::<T>::new", "::from")):
                        fresh = True
                        kind = "Scoped(new Arc)"
                    elif inner[0] == "call":
                        kind = "Scoped(%s)" % inner[2]["callee"].get("method")
                    else:
                        kind = "Scoped(%s)" % inner[0]
                else:
                    if inner[0] == "arg" and not inner[2]:
                        fresh = True
                        kind = "Global(param)"
                    else:
                        kind = "Global(%s)" % inner[0]
            elif col[0] in ("arg", "call", "multi", "local", "const", "constproj"):
                kind = "rewrap:" + col[0]
            else:
                kind = col[0]
            if b.path == D + "set_global_default":
                # leaks/re-wraps the collector of an existing Dispatch (already registered when it was created)
                ck.ok(rid, key + " (%s)" % kind, fn=b.path, detail="re-wraps the collector of the Dispatch passed in")
                continue
            if fresh:
                # must call register_dispatch on every return path
                rd = [bb for bb, t in b.calls() if t["callee"].get("path") == "tracing_core::callsite::inner::register_dispatch" or t["callee"].get("path") == "tracing_core::callsite::register_dispatch"]
                good = bool(rd) and all(any(r in p.blocks for r in rd) for p in PathEval(b).run() if p.end == "return")
                if good:
                    ck.ok(rid, key + " (%s) and registers it" % kind, fn=b.path)
                else:
                    ck.bad(rid, key + " without register_dispatch", where(s["sp"]),
                           "a Dispatch around a new collector is returned without callsite::register_dispatch: cached interests and MAX_LEVEL would not account for it", fn=b.path)
            else:
                ck.ok(rid, key + " (%s)" % kind, fn=b.path, nontrivial=False)
    # statics: NONE and GLOBAL_DISPATCH initialisers hold NO_COLLECTOR
    for st in ("NONE", "GLOBAL_DISPATCH"):
        c = F.consts.get(D + st)
        if not ck.anchor(rid, st, c):
            continue
        txt = str(c.get("val"))
        if "NO_COLLECTOR" in txt:
            ck.ok(rid, "static %s holds NO_COLLECTOR" % st)
        else:
            ck.bad(rid, "static %s holds NO_COLLECTOR" % st, D + st, "initialiser: %s" % txt[:200])
    # register_dispatch and rebuild_interest_cache rebuild
    for fn in ("register_dispatch", "rebuild_interest_cache"):
        b = F.body(CS + fn)
        if not ck.anchor(rid, fn, b):
            continue
        rb = [bb for bb, t in b.calls() if t["callee"].get("path") == rebuild_interest_path(F)]
        if len(rb) == 1 and b.postdominates(rb[0], 0):
            ck.ok(rid, "%s rebuilds every cached interest and the max level" % fn, fn=b.path)
        else:
            ck.bad(rid, "%s rebuilds every cached interest and the max level" % fn, where(b.raw["sp"]), "rebuild_interest is not executed on every path", fn=b.path)
    # register_dispatch pushes the new registrar *before* rebuilding
    b = F.body(CS + "register_dispatch")
    if b:
        push = [bb for bb, t in b.calls() if t["callee"].get("method") == "push"]
        rb = [bb for bb, t in b.calls() if t["callee"].get("path") == rebuild_interest_path(F)]
        if len(push) == 1 and rb and b.dominates(push[0], rb[0]):
            t = b.term(push[0])
            src = b.origin(t["argv"][1])
            ok = src[0] == "call" and src[2]["callee"].get("method") == "registrar" and b.origin(src[2]["argv"][0])[0] == "arg"
            if ok:
                ck.ok(rid, "register_dispatch adds the new dispatcher before rebuilding", fn=b.path)
            else:
                ck.bad(rid, "register_dispatch adds the new dispatcher before rebuilding", where(b.raw["sp"]), "pushed value is not dispatch.registrar()", fn=b.path)
        else:
            ck.bad(rid, "register_dispatch adds the new dispatcher before rebuilding", where(b.raw["sp"]), "push does not dominate rebuild_interest", fn=b.path)


# ------------------------------------------------------------------ R7
def r7(ck, F, rid="C01.R7"):
    ML = "tracing_core::metadata::MAX_LEVEL"
    writers = set()
    for b in F.body_list:
        if b.crate != "tracing_core":
            continue
        for bb, t in b.calls():
            c = t["callee"]
            if "sync::atomic::Atomic" not in c.get("path", "") or not t["argv"]:
                continue
            o = b.origin(t["argv"][0])
            if o[0] == "const" and o[1].get("static") == ML and c.get("method") not in ("load",):
                writers.add(b.path)
    if writers == {"tracing_core::metadata::LevelFilter::set_max"}:
        ck.ok(rid, "MAX_LEVEL written only by LevelFilter::set_max")
    else:
        ck.bad(rid, "MAX_LEVEL written only by LevelFilter::set_max", str(sorted(writers)), "writers: %s" % sorted(writers))
    callers = {b.path for b, bb, t in F.callers().get("tracing_core::metadata::LevelFilter::set_max", [])}
    allowed = {rebuild_interest_path(F), CS + "register_dispatch"}
    if callers and callers <= allowed:
        ck.ok(rid, "set_max called only from the registry rebuild", detail=sorted(callers))
    else:
        ck.bad(rid, "set_max called only from the registry rebuild", str(sorted(callers)), "set_max callers: %s" % sorted(callers))
    # set_interest callers (trait method): only rebuild_callsite_interest
    si = set()
    for b in F.body_list:
        if b.crate not in ("tracing_core", "tracing"):
            continue
        for bb, t in b.calls():
            c = t["callee"]
            if c.get("trait") == "tracing_core::callsite::Callsite" and c.get("method") == "set_interest":
                si.add(b.path)
    if si == {CS + "rebuild_callsite_interest"}:
        ck.ok(rid, "Callsite::set_interest called only from rebuild_callsite_interest")
    else:
        ck.bad(rid, "Callsite::set_interest called only from rebuild_callsite_interest", str(sorted(si)), "callers: %s" % sorted(si))
    # MacroCallsite.interest stores
    stores = set()
    for b, bb, kind, d in field_users(F, MS, "interest", crate="tracing"):
        if kind.startswith("call:") and kind.split(":", 1)[1] not in ("load", "fmt", "field", "new"):
            stores.add((b.path, kind))
    want = {("<%s as tracing_core::callsite::Callsite>::set_interest" % MS, "call:store")}
    if stores == want:
        ck.ok(rid, "MacroCallsite.interest stored only in set_interest")
    else:
        ck.bad(rid, "MacroCallsite.interest stored only in set_interest", str(sorted(stores)), "writers of the cached byte: %s" % sorted(stores))


# ------------------------------------------------------------------ R8
def r8(ck, rid="C01.R8"):
    want = {"off": "OFF", "error": "ERROR", "warn": "WARN", "info": "INFO", "debug": "DEBUG", "trace": "TRACE"}
    enc = None
    # both families at once (Cargo unifies features across the dependency graph): without debug assertions the release_*
    # feature decides, with them the plain one does -- whichever of the two is the more verbose
    for rl, dl in (("trace", "info"), ("off", "trace"), ("warn", "debug")):
        for dbg in (True, False):
            feat = "release_max_level_%s+max_level_%s" % (rl, dl)
            cfg = "tfeat:%s:%s" % (feat, "dbg" if dbg else "nodbg")
            F = Facts(cfg)
            ck.configs.append(cfg)
            c = F.consts.get("tracing::level_filters::STATIC_MAX_LEVEL")
            if not ck.anchor(rid, "STATIC_MAX_LEVEL", c):
                continue
            if enc is None:
                D = Facts("default")
                enc = {n: D.consts["tracing_core::metadata::LevelFilter::" + n]["val"]["int"] for n in want.values()}
            expect = want[dl] if dbg else want[rl]
            key = "%s (debug_assertions=%s) -> %s" % (feat, dbg, expect)
            v = c["val"].get("int")
            if str(v) == str(enc[expect]):
                ck.ok(rid, key)
            else:
                got = [n for n, e in enc.items() if str(e) == str(v)]
                ck.bad(rid, key, "tracing/src/level_filters.rs", "STATIC_MAX_LEVEL evaluates to %s with features %s: the feature meant for this build profile does not decide" % (got or v, feat))
    for rel in (False, True):
        for lvl, name in want.items():
            feat = ("release_" if rel else "") + "max_level_" + lvl
            for dbg in (True, False):      # (a max_level_* feature applies to release builds too, unless a release_* one overrides it)
                cfg = "tfeat:%s:%s" % (feat, "dbg" if dbg else "nodbg")
                F = Facts(cfg)
                ck.configs.append(cfg)
                c = F.consts.get("tracing::level_filters::STATIC_MAX_LEVEL")
                if not ck.anchor(rid, "STATIC_MAX_LEVEL", c):
                    continue
                if enc is None:
                    # encoding of LevelFilter constants from tracing-core's evaluated consts
                    D = Facts("default")
                    enc = {n: D.consts["tracing_core::metadata::LevelFilter::" + n]["val"]["int"] for n in want.values()}
                v = c["val"].get("int")
                expect = name if (not rel or not dbg) else "TRACE"
                key = "%s (debug_assertions=%s) -> %s" % (feat, dbg, expect)
                if str(v) == str(enc[expect]):
                    ck.ok(rid, key)
                else:
                    got = [n for n, e in enc.items() if str(e) == str(v)]
                    ck.bad(rid, key, "tracing/src/level_filters.rs", "STATIC_MAX_LEVEL evaluates to %s with feature %s" % (got or v, feat))


def install_reevaluates(ck, rid="C01.R14"):
    """A callsite's first hit caches the interest of the collectors `callsite::register` consults. With std that is the
    list of every Dispatch created so far, so a Dispatch counts from `Dispatch::new` on. Without std it is
    `dispatch::get_global()`: a callsite hit between `Dispatch::new(c)` and `set_global_default` is judged by the old
    (no-op) global default, and only a re-evaluation at install time lets `c` see it. The rule is derived from what
    `register` calls in each configuration, not from the configuration's name."""
    for cfg in ("default", "nostd-core"):
        F = Facts(cfg)
        if cfg not in ck.configs:
            ck.configs.append(cfg)
        reg = F.body("tracing_core::callsite::inner::register")
        sgd = F.body("tracing_core::dispatch::set_global_default")
        if not (ck.anchor(rid, "callsite::register [%s]" % cfg, reg) and ck.anchor(rid, "set_global_default [%s]" % cfg, sgd)):
            continue
        consults_global = any(t["callee"].get("path") == "tracing_core::dispatch::get_global" for x in [reg] + F.closures_of(reg) for bb, t in x.calls())
        key = "set_global_default re-evaluates cached interests when registration consults the global default [%s]" % cfg
        if not consults_global:
            ck.ok(rid, key, detail="register folds over the dispatcher list: a Dispatch counts from its creation")
            continue
        rebuilds = [bb for bb, t in sgd.calls() if (t["callee"].get("path") or "").startswith("tracing_core::callsite::") and
                    (t["callee"].get("path") or "").rsplit("::", 1)[1] in ("rebuild_interest_cache", "rebuild_interest", "register_dispatch")]
        stores = [bb for bb, t in sgd.calls() if (t["callee"].get("path") or "").endswith("::store") and
                  "GLOBAL_INIT" in str(sgd.origin(t["argv"][0])) and "INITIALIZED" in str(sgd.origin(t["argv"][1]))]
        ok = bool(rebuilds) and bool(stores) and all(any(sgd.dominates(s_, r) and s_ != r for s_ in stores) for r in rebuilds)
        if ok:
            # ... on every path that reports success
            for p in PathEval(sgd).run():
                if p.end == "return" and any(s_ in p.blocks for s_ in stores) and not any(r in p.blocks for r in rebuilds):
                    ok = False
        if ok:
            ck.ok(rid, key, fn=sgd.path)
        else:
            ck.bad(rid, key, where(sgd.raw["sp"]), "callsite::register judges a first hit by dispatch::get_global(), but installing a new global default does not "
                   "re-evaluate the callsites registered since the Dispatch was created: they stay cached as `never` for a collector that accepts them", fn=sgd.path)


def rebuild_unconditional(ck, rid="C01.R15"):
    """`rebuild_interest` is what `rebuild_interest_cache()` (the documented way to make a changed filter or a changed
    max_level_hint take effect) and every collector turnover end in. In both registries it must, on every returning path,
    publish a freshly computed max level (LevelFilter::set_max) and walk the registered callsites -- "the max level was
    recorded earlier" is exactly the stale shortcut the property forbids."""
    for cfg in ("default", "nostd-core"):
        F = Facts(cfg)
        b = F.body(rebuild_interest_path(F))
        if not ck.anchor(rid, "callsite::rebuild_interest [%s]" % cfg, b):
            continue
        sm = [bb for bb, t in b.calls() if t["callee"].get("path") == "tracing_core::metadata::LevelFilter::set_max"]
        walk = [bb for bb, t in b.calls() if (t["callee"].get("method") in ("for_each", "rebuild_interest")) and "callsite" in (t["callee"].get("path") or "")]
        hint = any(t["callee"].get("method") == "max_level_hint" for x in [b] + F.closures_of(b) for bb, t in x.calls())
        problems = []
        if len(sm) != 1 or not b.postdominates(sm[0], 0):
            problems.append("LevelFilter::set_max is not executed exactly once on every path (%d sites)" % len(sm))
        if not walk or not any(b.postdominates(w, 0) for w in walk):
            problems.append("the callsite list is not walked on every path")
        if not hint:
            problems.append("no collector is asked for its max_level_hint")
        key = "rebuild_interest recomputes the max level and walks the callsites on every path [%s]" % cfg
        if problems:
            ck.bad(rid, key, where(b.raw["sp"]), "; ".join(problems) + ": a max_level_hint raised at run time followed by rebuild_interest_cache() would leave the "
                   "published maximum stale and suppress what the collector now accepts", fn=b.path)
        else:
            ck.ok(rid, key, fn=b.path)
