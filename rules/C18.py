"""C18 — log and tracing interoperate without losing, inventing or mislabelling records.

R1 level conversion tables are mutually inverse, order-preserving bijections
R2 key agreement between FIELD_NAMES, Fields::new, dispatch_record and the normalising visitor
R3 bridge decision: LogTracer::enabled / dispatch_record
R4 tracing -> log: a log record is emitted exactly under `no collector was ever installed` (+ level tests), once per path
"""
from rulekit import Facts, where
from rulekit.sym import PathEval, show
from rulekit.query import guards_of, closure_of_term, norm_cmp

TL = "tracing_log::"
ORDER = ["Off", "Error", "Warn", "Info", "Debug", "Trace"]          # log crate: increasing verbosity
TENC = {"TRACE": 0, "DEBUG": 1, "INFO": 2, "WARN": 3, "ERROR": 4}


def run(ck):
    ck.explanation = (
        "Finite tables and guard shapes: the four level-conversion impls (AsLog/AsTrace for Level and LevelFilter) are "
        "extracted as jump tables and checked to be mutually inverse bijections that preserve verbosity order; the field "
        "names the bridge looks up are exactly FIELD_NAMES (CTFE-decoded) and dispatch_record pairs each key with the "
        "matching accessor of the log record; LogTracer::enabled rejects exactly above the published max level or for an "
        "ignored target prefix and otherwise asks the current dispatcher with the record's own metadata; dispatch_record "
        "emits exactly one event behind dispatch.enabled(record.as_trace()). In the other direction (tracing's `log` "
        "feature; macro-expansion fixtures and the span lifecycle functions): every log emission is control-dependent on "
        "`!dispatch::has_been_set()` and the level tests, at most one per path; both install paths set EXISTS (C02.R5).")
    ck.assumptions += ["the `log` crate's max_level/logger semantics", "message text content is not decided"]
    ck.rule("C18.R8", "the bridge's level tests use a correct total order (as C19.R1/R2/R4)", floor=60)
    ck.rule("C18.R1", "level conversion tables: inverse bijections preserving order", floor=22)
    ck.rule("C18.R2", "field keys agree between FIELD_NAMES, Fields::new and dispatch_record", floor=7)
    ck.rule("C18.R3", "bridge decision tables (LogTracer::enabled, dispatch_record)", floor=4)
    ck.rule("C18.R4", "log emission only until a collector is installed; at most one per path", floor=100)
    ck.rule("C18.R5", "`a collector has been installed` is sticky: set by both install paths, has_been_set() reads only that flag", floor=3)
    ck.rule("C18.R7", "normalized_metadata carries target, file, line and module path each from its own log field, independently", floor=1)
    ck.rule("C18.R12", "with `log`, a close record is logged once per span, not once per handle", floor=1)
    ck.rule("C18.R11", "with `log`, the record text names every field: the value-set formatter writes each visited field, whatever its name", floor=2)
    ck.rule("C18.R10", "with `log`, enter/exit records come from Span::do_enter/do_exit: Instrumented polls through them for every span, enabled or not (as C17.R3)", floor=1)
    ck.rule("C18.R9", "EnteredSpan::exit exits once: the guard it consumes is left holding Span::none(), so its Drop has nothing to exit or log", floor=2)
    ck.rule("C18.R16", "a bridged log record reaches the collector get_default names (scoped, else global -- also from a thread that is exiting): the bridge and the "
            "macros never look the dispatcher up with get_current (as C02.R12)", floor=5)
    ck.rule("C18.R15", "with `log`, a span no collector takes still gets its creation record: in every span! expansion, each path that builds the disabled span "
            "while no collector was ever installed and the level is within log's static and dynamic maximum hands the fields to Span::record_all -- no further test withholds it", floor=100)
    ck.rule("C18.R14", "LogTracer judges a record against LevelFilter::current(): that maximum covers every live collector (the rebuild keeps every live dispatcher and asks it again, every Dispatch is registered; as C01.R5/R6)", floor=6)
    ck.rule("C18.R6", "LogTracer builder options accumulate: no builder call discards an ignored prefix or the max level", floor=3)
    F = Facts("default")
    ck.configs.append("default")
    from rules import C19
    C19.order_rules(ck, F, "C18.R8")
    r6(ck, F)
    from rules import C01 as _C01
    _C01.r5(ck, F, rid="C18.R14")
    _C01.r6(ck, F, rid="C18.R14")
    r7(ck, F)
    r5(ck, F)
    r1(ck, F)
    r2(ck, F)
    r3(ck, F)
    r4(ck)
    r9(ck)
    from rules import C17
    C17.r3_lib(ck, Facts("log"), rid="C18.R10")
    r11(ck)
    r12(ck)
    r15(ck)
    from rules import C02 as _C02
    _C02.lookup_entry_points(ck, rid="C18.R16", crates={"tracing_log", "tracing"})


def r9(ck):
    """With the `log` feature Span::do_exit and Drop for Span log from the span's *metadata*, not from its collector
    handle. EnteredSpan::exit hands the span back and then drops the guard, whose Drop calls do_exit again and drops
    whatever span was left in it: that leftover must be Span::none() (no metadata, no handle), or the exit is logged
    twice and a close is logged for a span that is still alive."""
    from rulekit.query import drop_blocks
    L = Facts("log")
    b = L.body("tracing::span::EnteredSpan::exit")
    key = "EnteredSpan::exit leaves Span::none() in the guard it drops"
    if not ck.anchor("C18.R9", "tracing::span::EnteredSpan::exit", b):
        return
    exits = [bb for bb, t in b.calls() if t["callee"].get("path") == "tracing::span::Span::do_exit"]
    drops = [bb for bb in drop_blocks(b, 1) if not b.blocks[bb].get("cleanup")]
    forgets = [bb for bb, t in b.calls() if t["callee"].get("path") == "core::mem::forget"]
    dom = b.dominators()
    # the write that empties the guard: mem::replace / assignment of a value originating in Span::none()
    empt = []
    for bb, t in b.calls():
        if t["callee"].get("path") in ("core::mem::replace", "core::mem::swap") and len(t["argv"]) == 2:
            dst, src = b.origin(t["argv"][0]), b.origin(t["argv"][1])
            if dst[0] == "arg" and dst[1] == 1 and len(dst[2]) == 1 and src[0] == "call" and src[2]["callee"].get("path") == "tracing::span::Span::none":
                empt.append(bb)
    for i, j, st in b.stmts():
        if st["k"] == "assign" and st["lhs"]["l"] == 1 and [p for p in st["lhs"].get("p", []) if p != "*"] and "use" in st["rv"]:
            src = b.origin(st["rv"]["use"])
            if src[0] == "call" and src[2]["callee"].get("path") == "tracing::span::Span::none":
                empt.append(i)
    if len(exits) == 1:
        ck.ok("C18.R9", "EnteredSpan::exit calls do_exit once", fn=b.path)
    else:
        ck.bad("C18.R9", "EnteredSpan::exit calls do_exit once", where(b.raw["sp"]), "%d calls" % len(exits), fn=b.path)
    if forgets and not drops:
        ck.ok("C18.R9", key, fn=b.path, detail="guard forgotten, never dropped")
    elif drops and all(any(e in dom[d] for e in empt) for d in drops):
        ck.ok("C18.R9", key, fn=b.path, detail={"emptied_at": empt, "dropped_at": drops})
    else:
        ck.bad("C18.R9", key, where(b.raw["sp"]), "the guard is dropped at %s but its span is not replaced by Span::none() before that (replacements: %s): "
               "what stays behind keeps its metadata, so Drop logs a second exit and a close" % (drops, empt), fn=b.path)


def r1(ck, F):
    def table(trait, sty):
        for i in F.impls_of(trait):
            if i["self_ty"] == sty:
                b = F.body(list(i["methods"].values())[0])
                rows = {}
                for p in PathEval(b).run():
                    if p.end != "return":
                        continue
                    ds = [c[1] for c in p.conds if show(c[0]).startswith("discr(")]
                    rows[tuple(ds)] = p.ret
                return b, rows
        return None, None
    LV, LF = "tracing_core::metadata::Level", "tracing_core::metadata::LevelFilter"
    # tracing -> log
    b, rows = table(TL + "AsLog", LV)
    t2l = {}
    if ck.anchor("C18.R1", "AsLog for Level", b):
        for k, r in rows.items():
            if len(k) == 1 and r[0] == "agg":
                t2l[k[0]] = r[2]
    b, rows = table(TL + "AsLog", LF)
    tf2l = {}
    if ck.anchor("C18.R1", "AsLog for LevelFilter", b):
        for k, r in rows.items():
            if r[0] == "agg":
                tf2l["OFF" if k == (0,) else k[1]] = r[2]
    b, rows = table(TL + "AsTrace", "log::Level")
    l2t = {}
    if ck.anchor("C18.R1", "AsTrace for log::Level", b):
        for k, r in rows.items():
            if len(k) == 1 and r[0] == "const" and r[3]:
                l2t[k[0]] = r[3].rsplit("::", 1)[1]
    b, rows = table(TL + "AsTrace", "log::LevelFilter")
    lf2t = {}
    if ck.anchor("C18.R1", "AsTrace for log::LevelFilter", b):
        for k, r in rows.items():
            if len(k) == 1 and r[0] == "const" and r[3]:
                lf2t[k[0]] = r[3].rsplit("::", 1)[1]
    # log::Level discriminants: Error=1 .. Trace=5; LevelFilter: Off=0 ..
    lname = {1: "Error", 2: "Warn", 3: "Info", 4: "Debug", 5: "Trace"}
    lfname = dict(lname)
    lfname[0] = "Off"
    for tn, enc in TENC.items():
        want = tn.capitalize()
        k = "Level::%s -> log::Level::%s" % (tn, want)
        if t2l.get(enc) == want:
            ck.ok("C18.R1", k)
        else:
            ck.bad("C18.R1", k, TL + "AsLog", "tracing %s converts to log %s" % (tn, t2l.get(enc)))
        k = "LevelFilter::%s -> log::LevelFilter::%s" % (tn, want)
        if tf2l.get(enc) == want:
            ck.ok("C18.R1", k)
        else:
            ck.bad("C18.R1", k, TL + "AsLog", "tracing filter %s converts to log %s" % (tn, tf2l.get(enc)))
    if tf2l.get("OFF") == "Off":
        ck.ok("C18.R1", "LevelFilter::OFF -> log::LevelFilter::Off")
    else:
        ck.bad("C18.R1", "LevelFilter::OFF -> log::LevelFilter::Off", TL + "AsLog", "OFF converts to %s" % tf2l.get("OFF"))
    for d, ln in lname.items():
        k = "log::Level::%s -> Level::%s" % (ln, ln.upper())
        if l2t.get(d) == ln.upper():
            ck.ok("C18.R1", k)
        else:
            ck.bad("C18.R1", k, TL + "AsTrace", "log %s converts to tracing %s" % (ln, l2t.get(d)))
    for d, ln in lfname.items():
        k = "log::LevelFilter::%s -> LevelFilter::%s" % (ln, ln.upper())
        if lf2t.get(d) == ln.upper():
            ck.ok("C18.R1", k)
        else:
            ck.bad("C18.R1", k, TL + "AsTrace", "log filter %s converts to tracing %s" % (ln, lf2t.get(d)))
    # the macro-side conversion (level_to_log!) is checked on the fixture expansions in R4


def r2(ck, F):
    fn = F.consts.get(TL + "FIELD_NAMES")
    if not ck.anchor("C18.R2", "FIELD_NAMES", fn):
        return
    names = [x.get("str") for x in fn["val"].get("slice", [])]
    b = F.body(TL + "Fields::new")
    if ck.anchor("C18.R2", "Fields::new", b):
        r = [p.ret for p in PathEval(b).run() if p.end == "return"]
        looked = {}
        if r and r[0][0] == "agg":
            adt = F.adts[TL + "Fields"]
            fnames = [f["name"] for f in adt["variants"][0]["fields"]]
            for slot, t in zip(fnames, r[0][3]):
                txt = show(t)
                lit = txt.rsplit(", ", 1)[1].strip("')") if ", '" in txt else None
                looked[slot] = lit
        want = {"message": "message", "target": "log.target", "module": "log.module_path", "file": "log.file", "line": "log.line"}
        for slot, key in want.items():
            k = "Fields.%s looks up %r" % (slot, key)
            if looked.get(slot) == key and key in names:
                ck.ok("C18.R2", k)
            else:
                ck.bad("C18.R2", k, where(b.raw["sp"]), "slot %s looks up %r; FIELD_NAMES = %s" % (slot, looked.get(slot), names))
        if set(looked.values()) == set(names):
            ck.ok("C18.R2", "FIELD_NAMES == the set of names looked up")
        else:
            ck.bad("C18.R2", "FIELD_NAMES == the set of names looked up", TL + "FIELD_NAMES", "FIELD_NAMES %s vs looked up %s" % (names, sorted(looked.values())))
    # dispatch_record pairs keys with the record's accessors
    d = F.body(TL + "dispatch_record::{closure#0}")
    if ck.anchor("C18.R2", "dispatch_record", d):
        vs = [(bb, t) for bb, t in d.calls() if t["callee"].get("path", "").endswith("FieldSet::value_set")]
        ok = len(vs) == 1
        pairs = {}
        if ok:
            arr = d.origin(vs[0][1]["argv"][1])
            if arr[0] == "agg":
                for op in arr[1]["ops"]:
                    tup = d.origin(op)
                    if tup[0] != "agg":
                        continue
                    key = d.origin(tup[1]["ops"][0])
                    kname = [p.get("n") for p in key[2] if isinstance(p, dict) and p.get("adt") == TL + "Fields"] if key[0] in ("arg", "call", "local", "multi") else []
                    if key[0] == "call":
                        kname = [p.get("n") for p in key[3] if isinstance(p, dict) and p.get("adt") == TL + "Fields"]
                    val = tup[1]["ops"][1]
                    src = accessor_of(d, val)
                    if kname:
                        pairs[kname[0]] = src
        want = {"message": "args", "target": "target", "module": "module_path", "file": "file", "line": "line"}
        if pairs == want:
            ck.ok("C18.R2", "dispatch_record pairs message/target/module/file/line with the record's accessors", fn=d.path, detail=pairs)
        else:
            ck.bad("C18.R2", "dispatch_record pairs message/target/module/file/line with the record's accessors", where(d.raw["sp"]), "pairs %s" % pairs, fn=d.path)


def accessor_of(body, op, depth=0):
    """which log::Record accessor a value operand derives from"""
    o = body.origin(op)
    for _ in range(8):
        if o[0] == "agg" and o[1]["agg"].get("variant") == "Some":
            o = body.origin(o[1]["ops"][0])
            continue
        if o[0] == "call":
            c = o[2]["callee"]
            if c.get("impl_adt") == "log::Record" or "log::Record" in c.get("path", ""):
                return c.get("method")
            if c.get("method") in ("map", "as_ref", "as_deref", "deref"):
                o = body.origin(o[2]["argv"][0])
                continue
        if o[0] in ("multi", "local"):
            ds = body.defs().get(o[1], [])
            for dd in ds:
                if dd[0] == "call":
                    c = dd[2]["callee"]
                    if "log::Record" in c.get("path", ""):
                        return c.get("method")
                    if c.get("method") in ("map", "as_ref"):
                        o = body.origin(dd[2]["argv"][0])
                        break
            else:
                return None
            continue
        return None
    return None


def r3(ck, F):
    b = F.body("<%slog_tracer::LogTracer as log::Log>::enabled" % TL)
    if ck.anchor("C18.R3", "LogTracer::enabled", b):
        problems = []
        asked = 0
        for p in PathEval(b, max_visits=3).run():
            if p.end != "return":
                continue
            conds = [(show(c[0]), c[1] != 0) for c in p.conds if c[0][0] != "const"]
            above = [v for t, v in conds if t.startswith("gt(as_trace(level(arg2)), current())")]
            ignored = [v for t, v in conds if t.startswith("starts_with(target(arg2)")]
            # the prefix loop written as `ignore_crates.iter().any(|p| target.starts_with(p))`
            for c in p.conds:
                t0 = c[0]
                if t0[0] == "call" and t0[1].endswith("::any") and "ignore_crates" in show(t0) and len(t0[2]) == 2:
                    cb = F.body(closure_of_term(t0[2][1]) or "")
                    rets = {show(q.ret) for q in PathEval(cb).run() if q.end == "return"} if cb else set()
                    if len(rets) == 1 and list(rets)[0].startswith("starts_with(") and "target" in list(rets)[0]:
                        ignored.append(c[1] != 0)
            r = show(p.ret)
            if above and above[0]:
                if r != "0":
                    problems.append("a record above the max level returns %s" % r)
            elif any(ignored):
                if r != "0":
                    problems.append("an ignored target returns %s" % r)
            else:
                if not r.startswith("get_default("):
                    problems.append("a path that is neither above the max level nor ignored returns %s instead of asking the dispatcher" % r)
                else:
                    asked += 1
                    # ... and, unless the list of ignored prefixes is known to be empty, only after the list was gone through
                    empties = [v for t, v in conds if t.startswith("is_empty(") and "ignore_crates" in t]
                    scanned = any(("ignore_crates" in t and ("next(" in t or "::any" in t or t.startswith("any("))) for t, v in conds) or bool(ignored)
                    if not (empties and empties[0]) and not scanned:
                        problems.append("the dispatcher is asked although the ignored prefixes may be non-empty and were never compared with the record's target")
            if not above:
                problems.append("a path does not compare the record's level with LevelFilter::current()")
        cl = None
        for p in PathEval(b, max_visits=3).run():
            if p.end == "return" and p.ret and p.ret[0] == "call" and p.ret[1].endswith("get_default") and p.ret[2]:
                cl = F.body(closure_of_term(p.ret[2][0]) or "")
        if cl is None:
            problems.append("cannot identify the closure handed to dispatch::get_default")
        if cl is not None:
            r = [show(p.ret) for p in PathEval(cl).run() if p.end == "return"]
            if not (len(r) == 1 and r[0].startswith("enabled(arg2, as_trace(arg1.metadata")):
                problems.append("the dispatcher is not asked with the record's own metadata: %s" % r)
        if problems or not asked:
            ck.bad("C18.R3", "LogTracer::enabled", where(b.raw["sp"]), "; ".join(sorted(set(problems))[:3]) or "never asks the dispatcher", fn=b.path)
        else:
            ck.ok("C18.R3", "LogTracer::enabled: false iff level > max or ignored prefix; else dispatcher.enabled(record metadata)", fn=b.path)
    lg = F.body("<%slog_tracer::LogTracer as log::Log>::log" % TL)
    if ck.anchor("C18.R3", "LogTracer::log", lg):
        dr = [bb for bb, t in lg.calls() if t["callee"].get("path") == TL + "dispatch_record"]
        if len(dr) == 1:
            g, _ = guards_of(lg, dr[0])
            if any(t.startswith("enabled(arg1, metadata(arg2))") and v != 0 for t, v in g):
                ck.ok("C18.R3", "LogTracer::log dispatches iff enabled(record.metadata())", fn=lg.path)
            else:
                ck.bad("C18.R3", "LogTracer::log dispatches iff enabled(record.metadata())", where(lg.raw["sp"]), "guards %s" % sorted(g), fn=lg.path)
        else:
            ck.bad("C18.R3", "LogTracer::log dispatches iff enabled(record.metadata())", where(lg.raw["sp"]), "%d dispatch_record calls" % len(dr), fn=lg.path)
    d = F.body(TL + "dispatch_record::{closure#0}")
    if ck.anchor("C18.R3", "dispatch_record", d):
        ev = [bb for bb, t in d.calls() if t["callee"].get("path") == "tracing_core::dispatch::Dispatch::event"]
        en = [bb for bb, t in d.calls() if t["callee"].get("path") == "tracing_core::dispatch::Dispatch::enabled"]
        ok = len(ev) == 1 and len(en) == 1
        if ok:
            g, _ = guards_of(d, ev[0])
            ok = any(t.startswith("enabled(arg2, as_trace(") and v != 0 for t, v in g)
            npaths = [sum(1 for c in p.calls if c[1].get("path") == "tracing_core::dispatch::Dispatch::event") for p in PathEval(d).run() if p.end == "return"]
            ok = ok and max(npaths) == 1
            # the event carries the level-specific static metadata chosen by loglevel_to_cs(record.level())
            l2c = [t for bb, t in d.calls() if t["callee"].get("path") == TL + "loglevel_to_cs"]
            ok = ok and len(l2c) == 1 and show_arg_is_record_level(d, l2c[0])
        if ok:
            ck.ok("C18.R3", "dispatch_record: exactly one event, behind dispatch.enabled(record.as_trace()), with the level's callsite", fn=d.path)
        else:
            ck.bad("C18.R3", "dispatch_record: exactly one event, behind dispatch.enabled(record.as_trace()), with the level's callsite", where(d.raw["sp"]), "shape not recognised", fn=d.path)
    l2c = F.body(TL + "loglevel_to_cs")
    if ck.anchor("C18.R3", "loglevel_to_cs", l2c):
        rows = {}
        for p in PathEval(l2c).run():
            if p.end == "return":
                d_ = [c[1] for c in p.conds if show(c[0]) == "discr(arg1)"]
                rows[d_[0] if d_ else None] = show(p.ret)
        names = {1: "ERROR", 2: "WARN", 3: "INFO", 4: "DEBUG", 5: "TRACE"}
        if all(names[k] in rows.get(k, "") for k in names):
            ck.ok("C18.R3", "loglevel_to_cs maps each log level to its own callsite/metadata", fn=l2c.path)
        else:
            ck.bad("C18.R3", "loglevel_to_cs maps each log level to its own callsite/metadata", where(l2c.raw["sp"]), "rows %s" % rows, fn=l2c.path)


def show_arg_is_record_level(body, t):
    o = body.origin(t["argv"][0])
    return o[0] == "call" and o[2]["callee"].get("method") == "level"


def r4(ck):
    FX = Facts("fx_log")
    L = Facts("log")
    ck.configs += ["fx_log", "log"]
    LOG = "tracing::__macro_support::MacroCallsite::log"
    n = 0
    for fname, exp in sorted(FX.expect.items()):
        if exp["kind"] != "event":
            continue
        b = FX.body("fx_macros_log::macros_gen::" + fname)
        if b is None:
            continue
        bodies = [b] + FX.closures_of(b)
        sites = [(x, bb) for x in bodies for bb, t in x.calls() if t["callee"].get("path") == LOG]
        key = "%s [%s!]" % (fname, exp["macro"])
        vkey = "%s! log emission" % exp["macro"]
        if not sites:
            ck.bad("C18.R4", vkey + ": missing", where(b.raw["sp"]), "with the `log` feature the expansion of %s contains no log emission" % fname, fn=b.path)
            continue
        problems = []
        lvl = {"TRACE": "Trace", "DEBUG": "Debug", "INFO": "Info", "WARN": "Warn", "ERROR": "Error"}[exp["level"]]
        for x, bb in sites:
            g, _ = guards_of(x, bb)
            gt = {t: v for t, v in g}
            if gt.get("has_been_set()") != 0:
                problems.append("a log record is emitted without checking that no collector was ever installed")
            if not any((t.startswith("le(Level::%s{}, max_level())" % lvl) or t.startswith("ge(max_level(), Level::%s{})" % lvl)) and v != 0 for t, v in g):
                problems.append("a log record is emitted without `level <= log::max_level()` for log level %s (guards %s)" % (lvl, sorted(t for t in gt if 'max_level' in t)))
            if not any(t.startswith("enabled(logger()") and v != 0 for t, v in g):
                problems.append("a log record is emitted without asking logger.enabled()")
        for x in bodies:
            for p in PathEval(x).run():
                if p.end == "return" and sum(1 for c in p.calls if c[1].get("path") == LOG) > 1:
                    problems.append("two log records on one path")
        if problems:
            ck.bad("C18.R4", vkey, where(b.raw["sp"]), "; ".join(sorted(set(problems))) + " (fixture %s)" % fname, fn=b.path)
        else:
            n += 1
            ck.ok("C18.R4", key, fn=b.path)
    # span lifecycle logging inside crate `tracing` built with the log feature
    sites = [(x, bb) for x in L.body_list for bb, t in x.calls() if t["callee"].get("path") == "tracing::span::Span::log"]
    want = {"tracing::span::Span::make_with", "tracing::span::Span::do_enter", "tracing::span::Span::do_exit", "tracing::span::Span::record_all",
            "<tracing::span::Span as core::ops::drop::Drop>::drop"}
    got = {x.path for x, bb in sites}
    if got != want:
        ck.bad("C18.R4", "span lifecycle log sites", str(sorted(got ^ want)), "Span::log is called from %s" % sorted(got))
    for x, bb in sites:
        g, _ = guards_of(x, bb)
        if dict(g).get("has_been_set()") == 0:
            ck.ok("C18.R4", "%s logs only while no collector was installed" % x.path, fn=x.path)
        else:
            ck.bad("C18.R4", "span lifecycle logging without has_been_set test", where(x.raw["sp"]), "%s logs regardless of an installed collector" % x.path, fn=x.path)
        for p in PathEval(x).run():
            if p.end == "return" and sum(1 for c in p.calls if c[1].get("path") == "tracing::span::Span::log") > 1:
                ck.bad("C18.R4", "span lifecycle logging twice", where(x.raw["sp"]), "%s logs twice on one path" % x.path, fn=x.path)
    # ... and each of them does log, once, unless one of the three documented reasons applies on the path: the level is
    # above log's compile-time ceiling, a collector has been installed, or the span has no metadata (Span::none()).
    # Anything else that lets a lifecycle step return silently -- a shortcut for the no-op collector, say -- loses a record.
    for x in {x.path: x for x, bb in sites}.values():
        silent_bad = 0
        nlog = 0
        for pth in PathEval(x).run():
            if pth.end != "return":
                continue
            if any(c[1].get("path") == "tracing::span::Span::log" for c in pth.calls):
                nlog += 1
                continue
            cs = [(show(c[0]), c[1]) for c in pth.conds]
            reason = any((t.startswith("le(Level::") or (t.startswith("ge(") and ", Level::" in t)) and v == 0 for t, v in cs) or any(t == "has_been_set()" and v != 0 for t, v in cs) or \
                any(t in ("discr(arg1.meta)", "discr((*arg1).meta)") and v != 1 for t, v in cs)
            if not reason:
                silent_bad += 1
        key = "%s logs its lifecycle record unless statically off / a collector is installed / the span has no metadata" % x.path.replace("tracing::span::", "")
        if nlog and not silent_bad:
            ck.ok("C18.R4", key, fn=x.path)
        else:
            ck.bad("C18.R4", key, where(x.raw["sp"]), "%d returning path(s) emit no log record for another reason: with the `log` feature and no collector that step of the span's life is missing from the log" % silent_bad, fn=x.path)
    # ... at `the corresponding level`: the records that describe the span itself (creation, recorded values) are logged at
    # the span's own level converted to log's, whichever target they go to; enter / exit / close are TRACE
    li = Facts("default").adts.get("tracing_core::metadata::LevelInner")
    names = {i: v["name"] for i, v in enumerate(li["variants"])} if li else {}
    for x in {x.path: x for x, bb in sites}.values():
        own_level = x.path.endswith("::make_with") or x.path.endswith("::record_all")
        bad = set()
        n = 0
        for pth in PathEval(x).run():
            if pth.end != "return":
                continue
            for c in pth.calls:
                if c[1].get("path") != "tracing::span::Span::log" or len(c[2]) < 3:
                    continue
                n += 1
                got = show(c[2][2])
                if own_level:
                    d = [cc for cc in pth.conds if show(cc[0]).startswith("discr(level(") and show(cc[0]).endswith(".0)")]
                    if not d:
                        bad.add("a record is logged at %s without the span's level having been looked at" % got)
                        continue
                    v = d[-1][1]
                    if v is None:
                        others = {names.get(a) for a in (d[-1][2] or [])}
                        cand = [nm for nm in names.values() if nm not in others]
                        want = cand[0].title() if len(cand) == 1 else None
                    else:
                        want = (names.get(v) or "").title()
                    if want and got != "Level::%s{}" % want:
                        bad.add("a %s span's record is logged at %s" % (want.upper(), got))
                elif got != "Level::Trace{}":
                    bad.add("an enter/exit/close record is logged at %s" % got)
        key = "%s logs at %s" % (x.path.replace("tracing::span::", ""), "the span's own level" if own_level else "TRACE")
        if n and not bad and names:
            ck.ok("C18.R4", key, fn=x.path)
        else:
            ck.bad("C18.R4", key, where(x.raw["sp"]), "; ".join(sorted(bad)[:3]) or ("no log call on a returning path" if names else "LevelInner not found in the facts"), fn=x.path)
    sl = L.body("tracing::span::Span::log")
    if ck.anchor("C18.R4", "Span::log", sl):
        per = [sum(1 for c in p.calls if c[1].get("trait") == "log::Log" and c[1].get("method") == "log") for p in PathEval(sl).run() if p.end == "return"]
        if per and max(per) == 1:
            ck.ok("C18.R4", "Span::log emits at most one record per call", fn=sl.path)
        else:
            ck.bad("C18.R4", "Span::log emits at most one record per call", where(sl.raw["sp"]), "records per path: %s" % sorted(set(per)), fn=sl.path)


def r5(ck, F, rid="C18.R5"):
    """The tracing->log fallback is switched off by dispatch::has_been_set(). "Once a collector has been installed none
    are emitted" needs that predicate to be monotone: it must be exactly the sticky EXISTS flag, which both install
    paths (global and scoped) set on every successful path (same rule as C02.R5) and which nothing clears."""
    from rules import C02
    C02.r5(ck, F, True, rid=rid)
    D = "tracing_core::dispatch::"
    b = F.body(D + "has_been_set")
    key = "has_been_set() == EXISTS.load()"
    if ck.anchor(rid, "dispatch::has_been_set", b):
        rets = set()
        for p in PathEval(b).run():
            if p.end == "return":
                rets.add(show(p.ret))
        loads = [t for bb, t in b.calls() if t["callee"].get("method") == "load"]
        ex = [t for t in loads if C02.static_of(b, t["argv"][0]) == D + "EXISTS"]
        if len(loads) == 1 and len(ex) == 1 and len(rets) == 1 and list(rets)[0].startswith("load("):
            ck.ok(rid, key, fn=b.path)
        else:
            ck.bad(rid, key, where(b.raw["sp"]), "has_been_set returns %s from %d atomic loads: a non-sticky input (e.g. the live scope count) lets the "
                   "log fallback switch back on after the last scoped collector is dropped" % (sorted(rets), len(loads)), fn=b.path)
    # nothing stores false into EXISTS
    clears = [(x, bb) for x, bb, t, m in C02.atomic_calls(F, D + "EXISTS", {"store", "swap", "compare_exchange", "fetch_and", "fetch_xor"})
              if not (m == "store" and x.origin(t["argv"][1])[0] == "const" and x.origin(t["argv"][1])[1].get("int") == 1)]
    if clears:
        ck.bad(rid, "EXISTS is never cleared", where(clears[0][0].raw["sp"]), "%s writes a value other than `true` to EXISTS" % clears[0][0].path)
    else:
        ck.ok(rid, "EXISTS is never cleared")


def r6(ck, F):
    """The ignore list decides which log records are NOT turned into events (avoiding duplicates of tracing's own log
    output). Every builder method returns a builder that still carries everything configured so far."""
    B = "tracing_log::log_tracer::Builder"
    adt = F.adts.get(B)
    if not ck.anchor("C18.R6", "log_tracer::Builder", adt):
        return
    fields = [f["name"] for f in adt["variants"][0]["fields"]]
    for i in F.impls:
        if i.get("trait") or i.get("self_ty") != B:
            continue
        for m, path in sorted(i["methods"].items()):
            b = F.body(path)
            if b is None or not b.locals or b.locals[0] != B or b.argc < 1 or b.locals[1] != B:
                continue        # only `fn(self, ..) -> Self` builder steps
            key = "Builder::%s keeps every option configured before it" % m
            problems = []
            n = 0
            for p in PathEval(b).run():
                if p.end != "return":
                    continue
                n += 1
                txt = show(p.ret)
                if p.ret == ("arg", 1):
                    # returns the (mutated) builder itself: mutations may only add
                    for c in p.calls:
                        if c[1].get("method") in ("clear", "truncate", "pop", "drain", "retain", "remove", "swap_remove") and "ignore_crates" in show(c[2][0]):
                            problems.append("removes entries from ignore_crates (%s)" % c[1].get("method"))
                    for bb in p.blocks:
                        for st in b.blocks[bb]["stmts"]:
                            if st["k"] == "assign" and st["lhs"]["l"] == 1 and any(isinstance(x, dict) and x.get("n") == "ignore_crates" for x in st["lhs"].get("p", [])):
                                problems.append("overwrites ignore_crates")
                elif p.ret[0] == "call" and p.ret[1].endswith("::fold") and len(p.ret[2]) == 3 and p.ret[2][1] == ("arg", 1) \
                        and B + "::" in show(p.ret[2][2]):
                    pass        # folds a builder step over the items, starting from self
                elif p.ret[0] == "agg" and p.ret[1] == B:
                    comps = dict(zip(fields, p.ret[3])) if len(p.ret) > 3 and len(p.ret[3]) == len(fields) else {}
                    for f in fields:
                        t = show(comps.get(f)) if f in comps else txt
                        if "arg1.%s" % f not in t and f != option_set_by(m):   # a setter replaces its own scalar option only
                            problems.append("the returned builder's `%s` is %s: what was configured before is discarded" % (f, t[:80]))
                else:
                    problems.append("returns %s: not recognisably the accumulated builder" % txt[:100])
            if not n:
                continue
            # the step that names a prefix must add it: ignore_crate(name) puts `name` on the list on every path
            if m == "ignore_crate":
                for p in PathEval(b).run():
                    if p.end != "return":
                        continue
                    added = any(c[1].get("method") in ("push", "insert", "extend", "extend_one") and "ignore_crates" in show(c[2][0]) and
                                any("arg2" in show(a) for a in c[2][1:]) for c in p.calls)
                    built = p.ret[0] == "agg" and "arg2" in show(p.ret)
                    if not added and not built:
                        problems.append("returns without adding the named prefix to ignore_crates: records of that crate are bridged although the caller asked to ignore them")
            if problems:
                ck.bad("C18.R6", key, where(b.raw["sp"]), "; ".join(sorted(set(problems))[:3]), fn=path)
            else:
                ck.ok("C18.R6", key, fn=path)


def option_set_by(method):
    return {"with_max_level": "filter"}.get(method)


def r7(ck, F):
    """A bridged log record keeps whatever part of its source location it had: each Metadata component is built from the
    same-named field of the LogVisitor alone (a record with a file but no line keeps the file)."""
    b = next((x for x in F.body_list if x.crate == "tracing_log" and x.path.endswith("NormalizeEvent<'a>>::normalized_metadata")), None)
    if not ck.anchor("C18.R7", "NormalizeEvent::normalized_metadata", b):
        return
    key = "normalized_metadata: target/file/line/module_path each from its own field"
    problems = []
    n = 0
    for p in PathEval(b).run():
        if p.end != "return" or not p.ret or p.ret[0] != "agg" or p.ret[2] != "Some":
            continue
        new = p.ret[3][0] if p.ret[3] else None
        if not (new and new[0] == "call" and new[1].endswith("Metadata::<'a>::new") and len(new[2]) >= 6):
            problems.append("Some(..) is not built by Metadata::new")
            continue
        n += 1
        # only an event that came from the `log` crate is rewritten: a native tracing event keeps its own metadata (None)
        is_log = [c[1] for c in p.conds if show(c[0]).startswith("is_log(")]
        if not is_log or is_log[0] == 0:
            problems.append("normalised metadata is produced on a path where is_log() was %s" % (is_log[0] if is_log else "not asked"))
        args = new[2]
        want = {1: "target", 3: "file", 4: "line", 5: "module_path"}
        others = set(want.values())
        for idx, name in want.items():
            txt = show(args[idx])
            if ("." + name) not in txt:
                problems.append("Metadata::new's %s argument is %s: not taken from the visitor's `%s`" % (name, txt[:80], name))
            for o in others - {name}:
                if ("." + o) in txt and not (name == "target"):
                    problems.append("the %s of the normalised metadata also depends on the record's `%s` (%s): a record that has one but not the other loses it" % (name, o, txt[:80]))
        lvl = show(args[2])
        if not lvl.startswith("level(metadata(arg1))"):
            problems.append("the level is %s, not the original event's level" % lvl[:60])
    if n and not problems:
        ck.ok("C18.R7", key, fn=b.path)
    else:
        ck.bad("C18.R7", key, where(b.raw["sp"]), "; ".join(sorted(set(problems))[:3]) or "no Some(Metadata::new(..)) path", fn=b.path)


def r11(ck):
    """tracing's `log` feature renders an event / span's fields into the log record's message with a private Visit impl
    (LogVisitor inside `Display for LogValueSet`). "The text contains every field": each record_* method writes the field
    (one write_fmt on the formatter) or hands it to a sibling that does, on every returning path -- no field is dropped
    because of what it is called."""
    L = Facts("log")
    vis = [i for i in L.impls_of("tracing_core::field::Visit") if "LogVisitor" in i["self_ty"] and i["self_ty"].startswith("<tracing::log::")]
    if not ck.anchor("C18.R11", "Visit for tracing::log::LogVisitor", vis[0] if vis else None):
        return
    for m, path in sorted(vis[0]["methods"].items()):
        b = L.body(path)
        if not ck.anchor("C18.R11", path, b):
            continue
        key = "LogVisitor::%s writes the field on every path" % m
        bad = []
        for p in PathEval(b).run():
            if p.end != "return":
                continue
            wrote = sum(1 for c in p.calls if (c[1].get("path") or "").endswith("Formatter::<'a>::write_fmt") or (c[1].get("path") or "").endswith("Formatter::<'a>::write_str"))
            fwd = sum(1 for c in p.calls if c[1].get("trait") == "tracing_core::field::Visit" and str(c[1].get("method", "")).startswith("record_"))
            if wrote + fwd != 1:
                bad.append("%d writes / %d forwards under %s" % (wrote, fwd, [(show(c[0])[:40], c[1]) for c in p.conds][:3]))
        if bad:
            ck.bad("C18.R11", key, where(b.raw["sp"]), "; ".join(bad[:2]) + ": a field is left out of (or repeated in) the log record's text", fn=b.path)
        else:
            ck.ok("C18.R11", key, fn=b.path)


def r15(ck):
    """The creation record of a span without a collector is emitted by Span::record_all (under the span's own target
    when it has field values, else under `tracing::span`); Span::log asks the logger about *that* target. The macro may
    only skip the call when no record can exist at all: a collector has been installed, or the level is above
    log's STATIC_MAX_LEVEL / max_level()."""
    from rulekit.sym import PathEval, show
    FX = Facts("fx_log")
    if "fx_log" not in ck.configs:
        ck.configs.append("fx_log")
    n = 0
    for fname, exp in sorted(FX.expect.items()):
        if exp["kind"] != "span":
            continue
        b = FX.body("fx_macros_log::macros_gen::" + fname)
        if b is None:
            continue
        lvl = exp["level"].capitalize()
        withheld = []
        must = 0
        for p in PathEval(b).run():
            if p.end != "return":
                continue
            meths = [c[1].get("method") for c in p.calls]
            if "disabled_span" not in meths:
                continue
            conds = [(show(c[0]), c[1]) for c in p.conds if c[0][0] != "const"]
            never_set = any(t == "has_been_set()" and v == 0 for t, v in conds)
            lv = [(t, v) for t, v in conds if t.startswith("le(Level::%s{}, " % lvl) or (t.startswith("ge(") and t.endswith(", Level::%s{})" % lvl))]
            if not never_set or not lv or any(v == 0 for t, v in lv) or not any("max_level()" in t for t, v in lv):
                continue
            must += 1
            if "record_all" not in meths:
                other = [t[:70] for t, v in conds if t != "has_been_set()" and (t, v) not in lv and not t.startswith(("le(promoted", "is_never(", "Not(is_never(", "is_enabled(", "is_always("))]
                # (the logger's own verdict, asked directly -- `log::logger().enabled(&meta)` -- is what Span::log asks as well:
                # whether the metadata it is asked about is the record's is not decided here)
                if other and all(t.startswith("enabled(logger()") for t in other):
                    continue
                withheld.append(other or ["<no further condition>"])
        key = "%s [span!, log]: creation record whenever one can exist" % fname
        n += 1
        if withheld:
            ck.bad("C18.R15", "span! (log feature): the creation record is withheld although a log record can exist", where(b.raw["sp"]),
                   "a path with no collector ever installed and %s <= log::max_level() skips Span::record_all under %s (fixture %s): the logger is never asked "
                   "about the record that would be made (a field-less span's creation record goes to `tracing::span`)" % (lvl, withheld[0], fname), fn=b.path)
        elif must:
            ck.ok("C18.R15", key, fn=b.path, detail=must)
        else:
            ck.bad("C18.R15", key, where(b.raw["sp"]), "no path of the expansion reaches the log fallback (fixture %s)" % fname, fn=b.path)


def r12(ck):
    """Without a collector nobody counts span handles: Drop for Span logs `-- name;` whenever the handle has metadata. Span
    is Clone, so dropping a clone of a span that is still open (and may be entered again) logs a close that did not
    happen, and the real close is logged a second time. Decided structurally: a cloneable handle type whose Drop logs the
    lifecycle record unconditionally (its only guards are `a collector was never installed` and `the span has metadata`)."""
    L = Facts("log")
    d = L.body("<tracing::span::Span as core::ops::drop::Drop>::drop")
    if not ck.anchor("C18.R12", "Drop for Span [log]", d):
        return
    cloneable = any(i.get("trait") == "core::clone::Clone" and i["self_ty"] == "tracing::span::Span" for i in L.impls)
    logs = [bb for bb, t in d.calls() if t["callee"].get("path") == "tracing::span::Span::log"]
    key = "Drop for Span logs the close record once per span"
    if not logs or not cloneable:
        ck.ok("C18.R12", key, fn=d.path, detail="no close record / handle not cloneable")
        return
    g, _ = guards_of(d, logs[0])
    counted = [t for t, v in g if any(k in t for k in ("try_close", "strong_count", "ref_count", "is_last"))]
    if counted:
        ck.ok("C18.R12", key, fn=d.path, detail=counted)
    else:
        ck.bad("C18.R12", "Drop for Span logs a close record for every handle", where(d.raw["sp"]),
               "Span is Clone and its Drop logs `-- name;` under %s only: dropping a clone of an open span invents a close record, and the span's real close is logged again"
               % sorted(t[:40] for t, v in g), fn=d.path)
