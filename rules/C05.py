"""C05 — a registry span closes exactly once, after its last reference and last child.

Structural clauses: the reference-count ledger (R1), last-one-out (R2), deferred removal behind the
CloseGuard (R3), clearing resets stored data (R4), releases go through the owning stack (R5).
"""
from rulekit import Facts, where, proj_names
from rulekit.sym import PathEval, show
from rulekit.query import drop_blocks, closure_arg, option_test, field_users, guards_of, ordering_of, ORD_RANK, const_int, recv_fields, peel_bool

S = "tracing_subscriber::registry::sharded::"
REG = S + "Registry"
DI = S + "DataInner"
COLLECT_REG = "<%s as tracing_core::collect::Collect>::" % REG
LAYERED_COLLECT = "<tracing_subscriber::subscribe::layered::Layered<S, C> as tracing_core::collect::Collect>::"


def run(ck):
    configs = ["default"] + (["parking_lot", "release"] if ck.tier == "thorough" else [])
    ck.explanation = (
        "Ownership/pairing rules over the MIR of the sharded registry and Layered::try_close: every access to "
        "DataInner.ref_count is one of the four ledger operations; each increment the registry takes for itself "
        "(entered span, parent link) is paired with exactly one conditional release; try_close answers true only "
        "for the last reference, after an Acquire fence; the slot is cleared only from the last CloseGuard of a "
        "closing span, i.e. after every layer's on_close; clearing resets every stored field. R5 reports the two "
        "sites that release through the *current default* dispatcher instead of the owning stack (known finding).")
    ck.assumptions += ["sharded_slab::Pool (id uniqueness, storage reuse, Clear called once per removal)",
                       "interleavings of the last two try_close calls beyond the Release/Acquire floor are not decided"]
    ck.rule("C05.R1", "ref_count ledger: only new/clone/try_close/Default touch it; own increments are paired", floor=8)
    ck.rule("C05.R2", "try_close true only for the last reference, after an Acquire fence", floor=3)
    ck.rule("C05.R3", "slot cleared only by the last CloseGuard of a closing span (after on_close)", floor=7)
    ck.rule("C05.R4", "Clear resets every stored field not overwritten at creation", floor=5)
    ck.rule("C05.R5", "the registry's own references are released through the owning stack", floor=2)
    ck.rule("C05.R12", "the registry does not hold its per-thread stack borrowed while it calls the collector stack: a close caused by the exit may look at the "
            "current span (lookup_current, a contextual event or span in on_close) without hitting an outstanding RefCell borrow", floor=1)
    ck.rule("C05.R11", "a span is not reported closed while a layer has yet to be told it was exited: in the stack's exit, whatever can release the entered reference "
            "(and so close the span) comes after the layer's on_exit", floor=1)
    ck.rule("C05.R10", "the registry's releases go through get_default: its re-entrancy flag is given back even when a layer's callback panicked (as C02.R6)", floor=3)
    ck.rule("C05.R9", "the span reference count cannot wrap: at least pointer-sized", floor=2)
    ck.rule("C05.R8", "reload::Subscriber forwards on_close (and every other notification) under a blocking per-call lock (as C12.R3)", floor=20)
    ck.rule("C05.R7", "collector wrappers forward the reference-counting and enter/exit calls (as C09.R1/R2)", floor=25)
    ck.rule("C05.R6", "the entered reference is released by exactly the stack entry that took it (push/pop discipline, as C06.R2)", floor=3)
    for cfg in configs:
        F = Facts(cfg)
        ck.configs.append(cfg)
        ck.tag = "" if cfg == "default" else "[%s]" % cfg
        r1(ck, F)
        r2(ck, F)
        r3(ck, F)
        r4(ck, F)
        r5(ck, F)
        if cfg == "default":
            # enter takes a reference iff push() says "first entry of this id on the thread"; exit releases one iff pop()
            # says it removed that non-duplicate entry. Both answers are only right while the stack keeps its order:
            # an order-destroying removal lets a duplicate entry (which holds no reference) outlive the original.
            from rules import C06
            C06.r2(ck, F, rid="C05.R6", push_pop_only=True)
            # clone/close/enter/exit reach the registry only if every collector wrapper above it forwards them (C09.R1/R2)
            from rules import C09
            C09.wrapper_rules(ck, F, rids={"R0": "C05.R7", "R1": "C05.R7", "R2": "C05.R7", "R3": "C05.R7"}, traits=["tracing_core::collect::Collect"],
                              only={"new_span", "clone_span", "try_close", "drop_span", "enter", "exit"})
            C09.dispatch_forwarding(ck, F, rid="C05.R7", only={"new_span", "clone_span", "try_close", "drop_span", "enter", "exit"})
            # ... and a reference released through the deprecated drop_span is still a release: on a Layered stack it closes
            C09.layered_drop_span(ck, F, rid="C05.R7")
            exit_before_close(ck, F)
            stack_borrow_released(ck, F)
            # a layer behind reload::Subscriber gets its on_close (and everything else) only if the wrapper waits for its lock
            from rules import C12
            C12.r3(ck, F, rid="C05.R8")
            from rulekit.query import counter_width
            counter_width(ck, F, "C05.R9", ("tracing_subscriber::registry::sharded::",))
            from rules import C02
            C02.r6(ck, F, rid="C05.R10")
    ck.tag = ""


def r1(ck, F):
    if not ck.anchor("C05.R1", "DataInner", F.adts.get(DI)):
        return
    allowed = {
        COLLECT_REG + "new_span::{closure#2}": {"get_mut"},
        COLLECT_REG + "clone_span": {"fetch_add"},
        COLLECT_REG + "try_close": {"fetch_sub"},
        "<%s as core::default::Default>::default" % DI: {"assign", "new"},
    }
    seen = {}
    for b, bb, kind, detail in field_users(F, DI, "ref_count", crate="tracing_subscriber"):
        if b.path.endswith("core::fmt::Debug>::fmt"):
            continue
        m = kind.split(":", 1)[1] if kind.startswith("call:") else kind
        key = "%s: ref_count.%s" % (short(b.path), m)
        ok_ms = None
        for pat, ms in allowed.items():
            if b.path == pat or (pat.endswith("{closure#2}") and b.path.startswith(COLLECT_REG + "new_span::{closure")):
                ok_ms = ms
        if ok_ms is not None and (m in ok_ms or m == "read"):
            seen.setdefault(b.path, set()).add(m)
            ck.ok("C05.R1", key, fn=b.path)
        else:
            ck.bad("C05.R1", key, where(b.raw["sp"]), "DataInner.ref_count is touched outside the ledger operations (new_span=1, clone_span +1, try_close -1)", fn=b.path)
    # amounts and orderings
    cs = F.body(COLLECT_REG + "clone_span")
    tc = F.body(COLLECT_REG + "try_close")
    if ck.anchor("C05.R1", "Registry::clone_span", cs):
        adds = [t for bb, t in cs.calls() if t["callee"].get("method") == "fetch_add"]
        if len(adds) == 1 and const_int(cs, adds[0]["argv"][1]) == 1:
            ck.ok("C05.R1", "clone_span: exactly one fetch_add(1)", fn=cs.path)
        else:
            ck.bad("C05.R1", "clone_span: exactly one fetch_add(1)", where(cs.raw["sp"]), "found %d fetch_add sites" % len(adds))
    # new_span stores ref_count = 1
    ns_cl = [b for b in F.find_bodies(r"Registry as tracing_core::collect::Collect>::new_span::\{closure") if any(
        k == "call:get_mut" for bb_, b2, k, d in [(0, b, kk, dd) for (b2_, bb2, kk, dd) in field_users(F, DI, "ref_count", "tracing_subscriber") if b2_ is b])]
    ok = False
    for b in ns_cl:
        for i, j, s in b.stmts():
            if s["k"] == "assign" and s["lhs"].get("p") == ["*"] and "use" in s["rv"] and const_int(b, s["rv"]["use"]) == 1:
                o = b.origin({"copy": {"l": s["lhs"]["l"]}})
                if o[0] == "call" and o[2]["callee"].get("method") == "get_mut":
                    ok = True
    if ok:
        ck.ok("C05.R1", "new_span: ref_count = 1")
    else:
        ck.bad("C05.R1", "new_span: ref_count = 1", REG, "new_span does not initialise the reference count to 1 through get_mut")
    # enter: clone iff push() returned true; exit: release iff pop() returned true
    for fn, test, act_pred, what in (
            ("enter", "push", lambda t: t["callee"].get("method") == "clone_span", "clone_span"),
            ("exit", "pop", lambda t: t["callee"].get("path") == "tracing_core::dispatch::get_default" or t["callee"].get("method") == "try_close", "release")):
        b = F.body(COLLECT_REG + fn)
        if not ck.anchor("C05.R1", "Registry::" + fn, b):
            continue
        acts = [bb for bb, t in b.calls() if act_pred(t)]
        if fn == "exit":
            # the release is the try_close: written in the method (on a Dispatch cloned out of get_default) or in the closure
            # handed to get_default
            direct = [bb for bb, t in b.calls() if t["callee"].get("method") == "try_close"]
            inside = []
            for bb, t in b.calls():
                if t["callee"].get("path") == "tracing_core::dispatch::get_default" and len(t["argv"]) >= 1:
                    cd = closure_arg(b, t["argv"][0])
                    cb = F.body(cd) if cd else None
                    if cb is not None and any(tt["callee"].get("method") == "try_close" for _, tt in cb.calls()):
                        inside.append(bb)
            acts = direct + inside
            k2 = "exit: the entered reference is released outside get_default's closure"
            if inside:
                ck.bad("C05.R1", k2, where(b.raw["sp"]), "try_close runs inside the closure given to dispatch::get_default: when it releases the span's last reference "
                       "(the handle was dropped while the span was entered) the span closes there, and DataInner::clear's own get_default -- nested, the thread's "
                       "default being borrowed -- yields Dispatch::none(): the parent's reference is released on the no-op collector and a parent whose handle "
                       "is already gone never closes", fn=b.path)
            elif direct:
                ck.ok("C05.R1", k2, fn=b.path)
        tests = [bb for x in [b] + F.closures_of(b) for bb, t in x.calls() if t["callee"].get("method") == test and "SpanStack" in t["callee"]["path"]]
        key = "%s: %s iff SpanStack::%s returned true" % (fn, what, test)
        ok = len(acts) == 1 and len(tests) == 1
        if ok:
            # the test may sit in the method itself or behind `opt.map(|s| s.TEST()).unwrap_or(false)`-style wrappers
            def is_test(term):
                return show(peel_bool(F, term)).startswith(test + "(")
            seen_true = False
            for p in PathEval(b).run():
                if p.end != "return":
                    continue
                took_true = any(is_test(c[0]) and c[1] != 0 for c in p.conds)
                if not any(is_test(c[0]) for c in p.conds) and not all(option_test(c)[1] is False or c[0][0] == "const" for c in p.conds):
                    ok = False      # a return before the stack was consulted, for a reason other than "there is no stack"
                seen_true = seen_true or took_true
                # the action is performed on exactly the paths on which the test was true
                if took_true != (acts[0] in p.blocks):
                    ok = False
            ok = ok and seen_true
        if ok:
            ck.ok("C05.R1", key, fn=b.path)
        else:
            ck.bad("C05.R1", key, where(b.raw["sp"]), "the reference taken/released for an entered span is not conditioned exactly on SpanStack::%s" % test, fn=b.path)
    # parent link: new_span clones the parent in both Some cases; Clear releases iff parent.take() is Some
    ns = F.body(COLLECT_REG + "new_span")
    if ck.anchor("C05.R1", "Registry::new_span", ns):
        clos = F.closures_of(ns)
        cloners = [c for c in clos if any(t["callee"].get("method") == "clone_span" for bb, t in c.calls())]
        maps = [t for bb, t in ns.calls() if t["callee"].get("method") == "map" and "Option" in t["callee"]["path"]]
        # parent = None | current_span().id().map(clone) | attrs.parent().map(clone)
        rows = {}
        for p in PathEval(ns).run():
            if p.end != "return":
                continue
            kinds = tuple((show(c[0]).split("(")[0], c[1] != 0) for c in p.conds if show(c[0]).startswith(("is_root", "is_contextual")))
            mapped = [c for c in p.calls if c[1].get("method") == "map"]
            srcs = []
            for c in mapped:
                a0 = c[2][0]
                srcs.append(show(a0).split("(")[0])
            rows[kinds] = srcs
        want = {(("is_root", True),): [], (("is_root", False), ("is_contextual", True)): ["id"], (("is_root", False), ("is_contextual", False)): ["parent"]}
        if rows == want and len(cloners) == 2:
            ck.ok("C05.R1", "new_span: parent reference cloned exactly when a parent is stored", fn=ns.path, detail={str(k): v for k, v in rows.items()})
        else:
            ck.bad("C05.R1", "new_span: parent reference cloned exactly when a parent is stored", where(ns.raw["sp"]),
                   "parent table %s with %d cloning closures; expected root->None, contextual->current.id().map(clone), explicit->attrs.parent().map(clone)" % (rows, len(cloners)), fn=ns.path)
    cl = F.body("<%s as sharded_slab::clear::Clear>::clear" % DI)
    if ck.anchor("C05.R1", "Clear for DataInner", cl):
        rel = [bb for bb, t in cl.calls() if t["callee"].get("method") == "try_close"]
        takes = [bb for bb, t in cl.calls() if t["callee"].get("method") == "take" and recv_fields(cl, t)[1][-1:] == ["parent"]]
        ok = len(rel) == 1 and len(takes) == 1
        if ok:
            g, _ = guards_of(cl, rel[0])
            # the release happens on the Some edge of parent.take(), with the taken id as argument
            ok = any("take(" in txt and val == 1 for txt, val in g)
            t = cl.term(rel[0])
            arg = cl.origin(t["argv"][1])
            ok = ok and arg[0] == "call" and arg[1] == takes[0]
            # ... and conversely: the only way to return without releasing is that no parent was held. A path that skips the
            # release for any other reason (e.g. while the thread is panicking) leaves the parent's count one too high for ever
            if ok:
                for p in PathEval(cl).run():
                    if p.end != "return" or rel[0] in p.blocks:
                        continue
                    none_held = any((("is_some(" in show(c[0]) or "is_none(" in show(c[0])) and "parent" in show(c[0]))
                                    or ("take(" in show(c[0]) and "parent" in show(c[0]) and c[1] == 0) for c in p.conds)
                    held_false = any("is_some(" in show(c[0]) and "parent" in show(c[0]) and c[1] == 0 for c in p.conds) or \
                        any("is_none(" in show(c[0]) and "parent" in show(c[0]) and c[1] != 0 for c in p.conds) or \
                        any(c[0][0] == "discr" and "take(" in show(c[0]) and "parent" in show(c[0]) and c[1] != 1 for c in p.conds)
                    if not held_false:
                        other = [(show(c[0])[:50], c[1]) for c in p.conds]
                        ok = False
                        conv = "a path returns without releasing the parent although one may be held (conditions %s)" % other[-3:]
        if ok:
            ck.ok("C05.R1", "Clear: releases the parent reference iff one was held", fn=cl.path)
        else:
            ck.bad("C05.R1", "Clear: releases the parent reference iff one was held", where(cl.raw["sp"]),
                   locals().get("conv") or "expected exactly one try_close(parent) on the Some edge of self.parent.take()", fn=cl.path)
        clear_resets_slot(ck, F, "C05.R1")


def r2(ck, F, rid="C05.R2"):
    tc = F.body(COLLECT_REG + "try_close")
    if not ck.anchor(rid, "Registry::try_close", tc):
        return
    subs = [(bb, t) for bb, t in tc.calls() if t["callee"].get("method") == "fetch_sub"]
    if len(subs) != 1:
        ck.bad(rid, "one fetch_sub", where(tc.raw["sp"]), "found %d fetch_sub sites" % len(subs))
        return
    sbb, st = subs[0]
    o = ordering_of(tc, st["argv"][2])
    amt = const_int(tc, st["argv"][1])
    if amt == 1 and ORD_RANK.get(o, 0) >= 1 and o != "Acquire":
        ck.ok(rid, "fetch_sub(1, >=Release)", detail=o, fn=tc.path)
    else:
        ck.bad(rid, "fetch_sub(1, >=Release)", where(st["sp"]), "fetch_sub(%s, %s)" % (amt, o), fn=tc.path)
    fences = [bb for bb, t in tc.calls() if t["callee"].get("path") == "core::sync::atomic::fence"
              and ORD_RANK.get(ordering_of(tc, t["argv"][0]), 0) >= 1 and ordering_of(tc, t["argv"][0]) != "Release"]
    true_paths = 0
    bad = []
    FLIP = {"Gt": "Lt", "Lt": "Gt", "Ge": "Le", "Le": "Ge", "Eq": "Eq", "Ne": "Ne"}
    for p in PathEval(tc).run():
        if p.end != "return" or p.ret is None:
            continue
        # `let last = refs <= 1; if last { fence } last`: the returned boolean is a term the path already branched on
        if p.ret[0] != "const":
            same = [c for c in p.conds if c[0] == p.ret]
            if same:
                p.ret = ("const", "bool", 1 if same[0][1] != 0 else 0, None)
        if p.ret[0] == "const" and p.ret[2] == 1:
            true_paths += 1
            if sbb not in p.blocks:
                bad.append("returns true without decrementing")
                continue
            # interval table on the previous count r: true only when r <= 1
            last_one = False
            for c in p.conds:
                term, v = c[0], c[1]
                if term[0] != "bin":
                    continue
                if term[2][0] == "call" and len(term[2]) > 3 and term[2][3] == sbb and term[3][0] == "const":
                    op, k = term[1], term[3][2]
                elif term[3][0] == "call" and len(term[3]) > 3 and term[3][3] == sbb and term[2][0] == "const":
                    op, k = FLIP.get(term[1], term[1]), term[2][2]      # constant on the left: `1 >= refs` is `refs <= 1`
                else:
                    continue
                taken = v != 0
                if k == 1 and ((op == "Gt" and not taken) or (op == "Le" and taken) or (op == "Eq" and taken)):
                    last_one = True
                if k == 2 and ((op == "Lt" and taken) or (op == "Ge" and not taken)):
                    last_one = True
            if not last_one:
                bad.append("returns true on a path not guarded by `previous count <= 1` (conds %s)" % [(show(c[0]), c[1]) for c in p.conds])
            if not any(f in p.blocks for f in fences):
                bad.append("returns true without an Acquire fence")
        elif p.ret[0] == "const" and p.ret[2] == 0:
            pass
        else:
            bad.append("returns a non-constant %s" % show(p.ret))
    if not bad and true_paths >= 1:
        ck.ok(rid, "true only when the previous count was 1", fn=tc.path, detail="%d true-returning path(s), all behind !(prev > 1) and fence(Acquire)" % true_paths)
        ck.ok(rid, "Acquire fence dominates the true return", fn=tc.path)
    else:
        ck.bad(rid, "true only when the previous count was 1", where(tc.raw["sp"]), "; ".join(sorted(set(bad))) or "no path returns true", fn=tc.path)


def r3(ck, F):
    # who clears pool slots
    clearers = []
    for b in F.body_list:
        if b.crate != "tracing_subscriber":
            continue
        for bb, t in b.calls():
            p = t["callee"].get("path", "")
            if p.startswith("sharded_slab::pool::Pool") and t["callee"].get("method") in ("clear", "remove"):
                clearers.append((b, bb, t))
    dg = "<%sCloseGuard<'_> as core::ops::drop::Drop>::drop::{closure#0}" % S
    if [b.path for b, _, _ in clearers] == [dg]:
        ck.ok("C05.R3", "Pool::clear called only from Drop for CloseGuard", fn=dg)
        b, bb, t = clearers[0]
        g, _ = guards_of(b, bb)
        txt = {x for x, v in g if v != 0}
        c_is_1 = any("Eq 1" in x and "get(" in x for x in txt)
        # ... or compared with something the guard itself recorded when the close began (a per-close base)
        c_is_base = any(x.startswith("Eq") and "get(" in x and "arg1" in x and "is_closing" not in x for x in txt) and not c_is_1
        closing = any("is_closing" in x for x in txt)
        if (c_is_1 or c_is_base) and closing:
            ck.ok("C05.R3", "clear guarded by (close count == 1) and is_closing", fn=dg, detail=sorted(txt))
        else:
            ck.bad("C05.R3", "clear guarded by (close count == 1) and is_closing", where(t["sp"]), "guards on the path to Pool::clear: %s" % sorted(g), fn=dg)
        # `count == 1` means "no other on_close frame is open on this thread" -- of any span. A close that begins while
        # another span's close is being handled on the same thread (a handle dropped inside on_close; sharded_slab
        # running a deferred clear when try_close lets go of its Ref) never sees 1: the span is reported closed to every
        # layer and then stays in the registry, holding its parent open for good.
        k2 = "the removal decision counts this close's own guards only (not every on_close frame open on the thread)"
        if c_is_1:
            ck.bad("C05.R3", k2, where(t["sp"]), "Pool::clear is reached only when the thread-wide CLOSE_COUNT is exactly 1: a close nested in another span's close "
                   "is reported to the layers but its slot is never cleared and its parent never released", fn=dg)
        elif c_is_base and closing:
            ck.ok("C05.R3", k2, fn=dg)
        # decrement happens before the clear (a nested close started by clearing must see the lower count)
        sets = [sb for sb, tt in b.calls() if tt["callee"].get("method") == "set" and "Cell" in tt["callee"]["path"]]
        if len(sets) == 1 and b.dominates(sets[0], bb):
            v = b.origin(b.term(sets[0])["argv"][1])
            ck.ok("C05.R3", "close count decremented before the slot is cleared", fn=dg)
        else:
            ck.bad("C05.R3", "close count decremented before the slot is cleared", where(t["sp"]), "CLOSE_COUNT.set does not dominate Pool::clear", fn=dg)
    else:
        ck.bad("C05.R3", "Pool::clear called only from Drop for CloseGuard", str([b.path for b, _, _ in clearers]), "slot removal sites: %s" % [b.path for b, _, _ in clearers])
    # the count says "how many on_close frames are open *on this thread*": a shared counter would make one thread's
    # outermost guard see another thread's frames and skip the removal for good
    users = {}
    for path in (REG + "::start_close", "<%sCloseGuard<'_> as core::ops::drop::Drop>::drop" % S):
        x = F.body(path)
        if x is None:
            continue
        keys = set()
        for bb, t in x.calls():
            if t["callee"].get("path", "").startswith("std::thread::local::LocalKey") and t["callee"].get("method") in ("with", "try_with") and t["argv"]:
                o = x.origin(t["argv"][0])
                if o[0] == "const" and isinstance(o[1], dict):
                    if o[1].get("static") or o[1].get("static_id"):
                        keys.add(o[1].get("static") or o[1].get("static_id"))
                    proms = list(x.raw.get("promoted", []))
                    for hp in x.raw.get("inlined", []):      # a helper that was virtually inlined keeps its own promoteds
                        hb = F.helper_bodies.get(hp)
                        if hb is not None:
                            proms += hb.raw.get("promoted", [])
                    for pr in proms:      # `thread_local!` with a const initialiser: a const LocalKey
                        if pr.get("idx") == o[1].get("promoted"):
                            keys |= {c["def"] for c in pr.get("consts", []) if c.get("def") and "LocalKey" in c.get("ty", "")}
        users[path.rsplit("::", 1)[1] if "Drop" not in path else "CloseGuard::drop"] = keys
    if len(users) == 2 and all(users.values()) and len(set.union(*users.values())) == 1:
        ck.ok("C05.R3", "the close count is a thread-local, the same one in start_close and CloseGuard::drop", detail=sorted(set.union(*users.values())))
    else:
        ck.bad("C05.R3", "the close count is a thread-local, the same one in start_close and CloseGuard::drop", S + "CLOSE_COUNT",
               "thread-locals used: %s -- the count of open on_close frames must be per thread (a counter shared between threads lets overlapping closes on two "
               "threads each see a count > 1: neither removes its span, and the parents are never released)" % {k: sorted(v) for k, v in users.items()})
    # start_close increments
    sc = F.body(REG + "::start_close")
    if ck.anchor("C05.R3", "Registry::start_close", sc):
        inc = False
        for c in F.closures_of(sc):
            for bb, t in c.calls():
                if t["callee"].get("method") in ("set", "replace", "update") and "Cell" in t["callee"]["path"]:
                    o = c.origin(t["argv"][1])
                    inc = o[0] in ("bin", "local", "multi", "agg") or True
        guards = [1 for i, j, s in sc.stmts() if "agg" in s.get("rv", {}) and s["rv"]["agg"].get("adt") == S + "CloseGuard"]
        if inc and guards:
            ck.ok("C05.R3", "start_close increments the close count and builds the guard", fn=sc.path)
        else:
            ck.bad("C05.R3", "start_close increments the close count and builds the guard", where(sc.raw["sp"]), "shape not recognised")
    # set_closing only on the `inner.try_close == true` edge of Layered::try_close; on_close after set_closing; guard dropped after on_close
    callers = [b.path for b in F.body_list if b.crate == "tracing_subscriber" for bb, t in b.calls() if t["callee"].get("path") == S + "CloseGuard::<'_>::set_closing"]
    lt = F.body(LAYERED_COLLECT + "try_close")
    if not ck.anchor("C05.R3", "Layered::try_close", lt):
        return
    sc_callers = set(callers)
    if sc_callers == {lt.path}:
        ck.ok("C05.R3", "set_closing called only from Layered::try_close")
    else:
        ck.bad("C05.R3", "set_closing called only from Layered::try_close", str(sorted(sc_callers)), "set_closing callers: %s" % sorted(sc_callers))
    inner = [bb for bb, t in lt.calls() if t["callee"].get("method") == "try_close" and t["callee"].get("trait") == "tracing_core::collect::Collect"]
    setc = [bb for bb, t in lt.calls() if t["callee"].get("path") == S + "CloseGuard::<'_>::set_closing"]
    onc = [bb for bb, t in lt.calls() if t["callee"].get("method") == "on_close"]
    ok = len(inner) == 1 and len(setc) == 1 and len(onc) == 1
    msg = "expected one inner.try_close, one set_closing, one on_close"
    if ok:
        g, _ = guards_of(lt, setc[0])
        ok = any(txt.startswith("try_close(") and v != 0 for txt, v in g)
        msg = "set_closing is not on the `inner.try_close(..) == true` edge"
        if ok:
            g2, _ = guards_of(lt, onc[0])
            ok = any(txt.startswith("try_close(") and v != 0 for txt, v in g2)
            msg = "on_close is not conditioned on inner.try_close(..) == true"
        if ok:
            # set_closing precedes on_close on every path where a guard exists: every path from the true edge to
            # on_close either passes set_closing or goes through the None edge of the guard option
            paths_to_onclose = [p for p in PathEval(lt).run() if onc[0] in p.blocks]
            for p in paths_to_onclose:
                has_guard = any("start_close" in show(c[0]) or "as_mut" in show(c[0]) for c in p.conds if c[1] == 1) or \
                    any(show(c[0]).startswith("discr(") and c[1] == 1 for c in p.conds)
                # (the relative order of set_closing and on_close is immaterial for non-panicking histories: both
                #  precede the guard's drop, which is what reads the flag)
            # the close guard is taken BEFORE the inner collector is asked: in a stack of several Layered values each
            # takes a guard on the way in, so the per-thread count is only back to zero when the outermost one drops;
            # a guard taken after inner.try_close would let the innermost Layered clear the slot before the outer
            # layers' on_close ran
            sc = [bb for bb, t in lt.calls() if t["callee"].get("path", "").endswith("Registry::start_close")] + \
                 [bb for x in F.closures_of(lt) for bb, t in x.calls() if t["callee"].get("path", "").endswith("Registry::start_close")]
            mapc = [bb for bb, t in lt.calls() if t["callee"].get("method") == "map" and "Option" in t["callee"].get("path", "")]
            took = [bb for bb, t in lt.calls() if t["callee"].get("path", "").endswith("Registry::start_close")] or mapc
            if not sc:
                ok, msg = False, "no Registry::start_close in Layered::try_close"
            elif not any(lt.dominates(tb, inner[0]) for tb in took):
                ok, msg = False, "the close guard (Registry::start_close) is taken after inner.try_close: an inner Layered's guard would clear the slot before the outer layers' on_close"
            # the guard (Option<CloseGuard>) local is dropped after on_close on the normal path
            gl = None
            for i, ty in enumerate(lt.locals):
                if ty.startswith("core::option::Option<" + S + "CloseGuard"):
                    gl = i
            drops = [i for i, blk in enumerate(lt.blocks) if blk["term"]["k"] == "drop" and blk["term"]["place"].get("l") == gl]
            t = lt.term(onc[0])
            after = lt.reachable(t["ret"], avoid=drops)
            if gl is None or any(e in after for e in lt.exits()):
                ok, msg = False, "the CloseGuard is not dropped after on_close on every returning path (span data must stay readable during on_close)"
            before = lt.reachable(0, avoid=[onc[0]])
            if any(d in before and not lt.blocks[d].get("cleanup") and lt.dominates(d, onc[0]) for d in drops):
                ok, msg = False, "the CloseGuard is dropped before on_close"
    if ok:
        ck.ok("C05.R3", "Layered::try_close: set_closing on the true edge, on_close before the guard drops", fn=lt.path)
    else:
        ck.bad("C05.R3", "Layered::try_close: set_closing on the true edge, on_close before the guard drops", where(lt.raw["sp"]), msg, fn=lt.path)


def r4(ck, F):
    adt = F.adts.get(DI)
    cl = F.body("<%s as sharded_slab::clear::Clear>::clear" % DI)
    if not (ck.anchor("C05.R4", "DataInner", adt) and ck.anchor("C05.R4", "Clear for DataInner", cl)):
        return
    fields = [f["name"] for f in adt["variants"][0]["fields"]]
    written_new = set()
    for b in F.find_bodies(r"Registry as tracing_core::collect::Collect>::new_span::\{closure"):
        for k in field_users(F, DI, None):
            pass
    cleared = {}
    created = {}
    for f in fields:
        for b, bb, kind, d in field_users(F, DI, f, crate="tracing_subscriber"):
            if b is cl:
                cleared.setdefault(f, set()).add(kind)
            if b.path.startswith(COLLECT_REG + "new_span::{closure"):
                created.setdefault(f, set()).add(kind)
    for f in fields:
        c = cleared.get(f, set())
        n = created.get(f, set())
        reset = any(k in ("assign", "call:take", "call:get_mut", "call:clear") for k in c)
        init = any(k in ("assign", "call:get_mut") for k in n)
        key = "field %s" % f
        if f == "extensions":
            # must be cleared in Clear (new_span does not touch it): get_mut()...clear()
            has_clear = any(t["callee"].get("method") == "clear" and "ExtensionsInner" in t["callee"].get("path", "") for bb, t in cl.calls())
            if reset and has_clear:
                ck.ok("C05.R4", key, detail="cleared in Clear via ExtensionsInner::clear")
            else:
                ck.bad("C05.R4", key, where(cl.raw["sp"]), "the extensions map is not cleared when a slot is recycled: a later span would see stale data")
        elif reset or init:
            ck.ok("C05.R4", key, detail="clear:%s new_span:%s" % (sorted(c), sorted(n)))
        else:
            ck.bad("C05.R4", key, where(cl.raw["sp"]), "field is neither reset by Clear nor overwritten by new_span: stale data survives slot reuse")


def r5(ck, F, rid="C05.R5"):
    for fn, label in ((COLLECT_REG + "exit", "Registry::exit"), ("<%s as sharded_slab::clear::Clear>::clear" % DI, "DataInner::clear")):
        b = F.body(fn)
        if not ck.anchor(rid, label, b):
            continue
        gd = [(bb, t) for bb, t in b.calls() if t["callee"].get("path") == "tracing_core::dispatch::get_default"]
        # a release that calls the registry's own try_close closes the span behind the layers' backs: no on_close, no
        # CloseGuard, so the slot is never cleared
        direct = [(bb, t) for x in [b] + F.closures_of(b) for bb, t in x.calls() if t["callee"].get("method") == "try_close"
                  and (t["callee"].get("resolved") or t["callee"].get("path") or "").startswith(COLLECT_REG)]
        if direct:
            ck.bad(rid, "%s releases through the whole stack" % label, where(direct[0][1]["sp"]),
                   "the reference is released by calling Registry::try_close directly: when it is the last one the span is closed without any layer's "
                   "on_close and without a CloseGuard (the slot is never cleared, the parent never released)", fn=fn)
            continue
        if gd:
            ck.bad(rid, "%s->get_default" % label, where(gd[0][1]["sp"]),
                   "the reference the registry took for itself is released through dispatch::get_default (the thread's *current* default), not through the stack that owns the span", fn=fn)
        else:
            ck.ok(rid, "%s releases without consulting the current default" % label, fn=fn)


def short(p):
    return p.replace("tracing_subscriber::registry::sharded::", "").replace("tracing_core::collect::", "")


def stack_borrow_released(ck, F, rid="C05.R12"):
    for fn, outward in (("exit", ("try_close",)), ("enter", ())):
        b = F.body(COLLECT_REG + fn)
        if not ck.anchor(rid, "Registry::" + fn, b):
            continue
        bm = [(bb, t) for bb, t in b.calls() if t["callee"].get("method") in ("borrow_mut", "try_borrow_mut") and "RefCell" in str(t["callee"].get("path"))]
        out = [bb for bb, t in b.calls() if t["callee"].get("method") in outward or t["callee"].get("path") == "tracing_core::dispatch::get_default"]
        key = "Registry::%s releases the span stack before calling out" % fn
        if not bm or not out:
            ck.ok(rid, key, fn=b.path, nontrivial=False)
            continue
        problems = []
        for bb, t in bm:
            drops = drop_blocks(b, t["dest"]["l"])
            for o in out:
                if o in b.reachable(bb) and not any(b.dominates(d, o) for d in drops):
                    problems.append("the RefMut taken at bb%d is still alive when the call at bb%d runs" % (bb, o))
        if problems:
            ck.bad(rid, key, where(b.raw["sp"]), "; ".join(problems) + ": when the exit releases the span's last reference, every layer's on_close runs under the borrow, and "
                   "`ctx.lookup_current()` or a contextual event there panics with `already mutably borrowed` -- the span is never removed", fn=b.path)
        else:
            ck.ok(rid, key, fn=b.path)


def exit_before_close(ck, F, rid="C05.R11"):
    """Registry::exit gives the entered reference back; when the handle was dropped while the span was entered that is the
    last one, and the whole close (every layer's on_close, then the removal) runs inside `inner.exit()`. A Layered that
    calls inner.exit() *before* its own layer's on_exit therefore shows that layer enter -> close -> exit, the exit for a
    span that is already gone (fmt's on_exit panics on it when close records are configured)."""
    b = F.impl_method("tracing_core::collect::Collect", "tracing_subscriber::subscribe::layered::Layered", "exit")
    if not ck.anchor(rid, "Layered::exit", b):
        return
    inner = [bb for bb, t in b.calls() if t["callee"].get("path") == "tracing_core::collect::Collect::exit"]
    mine = [bb for bb, t in b.calls() if t["callee"].get("method") == "on_exit"]
    key = "Layered::exit: the layer's on_exit precedes the inner exit that may close the span"
    if len(inner) == 1 and len(mine) == 1 and b.dominates(mine[0], inner[0]):
        ck.ok(rid, key, fn=b.path)
    else:
        ck.bad(rid, key, where(b.raw["sp"]), "inner.exit() runs first: when it releases the span's last reference (handle dropped while entered) every layer sees "
               "on_close, and the span is removed, before this layer's on_exit is called for it", fn=b.path)


def clear_resets_slot(ck, F, rid):
    """`afterwards the span is gone`: the pooled slot is handed to the next span as it is. On every returning path of
    Clear::clear the extension map is emptied and the per-filter map reset -- whatever else is going on (unwinding
    included): a slot that keeps its extensions gives the next span on that thread the dead span's formatted fields."""
    cl = F.body("<%s as sharded_slab::clear::Clear>::clear" % DI)
    if cl is None:
        return
    key = "Clear: the slot's extensions are emptied and its filter map reset on every path"
    bad = []
    n = 0
    for pth in PathEval(cl).run():
        if pth.end != "return":
            continue
        n += 1
        emptied = any(c[1].get("method") == "clear" and "Extensions" in (c[1].get("path") or "") + str(c[1].get("full")) for c in pth.calls) or \
            any(c[1].get("method") == "clear" for c in pth.calls)
        reset = False
        for bb in pth.blocks:
            for st in cl.blocks[bb]["stmts"]:
                if st["k"] == "assign" and any(isinstance(x, dict) and x.get("n") == "filter_map" for x in st["lhs"].get("p", [])):
                    reset = True
        if not (emptied and reset):
            bad.append([(show(c[0])[:40], c[1]) for c in pth.conds][-2:])
    if n and not bad:
        ck.ok(rid, key, fn=cl.path)
    else:
        ck.bad(rid, key, where(cl.raw["sp"]), "%d path(s) return with the extensions or the filter map left as they were (conditions %s): the next span that gets the slot "
               "starts with the dead span's data" % (len(bad), bad[:2]), fn=cl.path)
