"""C13 — fmt writes one complete record per event, to exactly the selected writers.

R1 one factory call (with the event's metadata), one write_all of the whole buffer, nothing else written
R2 the thread-local buffer is empty when formatting starts (also after an unwound formatting)
R3 newline discipline of the single-line formatters
R4 writer combinator decision tables
R5 span lifecycle events go through on_event once, under their FmtSpan flag
"""
from rulekit import Facts, where, proj_names
from rulekit.sym import PathEval, show
from rulekit.query import norm_cmp, guards_of, recv_fields, result_test, flag_guards

FS = "<tracing_subscriber::fmt::fmt_subscriber::Subscriber<C, N, E, W> as tracing_subscriber::subscribe::Subscribe<C>>::"
W = "tracing_subscriber::fmt::writer::"
MW = W + "MakeWriter"
IOW = "std::io::Write"
FE = "tracing_subscriber::fmt::format::FormatEvent"


def run(ck):
    F = Facts("default")
    ck.configs.append("default")
    ck.explanation = (
        "Path rules over the MIR of fmt::Subscriber::on_event (all 18 acyclic paths of its closure): per path at most one "
        "MakeWriter::make_writer_for call, given the event's metadata, followed by exactly one io::Write::write_all of "
        "the formatted buffer on the writer it returned and no other io::Write method; String::clear dominates the "
        "format_event call (so an earlier formatting that unwound cannot leak into this record); single-line formatters "
        "end every Ok path with exactly one writeln; decision tables of the writer combinators; span lifecycle events "
        "are routed through on_event once under their flag. Decides these code-shape clauses, not record content.")
    ck.assumptions += ["writers implement write_all atomically w.r.t. other threads (the property's 'single write')",
                       "field values contain no raw newlines (stated in the property)"]
    ck.rule("C13.R1", "one factory call with the event's metadata, one write_all of the whole buffer per path", floor=10)
    ck.rule("C13.R2", "buffer is cleared before formatting starts", floor=1)
    ck.rule("C13.R3", "single-line formatters end each Ok path with exactly one newline write", floor=3)
    ck.rule("C13.R4", "writer combinators route as their definition denotes", floor=9)
    ck.rule("C13.R11", "every span in scope is written with its fields: the only reason not to write a span's stored fields is that there are none", floor=3)
    ck.rule("C13.R12", "the set of configured span lifecycle points is what the user's expression denotes: FmtSpan's operators compute the operator they are named after", floor=6)
    ck.rule("C13.R13", "a span's formatted fields accumulate: handing out the writer over them and recording further values never discards what is already there", floor=3)
    ck.rule("C13.R14", "a writer expression denotes what its spelling says: each MakeWriterExt adaptor builds its own combinator from (self, argument) in place, the provided make_writer_for is make_writer, and the sum / guard writers forward every io::Write method to the writer they hold", floor=20)
    ck.rule("C13.R19", "a fallback takes over exactly when its primary writes nowhere: `disabled` stays visible through stacked bounds (a range built from two bounds, a "
            "bound on a filtered writer) up to the or_else that asks for it", floor=1)
    ck.rule("C13.R18", "the fields a JSON record shows for a span are the ones last recorded: a later Span::record is merged over the stored object (stored first, "
            "new values on top), and a span without stored fields is written without them (as C14.R2)", floor=6)
    ck.rule("C13.R17", "an event that arrives while the thread's locals are being torn down is still written: on_event reaches its per-thread buffer with try_with and "
            "formats into a fresh buffer when it is gone (as it does when the buffer is busy)", floor=1)
    ck.rule("C13.R16", "the formatted fields a span's lines show are the ones stored for it: the per-span type map files and finds a value under its own type's id (as C14.R12)", floor=9)
    ck.rule("C13.R15", "a clock that cannot tell the time costs the timestamp, not the record: format_timestamp never returns the timer's error", floor=2)
    ck.rule("C13.R10", "every field a formatter's visitor is handed ends up in the record: no record_* path drops a field (except after an earlier write error)", floor=4)
    ck.rule("C13.R9", "formatter options have the polarity of their name: nothing is written because a display_* flag is off", floor=4)
    ck.rule("C13.R8", "a formatting panic the caller caught does not silence the thread: get_default's re-entrancy flag is given back on unwinding (as C02.R6)", floor=3)
    ck.rule("C13.R7", "every formatter takes the spans it names from the event's own scope (explicit parent / explicit root honoured), never from the thread's current span directly", floor=5)
    ck.rule("C13.R6", "formatter/builder conversions keep every option: a rebuilt field comes from the same-named field", floor=60)
    ck.rule("C13.R5", "span lifecycle events: one on_event under the matching FmtSpan flag", floor=4)
    r1_r2(ck, F)
    r3(ck, F)
    r4(ck, F)
    r5(ck, F)
    from rulekit.query import builder_carry_over
    builder_carry_over(ck, F, "C13.R6", ("tracing_subscriber::fmt::",))
    r7(ck, F)
    r7b(ck, F)
    r9(ck, F)
    r10(ck, F)
    r11(ck, F)
    r12(ck, F)
    r12b(ck, F)
    r13(ck, F)
    r14(ck, F)
    r15(ck, F)
    r17(ck, F)
    r19(ck, F)
    from rules import C14 as _C14
    _C14.extensions_typemap(ck, F, "C13.R16")
    _C14.r2(ck, F, rid="C13.R18")
    from rules import C02
    C02.r6(ck, F, rid="C13.R8")


def r1_r2(ck, F, r1id="C13.R1", r2id="C13.R2"):
    b = F.body(FS + "on_event::{closure#0}")
    if not ck.anchor(r1id, "fmt::Subscriber::on_event closure", b):
        return
    paths = [p for p in PathEval(b).run() if p.end == "return"]
    nfmt = 0
    for n, p in enumerate(paths):
        mk = [c for c in p.calls if c[1].get("trait") == MW and c[1].get("method") in ("make_writer_for", "make_writer")]
        wr = [c for c in p.calls if c[1].get("trait") == IOW]
        # `if fmt.format_event(..).is_ok()`, `.is_err()` negated, or a `match` on the Result
        fmt_ok = [result_test(c)[1] for c in p.conds if result_test(c)[0] is not None and "format_event(" in show(result_test(c)[0])]
        formatted = bool(fmt_ok) and fmt_ok[0] is True
        key = "path#%d (%s)" % (n, "formatted" if formatted else "format error")
        problems = []
        if len(mk) > 1:
            problems.append("%d writer factory calls on one path" % len(mk))
        for c in mk:
            if c[1].get("method") != "make_writer_for":
                problems.append("the factory is asked without the event's metadata (make_writer)")
            else:
                a = c[2][1]
                if not (a[0] == "call" and a[1].endswith("Event::<'a>::metadata") and a[2] == (("field", ("arg", 1), "event"),)):
                    problems.append("make_writer_for is given %s, not event.metadata()" % show(a))
        if formatted:
            nfmt += 1
            if len(mk) != 1:
                problems.append("a formatted record is written through %d factory calls (expected 1)" % len(mk))
            if len(wr) != 1 or wr[0][1].get("method") != "write_all":
                problems.append("io::Write methods used: %s (expected exactly one write_all)" % [c[1].get("method") for c in wr])
            else:
                w = wr[0]
                target, data = w[2][0], w[2][1]
                if mk and target != mk[0][3] and not (target[0] == "call" and target[3] == mk[0][0]):
                    problems.append("write_all is not called on the writer returned by make_writer_for")
                if not (data[0] == "call" and data[1].endswith("as_bytes")):
                    problems.append("write_all is given %s, not the whole buffer" % show(data))
        else:
            if len(wr) > 1 or any(c[1].get("method") != "write_all" for c in wr):
                problems.append("io::Write methods on the error path: %s" % [c[1].get("method") for c in wr])
        # a writer is requested only for a record that is then written, and only after formatting is over: the writer a
        # factory hands out may hold a lock or a file for its lifetime, and formatting runs user Debug/Display code
        for c in mk:
            after = [x for x in p.calls if p.calls.index(x) > p.calls.index(c)]
            if any(x[1].get("trait") == FE and x[1].get("method") == "format_event" for x in after):
                problems.append("the writer is requested before format_event runs: it is held while user formatting code runs (a panic there "
                                "drops it unused, poisoning a Mutex writer), and a record that fails to format got a writer for nothing")
            if not any(x[1].get("trait") == IOW and x[1].get("method") == "write_all" for x in after):
                problems.append("a writer is requested on a path that writes nothing to it")
        if problems:
            ck.bad(r1id, "on_event: " + problems[0].split(" (")[0], where(b.raw["sp"]), "; ".join(problems) + " [%s]" % key, fn=b.path)
        else:
            ck.ok(r1id, key, fn=b.path)
    if nfmt == 0:
        ck.bad(r1id, "on_event: no formatted path", where(b.raw["sp"]), "no path on which format_event succeeded was found")
    # R2
    fmt = [(bb, t) for bb, t in b.calls() if t["callee"].get("trait") == FE and t["callee"].get("method") == "format_event"]
    clears = [bb for bb, t in b.calls() if t["callee"].get("path") == "alloc::string::String::clear"]
    if len(fmt) != 1:
        ck.bad(r2id, "one format_event call", where(b.raw["sp"]), "%d format_event call sites" % len(fmt))
        return
    fbb, ft = fmt[0]
    before = [c for c in clears if b.dominates(c, fbb) and c != fbb]
    ok = bool(before)
    how = "String::clear dominates format_event"
    if not ok:
        # alternative idiom: every exit after formatting, including the unwind edge of format_event, passes a clear
        if isinstance(ft.get("unwind"), int):
            ua = b.reachable(ft["unwind"], unwind=True, avoid=clears)
            ra = b.reachable(ft["ret"], unwind=True, avoid=clears)
            ok = not any(b.term(x)["k"] in ("resume", "return") for x in ua | ra)
            how = "every exit after format_event (incl. unwinding) passes String::clear"
    if ok:
        ck.ok(r2id, "buffer empty when formatting starts", detail=how, fn=b.path)
    else:
        ck.bad(r2id, "buffer empty when formatting starts", where(ft["sp"]),
               "String::clear runs only after a record was written normally: if format_event unwinds (a Debug/Display impl panics and the caller "
               "catches it) the partial record stays in the thread-local buffer and is prepended to the next event's record", fn=b.path)


def r3(ck, F):
    FMT = "tracing_subscriber::fmt::format::Format<tracing_subscriber::fmt::format::"
    want = {FMT + "Full,": "Full", FMT + "Compact,": "Compact", FMT + "json::Json,": "Json"}
    for sty, name in want.items():
        b = F.impl_method(FE, sty, "format_event")
        if not ck.anchor("C13.R3", "format_event for " + name, b):
            continue
        bodies = [b] + F.closures_of(b)
        # writeln!(writer) expands to write_fmt(format_args!("\n")): a write whose format string constant is exactly "\n"
        nl_sites = []
        other_nl = []
        for x in bodies:
            for bb, t in x.calls():
                m = t["callee"].get("method")
                if m not in ("write_fmt", "write_str", "write_char"):
                    continue
                args = [x.origin(a) for a in t["argv"][1:]]
                txt = repr(args)
                is_nl = False
                for a in args:
                    if a[0] == "call" and "Arguments" in a[2]["callee"].get("path", ""):
                        pieces = [x.origin(z) for z in a[2]["argv"]]
                        for pz in pieces:
                            if pz[0] == "const" and pz[1].get("str") == "\n":
                                is_nl = True
                        if a[2]["callee"].get("method") in ("from_str", "new_const") or True:
                            for pz in pieces:
                                if pz[0] == "const" and isinstance(pz[1].get("val"), dict):
                                    s = str(pz[1]["val"])
                                    if "'\\n'" in s or "\\\\n" in s:
                                        is_nl = True
                    if a[0] == "const" and a[1].get("str") == "\n":
                        is_nl = True
                    if a[0] == "const" and a[1].get("int") == 10 and m == "write_char":
                        is_nl = True
                if is_nl:
                    (nl_sites if x is b else other_nl).append((x, bb))
        ok = len(nl_sites) == 1 and not other_nl
        why = "%d newline writes in format_event, %d in its closures (expected exactly one, the terminating writeln!)" % (len(nl_sites), len(other_nl))
        if ok:
            nb = nl_sites[0][1]
            # every Ok-returning path passes it, and it is the last writer call
            for p in PathEval(b, max_paths=20000).run():
                if p.end != "return":
                    continue
                r = p.ret
                is_ok = not (r and r[0] == "agg" and r[2] == "Err") and "from_residual" not in show(r)
                if is_ok and nb not in p.blocks:
                    ok, why = False, "an Ok path returns without writing the terminating newline"
                    break
                if nb in p.blocks:
                    after = p.blocks[p.blocks.index(nb) + 1:]
                    later = [c for c in p.calls if c[0] in after and c[1].get("method") in ("write_fmt", "write_str", "write_char")]
                    if later:
                        ok, why = False, "something is written after the terminating newline"
                        break
        if ok:
            ck.ok("C13.R3", "%s: one terminating writeln on every Ok path" % name, fn=b.path)
        else:
            ck.bad("C13.R3", "%s: one terminating writeln on every Ok path" % name, where(b.raw["sp"]), why, fn=b.path)


def r4(ck, F):
    def rows(path):
        b = F.body(path)
        if b is None:
            return None, None
        out = []
        for p in PathEval(b).run():
            if p.end == "return":
                asked = sorted(show(c[2][0]) for c in p.calls if c[1].get("trait") == MW)
                # comparisons in ge/gt form, branch values as "the 0 edge" vs "the other edge" (`match` and `if let .. else` agree)
                out.append(([(show(norm_cmp(c[0])), 0 if c[1] == 0 else "else") for c in p.conds if c[0][0] != "const"], show(p.ret), asked))
        return b, out

    def impl(ty, m):
        return "<%s%s as %sMakeWriter<'a>>::%s" % (W, ty, W, m)

    checks = [
        ("WithMaxLevel<M>", "make_writer_for", [([("le(level(arg2), arg1.level)", 0)], "none()"), ([("le(level(arg2), arg1.level)", None)], "some(make_writer_for(arg1.make, arg2))")]),
        ("WithMinLevel<M>", "make_writer_for", [([("ge(level(arg2), arg1.level)", 0)], "none()"), ([("ge(level(arg2), arg1.level)", None)], "some(make_writer_for(arg1.make, arg2))")]),
        ("WithMaxLevel<M>", "make_writer", [([], "none()")]),
        ("WithMinLevel<M>", "make_writer", [([], "none()")]),
        ("WithFilter<M, F>", "make_writer_for", [([("call(arg1.filter, tuple{arg2})", 0)], "none()"), ([("call(arg1.filter, tuple{arg2})", None)], "some(make_writer_for(arg1.make, arg2))")]),
        ("Tee<A, B>", "make_writer_for", [([], "new(make_writer_for(arg1.a, arg2), make_writer_for(arg1.b, arg2))")]),
        ("Tee<A, B>", "make_writer", [([], "new(make_writer(arg1.a), make_writer(arg1.b))")]),
        ("OrElse<A, B>", "make_writer_for", [([("discr(make_writer_for(arg1.inner, arg2))", 0)], "EitherWriter::A{(make_writer_for(arg1.inner, arg2) as A).0}"),
                                             ([("discr(make_writer_for(arg1.inner, arg2))", 1)], "EitherWriter::B{make_writer_for(arg1.or_else, arg2)}")]),
        ("OrElse<A, B>", "make_writer", [([("discr(make_writer(arg1.inner))", 0)], "EitherWriter::A{(make_writer(arg1.inner) as A).0}"),
                                         ([("discr(make_writer(arg1.inner))", 1)], "EitherWriter::B{make_writer(arg1.or_else)}")]),
    ]
    for ty, m, want in checks:
        b, got = rows(impl(ty, m))
        key = "%s::%s" % (ty.split("<")[0], m)
        if not ck.anchor("C13.R4", key, b):
            continue
        norm = sorted(((tuple(c), r) for c, r, _ in got), key=repr)
        def wnorm(t):
            # the expected tables are written with le(...)/ge(...): bring them to the same normal form
            if t.startswith("le(") and ", " in t:
                a, b2 = t[3:-1].split(", ", 1)
                return "ge(%s, %s)" % (b2, a)
            return t
        wn = sorted(((tuple((wnorm(t), 0 if v == 0 else "else") for t, v in c), r) for c, r in want), key=repr)
        # factories asked on a path are exactly those whose writer the path returns
        extra = [(r, a) for c, r, a in got if any(x not in r and not any(x in ct for ct, _ in c) for x in a)]
        if extra:
            ck.bad("C13.R4", key, where(b.raw["sp"]), "a writer factory is asked although its writer is not returned on that path: %s" % extra, fn=b.path)
            continue
        # accept equivalent comparison forms for the level bounds: !(gt) / lt-swapped
        if norm == wn:
            ck.ok("C13.R4", key, detail=got, fn=b.path)
        else:
            ck.bad("C13.R4", key, where(b.raw["sp"]), "decision table %s; expected %s" % (got, want), fn=b.path)
    # `some` / `none` mean what OrElse relies on: some -> variant A, none -> variant B
    for nm, var in (("some", "A"), ("none", "B")):
        b = F.body(W + "EitherWriter::<T, std::io::util::Sink>::" + nm)
        if not ck.anchor("C13.R4", "OptionalWriter::" + nm, b):
            continue
        r = [p.ret for p in PathEval(b).run() if p.end == "return"]
        if len(r) == 1 and r[0][0] == "agg" and r[0][2] == var:
            ck.ok("C13.R4", "OptionalWriter::%s is EitherWriter::%s" % (nm, var), fn=b.path)
        else:
            ck.bad("C13.R4", "OptionalWriter::%s is EitherWriter::%s" % (nm, var), where(b.raw["sp"]), "returns %s" % [show(x) for x in r])
    # Tee writer forwards every io::Write method to both
    imp = [i for i in F.impls if i.get("trait") == IOW and i["self_ty"].startswith(W + "Tee<")]
    if ck.anchor("C13.R4", "io::Write for Tee", imp):
        # the default write_all / write_fmt loop over `write`, and Tee::write can only report one number for two sinks: with
        # the provided methods a sink that accepts part of the buffer silently loses the rest of the record
        for need in ("write", "write_all", "write_fmt", "flush"):
            if need not in imp[0]["methods"]:
                ck.bad("C13.R4", "Tee overrides io::Write::%s" % need, imp[0]["span"],
                       "Tee relies on the provided io::Write::%s: it loops over Tee::write, whose single return value cannot tell that one of the two sinks took only part of the record" % need)
            else:
                ck.ok("C13.R4", "Tee overrides io::Write::%s" % need, fn=imp[0]["methods"][need])
        for m, path in imp[0]["methods"].items():
            b = F.body(path)
            both = {recv_fields(b, t)[1][-1] if recv_fields(b, t)[1] else None for bb, t in b.calls() if t["callee"].get("trait") == IOW and t["callee"].get("method") == m}
            if both >= {"a", "b"}:
                ck.ok("C13.R4", "Tee::%s forwards to both writers" % m, fn=path)
            else:
                ck.bad("C13.R4", "Tee::%s forwards to both writers" % m, where(b.raw["sp"]), "forwards only to %s" % sorted(x for x in both if x), fn=path)


def r5(ck, F):
    flags = {"on_new_span": "trace_new", "on_enter": "trace_enter", "on_exit": "trace_exit", "on_close": "trace_close"}
    for m, flag in flags.items():
        b = F.body(FS + m)
        if not ck.anchor("C13.R5", "fmt::Subscriber::" + m, b):
            continue
        bodies = [b] + F.closures_of(b)
        def is_on_event(c):
            return c.get("resolved") == FS + "on_event" or c.get("path") == FS + "on_event"
        sites = [(x, bb) for x in bodies for bb, t in x.calls() if is_on_event(t["callee"])]
        # per path at most one on_event; each site guarded by its flag
        ok = bool(sites)
        why = "no on_event call"
        for x, bb in sites:
            if x is not b:
                continue
            g, _ = guards_of(b, bb)
            if not any(txt.startswith(flag + "(") and v != 0 for txt, v in g):
                ok, why = False, "an on_event call is not control-dependent on fmt_span.%s() (guards: %s)" % (flag, sorted(g)[:4])
        for p in PathEval(b).run():
            if p.end != "return":
                continue
            n = sum(1 for c in p.calls if is_on_event(c[1]))
            if n > 1:
                ok, why = False, "%d lifecycle events emitted on one path" % n
            # and conversely: a path on which the flag tested true (and never false) must emit. (The flag accessor is pure;
            # paths that take one of its tests true and another false are infeasible.)
            ft = [c[1] != 0 for c in p.conds if show(c[0]).startswith(flag + "(")]
            if ft and all(ft) and n == 0 and not any(is_on_event(t["callee"]) for x in bodies if x is not b for bb, t in x.calls() if any(
                    c[1].get("resolved") == x.path for c in p.calls)):
                other = [(show(c[0])[:50], c[1]) for c in p.conds if not show(c[0]).startswith(flag + "(")]
                ok, why = False, "with fmt_span.%s() set a path returns without emitting the lifecycle event (other conditions on that path: %s)" % (flag, other[-3:])
        if ok:
            ck.ok("C13.R5", "%s emits its lifecycle event once, iff %s" % (m, flag), fn=b.path)
        else:
            ck.bad("C13.R5", "%s emits its lifecycle event once, iff %s" % (m, flag), where(b.raw["sp"]), why, fn=b.path)


def r7(ck, F, rid="C13.R7"):
    """Which spans are "in scope" for a record is a property of the event: its explicit parent, the current span if it is
    contextual, nothing if it is an explicit root (span lifecycle records name the span itself as explicit parent).
    FmtContext::event_scope / parent_span (Context::event_span) implement exactly that three-way choice; a formatter that
    asks for the thread's current span, or re-derives the choice from Event::parent() alone, gets roots and explicit parents
    wrong. Sibling rule over the four FormatEvent impls of `Format<_, T>`."""
    EVENT_AWARE = ("event_scope", "parent_span", "event_span")
    n = 0
    for i in F.impls_of("tracing_subscriber::fmt::format::FormatEvent"):
        if not i["self_ty"].startswith("tracing_subscriber::fmt::format::Format<"):
            continue
        m = i["methods"].get("format_event")
        b = F.body(m) if m else None
        kind = i["self_ty"].split("<", 1)[1].split(",")[0].rsplit("::", 1)[-1]
        if not ck.anchor(rid, "format_event for Format<%s>" % kind, b):
            continue
        n += 1
        aware, naive = [], []
        for x in [b] + F.closures_of(b):
            for bb, t in x.calls():
                p = t["callee"].get("path") or ""
                last = p.rsplit("::", 1)[-1]
                if ("FmtContext" in p or "subscribe::context::Context" in p) and last in EVENT_AWARE:
                    aware.append(last)
                elif ("FmtContext" in p or "subscribe::context::Context" in p) and last in ("lookup_current", "current_span"):
                    naive.append("%s at %s" % (last, where(t["sp"])))
                elif p.startswith("tracing_core::event::Event") and last in ("parent", "is_root", "is_contextual"):
                    naive.append("Event::%s at %s" % (last, where(t["sp"])))
        key = "Format<%s>::format_event resolves the record's spans through the event-aware lookup" % kind
        if aware and not naive:
            ck.ok(rid, key, fn=b.path, detail=sorted(set(aware)))
        else:
            ck.bad(rid, key, where(b.raw["sp"]), "uses %s%s: span lifecycle records and events with an explicit parent or an explicit root would name the wrong spans"
                   % ("; ".join(naive) or "no span lookup", "" if aware else " and none of event_scope/parent_span"), fn=b.path)


def r7b(ck, F, rid="C13.R7"):
    """The same for everything else the formatters are made of (the JSON span list is serialised by a helper type, not by
    format_event itself): no function under fmt/format/ asks the context for the thread's current span."""
    bad = []
    n = 0
    for x in F.body_list:
        if x.crate != "tracing_subscriber" or "src/fmt/format/" not in str(x.raw["sp"].get("f", "")):
            continue
        n += 1
        for bb, t in x.calls():
            p = t["callee"].get("path") or ""
            if ("FmtContext" in p or "subscribe::context::Context" in p) and p.rsplit("::", 1)[-1] in ("lookup_current", "current_span"):
                bad.append("%s at %s" % (p.rsplit("::", 1)[-1], where(t["sp"])))
    key = "no formatter helper reads the thread's current span instead of the event's scope"
    if bad:
        ck.bad(rid, key, bad[0].split(" at ")[1], "; ".join(sorted(set(bad))) + ": a record for an event with an explicit parent (every span lifecycle record is one) would list the wrong spans")
    else:
        ck.ok(rid, key, detail="%d bodies under fmt/format/" % n)


def r9(ck, F):
    """Each display_* option guards the datum it names with the polarity of its name. The formatters legitimately write
    layout glue (separators, a thread-id fallback for the name) on the off side of a flag, so the rule is about the
    datum: the call that produces it -- the timestamp, the thread name / id, the file, the line, the target -- must not sit
    on the off side of *its own* flag, unless that path is the on side of another display flag (the documented
    `threadName` fallback to the id)."""
    PRODUCERS = {"display_timestamp": ("format_time", "format_timestamp"), "display_thread_name": ("name",), "display_thread_id": ("id",),
                 "display_filename": ("file",), "display_line_number": ("line",), "display_target": ("target",), "display_level": ("level",)}
    OWNER = {"name": "thread::Thread::", "id": "thread::Thread::", "file": "metadata::Metadata::", "line": "metadata::Metadata::",
             "target": "metadata::Metadata::", "level": "metadata::Metadata::"}
    import re as _re
    for i in F.impls_of("tracing_subscriber::fmt::format::FormatEvent"):
        if not i["self_ty"].startswith("tracing_subscriber::fmt::format::Format<"):
            continue
        m = i["methods"].get("format_event")
        b = F.body(m) if m else None
        kind = i["self_ty"].split("<", 1)[1].split(",")[0].rsplit("::", 1)[-1]
        if not ck.anchor("C13.R9", "format_event for Format<%s>" % kind, b):
            continue
        bad = set()
        seen = set()
        helper = F.body("tracing_subscriber::fmt::format::Format::<F, T>::format_timestamp")
        for x in [b] + F.closures_of(b) + ([helper] if helper is not None else []):
            for bb, t in x.calls():
                meth = t["callee"].get("method")
                pth = t["callee"].get("path") or ""
                for flag, prods in PRODUCERS.items():
                    if meth not in prods or (meth in OWNER and OWNER[meth] not in pth):
                        continue
                    g = flag_guards(x, bb)
                    own = [v for f_, v in g if f_ == flag]
                    other_on = [f_ for f_, v in g if f_ != flag and v]
                    if own:
                        seen.add(flag)
                    # the one documented cross-flag case: with thread names on, a thread without a name shows its id
                    fallback = meth == "id" and "display_thread_name" in other_on
                    if any(v == 0 or v is False for v in own) and not fallback:
                        bad.add("%s() at %s is produced when %s is off" % (meth, where(t["sp"]), flag))
        # JSON: the entry itself names the datum
        JSON_KEYS = {"timestamp": "display_timestamp", "level": "display_level", "target": "display_target", "threadName": "display_thread_name",
                     "threadId": "display_thread_id", "filename": "display_filename", "line_number": "display_line_number",
                     "span": "display_current_span", "spans": "display_span_list"}
        for x in [b] + F.closures_of(b):
            for bb, t in x.calls():
                if t["callee"].get("method") != "serialize_entry" or len(t["argv"]) < 2:
                    continue
                o = x.origin(t["argv"][1])
                k = o[1].get("str") if o[0] == "const" and isinstance(o[1], dict) else None
                flag = JSON_KEYS.get(k)
                if not flag:
                    continue
                g = flag_guards(x, bb)
                own = [v for f_, v in g if f_ == flag]
                other_on = [f_ for f_, v in g if f_ != flag and v]
                if own:
                    seen.add(flag)
                if not own and flag not in ("display_current_span", "display_span_list"):
                    bad.add("the %r entry at %s is not guarded by %s" % (k, where(t["sp"]), flag))
                if any(v == 0 or v is False for v in own) and not other_on:
                    bad.add("the %r entry at %s is written when %s is off" % (k, where(t["sp"]), flag))
        key = "Format<%s>::format_event produces no datum on the off side of its own display_* flag" % kind
        if bad:
            ck.bad("C13.R9", key, where(b.raw["sp"]), "; ".join(sorted(bad)[:3]), fn=b.path)
        else:
            ck.ok("C13.R9", key, fn=b.path, detail=sorted(seen))


def r12(ck, F):
    """`each configured span lifecycle point`: the configuration is a FmtSpan value built with |, &, ^ and their assigning
    forms. Each of the six impls combines the two bit sets with exactly the operator of its trait (a `|=` that toggles
    clears the bits two overlapping constants share: `ENTER |= ACTIVE` would lose `enter`)."""
    WANT = {"BitOr": "BitOr", "BitAnd": "BitAnd", "BitXor": "BitXor", "BitOrAssign": "BitOr", "BitAndAssign": "BitAnd", "BitXorAssign": "BitXor"}
    for i in F.impls:
        tr = i.get("trait") or ""
        if not tr.startswith("core::ops::bit::") or i["self_ty"] != "tracing_subscriber::fmt::format::FmtSpan":
            continue
        name = tr.rsplit("::", 1)[-1]
        for m, pth in i["methods"].items():
            b = F.body(pth)
            key = "FmtSpan: %s computes %s" % (name, WANT.get(name))
            if b is None or name not in WANT:
                continue
            ops = [st["rv"]["bin"] for _, _, st in b.stmts() if st["k"] == "assign" and "bin" in st.get("rv", {})]
            if ops == [WANT[name]]:
                ck.ok("C13.R12", key, fn=b.path)
            else:
                ck.bad("C13.R12", key, where(b.raw["sp"]), "the body combines the two sets with %s" % ops, fn=b.path)


def r12b(ck, F):
    """The rest of the configuration's meaning: four lifecycle points are four distinct single bits, the named unions are
    the unions their names say, `contains` is the subset test, and each trace_<point>() asks for its own point."""
    P = "tracing_subscriber::fmt::format::"
    c = {n: (F.consts.get(P + "FmtSpan::" + n) or {}).get("val", {}).get("int") for n in ("NEW", "ENTER", "EXIT", "CLOSE", "NONE", "ACTIVE", "FULL")}
    key = "FmtSpan constants: four distinct bits; NONE empty, ACTIVE = ENTER|EXIT, FULL = all four"
    base = [c[n] for n in ("NEW", "ENTER", "EXIT", "CLOSE")]
    ok = all(isinstance(v, int) for v in c.values()) and all(v and v & (v - 1) == 0 for v in base) and len(set(base)) == 4 and c["NONE"] == 0 \
        and c["ACTIVE"] == c["ENTER"] | c["EXIT"] and c["FULL"] == base[0] | base[1] | base[2] | base[3]
    if ok:
        ck.ok("C13.R12", key, detail=c)
    else:
        ck.bad("C13.R12", key, P + "FmtSpan", "constants evaluate to %s" % c)
    b = F.body(P + "FmtSpan::contains")
    if ck.anchor("C13.R12", "FmtSpan::contains", b):
        rets = [show(p.ret) for p in PathEval(b).run() if p.end == "return"]
        key = "FmtSpan::contains(other) is (self & other) == other"
        if len(rets) == 1 and rets[0].replace("clone(arg1)", "arg1").replace("clone(arg2)", "arg2") in ("eq(bitand(arg1, arg2), arg2)", "eq(arg2, bitand(arg1, arg2))", "eq(bitand(arg2, arg1), arg2)"):
            ck.ok("C13.R12", key, fn=b.path)
        else:
            ck.bad("C13.R12", key, where(b.raw["sp"]), "contains returns %s" % rets, fn=b.path)
    for pt in ("new", "enter", "exit", "close"):
        b = F.body(P + "FmtSpanConfig::trace_" + pt)
        if not ck.anchor("C13.R12", "FmtSpanConfig::trace_" + pt, b):
            continue
        rets = [show(p.ret) for p in PathEval(b).run() if p.end == "return"]
        key = "trace_%s() asks whether the configuration contains %s" % (pt, pt.upper())
        if rets == ["contains(arg1.kind, FmtSpan::%s)" % pt.upper()]:
            ck.ok("C13.R12", key, fn=b.path)
        else:
            ck.bad("C13.R12", key, where(b.raw["sp"]), "trace_%s returns %s" % (pt, rets), fn=b.path)


def r13(ck, F):
    """`every span in scope ... with its fields`, also those recorded after creation: FormattedFields::as_writer is a
    view (it wraps `&mut self.fields`, nothing else), and the appending add_fields implementations (the trait default
    used by full/compact, and Pretty's) only ever push onto the stored text."""
    SHRINK = ("clear", "truncate", "drain", "pop", "remove", "replace_range", "retain", "take", "split_off")
    aw = F.body("tracing_subscriber::fmt::fmt_subscriber::FormattedFields::<E>::as_writer")
    if ck.anchor("C13.R13", "FormattedFields::as_writer", aw):
        calls = [t["callee"].get("method") for bb, t in aw.calls()]
        writes = [1 for i, j, st in aw.stmts() if st["k"] == "assign" and any(isinstance(x, dict) and x.get("n") == "fields" for x in st["lhs"].get("p", []))]
        key = "FormattedFields::as_writer only wraps the stored text"
        if set(calls) <= {"new", "with_ansi"} and not writes:
            ck.ok("C13.R13", key, fn=aw.path)
        else:
            ck.bad("C13.R13", key, where(aw.raw["sp"]), "as_writer calls %s%s: fields formatted earlier (at span creation, by an earlier record) are gone from every later line"
                   % (sorted(set(calls) - {"new", "with_ansi"}), " and assigns to .fields" if writes else ""), fn=aw.path)
    for path, nm in (("tracing_subscriber::fmt::format::FormatFields::add_fields", "FormatFields::add_fields (provided)"),
                     ("<tracing_subscriber::fmt::format::pretty::Pretty as tracing_subscriber::fmt::format::FormatFields<'writer>>::add_fields", "Pretty::add_fields")):
        b = F.body(path)
        if not ck.anchor("C13.R13", nm, b):
            continue
        key = "%s appends to the span's formatted fields" % nm
        shrink = [t["callee"].get("method") for bb, t in b.calls() if t["callee"].get("method") in SHRINK]
        assigns = [1 for i, j, st in b.stmts() if st["k"] == "assign" and any(isinstance(x, dict) and x.get("n") == "fields" for x in st["lhs"].get("p", []))
                   and not ("agg" in st.get("rv", {}))]
        if shrink or assigns:
            ck.bad("C13.R13", key, where(b.raw["sp"]), "the stored text is shortened or replaced (%s)" % (shrink or "assignment to .fields"), fn=b.path)
        else:
            ck.ok("C13.R13", key, fn=b.path)
        # ... and the new values are actually visited: every returning path hands the record to a visitor (record) or to
        # format_fields, which does
        visits = [any(c[1].get("method") in ("record", "format_fields") for c in pth.calls) for pth in PathEval(b).run() if pth.end == "return"]
        kv = "%s visits the values being recorded" % nm
        if visits and all(visits):
            ck.ok("C13.R13", kv, fn=b.path)
        else:
            ck.bad("C13.R13", kv, where(b.raw["sp"]), "%d of %d returning paths never hand the record to a visitor: values recorded after the span was created never show up" % (visits.count(False), len(visits)), fn=b.path)
        # ... separated from what is already there: a separator is pushed exactly when the stored text is non-empty
        rows = {}
        for pth in PathEval(b).run():
            if pth.end != "return":
                continue
            e = [c[1] for c in pth.conds if show(c[0]).startswith("is_empty(") and ".fields" in show(c[0])]
            if e:
                rows[e[0] != 0] = any(c[1].get("method") in ("push", "push_str", "write_char", "write_str") for c in pth.calls)
        if rows:
            k2 = "%s separates the new fields from the stored ones exactly when there are stored ones" % nm
            if rows.get(False) is True and rows.get(True) is False:
                ck.ok("C13.R13", k2, fn=b.path)
            else:
                ck.bad("C13.R13", k2, where(b.raw["sp"]), "separator pushed: %s (keyed by `stored text is empty`): fields recorded later run into the ones recorded earlier "
                       "(`a=1b=2`), or a fresh span's fields start with a blank" % rows, fn=b.path)


def r14(ck, F):
    """R4 decides what each combinator *does*; this decides that `a.with_max_level(l).and(b).or_else(c)` builds those
    combinators: adaptor -> constructor -> fields, argument order kept (self first); plus the plumbing writers."""
    ADAPT = {"with_max_level": "WithMaxLevel::<M>", "with_min_level": "WithMinLevel::<M>", "with_filter": "WithFilter::<M, F>", "and": "Tee::<A, B>", "or_else": "OrElse::<A, B>"}
    for m, ty in ADAPT.items():
        b = F.body(W + "MakeWriterExt::" + m)
        key = "MakeWriterExt::%s builds %s from (self, argument)" % (m, ty.split("::")[0])
        if not ck.anchor("C13.R14", "MakeWriterExt::" + m, b):
            continue
        rets = [p.ret for p in PathEval(b).run() if p.end == "return"]
        # (through the combinator's constructor, or by writing the struct literal in place: fields in declaration order)
        ok = len(rets) == 1 and ((rets[0][0] == "call" and rets[0][1] == W + ty + "::new" and [show(a) for a in rets[0][2]] == ["arg1", "arg2"]) or
                                 (rets[0][0] == "agg" and rets[0][1] == W + ty.split("::")[0] and [show(a) for a in rets[0][3]] == ["arg1", "arg2"]))
        if ok:
            ck.ok("C13.R14", key, fn=b.path)
        else:
            ck.bad("C13.R14", key, where(b.raw["sp"]), "returns %s" % [show(r)[:80] for r in rets], fn=b.path)
        nb = F.body(W + ty + "::new")
        key = "%s::new stores its arguments in declaration order" % ty.split("::")[0]
        if not ck.anchor("C13.R14", ty + "::new", nb):
            continue
        rets = [p.ret for p in PathEval(nb).run() if p.end == "return"]
        ok = len(rets) == 1 and rets[0][0] == "agg" and [show(a) for a in rets[0][3]] == ["arg1", "arg2"]
        if ok:
            ck.ok("C13.R14", key, fn=nb.path)
        else:
            ck.bad("C13.R14", key, where(nb.raw["sp"]), "builds %s" % [show(r)[:80] for r in rets], fn=nb.path)
    b = F.body(W + "MakeWriter::make_writer_for")
    if ck.anchor("C13.R14", "MakeWriter::make_writer_for (provided)", b):
        rets = [show(p.ret) for p in PathEval(b).run() if p.end == "return"]
        key = "the provided make_writer_for is make_writer"
        if rets == ["make_writer(arg1)"]:
            ck.ok("C13.R14", key, fn=b.path)
        else:
            ck.bad("C13.R14", key, where(b.raw["sp"]), "returns %s" % rets, fn=b.path)
    for i in F.impls:
        if i.get("trait") != IOW:
            continue
        st = i["self_ty"]
        if not (st.startswith(W + "EitherWriter<") or st.startswith(W + "MutexGuardWriter<")):
            continue
        short = st[len(W):].split("<")[0]
        for m, pth in sorted(i["methods"].items()):
            b = F.body(pth)
            if b is None:
                continue
            key = "%s::%s forwards to the writer it holds" % (short, m)
            problems = []
            for pth_ in PathEval(b).run():
                if pth_.end != "return":
                    continue
                r = pth_.ret
                if not (r[0] == "call" and r[1].endswith("::" + m)):
                    problems.append("returns %s" % show(r)[:60])
                    continue
                recv = show(r[2][0])
                if short == "EitherWriter":
                    d = [c[1] for c in pth_.conds if show(c[0]) == "discr(arg1)"]
                    want = {0: "(arg1 as A).0", 1: "(arg1 as B).0"}.get(d[0] if d else None)
                    if recv != want:
                        problems.append("variant %s forwards to %s" % (d, recv))
                elif "arg1.0" not in recv:
                    problems.append("forwards to %s" % recv)
                if [show(a) for a in r[2][1:]] != ["arg%d" % k for k in range(2, b.argc + 1)]:
                    problems.append("arguments %s" % [show(a) for a in r[2][1:]])
            if problems:
                ck.bad("C13.R14", key, where(b.raw["sp"]), "; ".join(sorted(set(problems))), fn=b.path)
            else:
                ck.ok("C13.R14", key, fn=b.path)


def r19(ck, F):
    """or_else looks at the outermost variant of the primary's OptionalWriter. with_max_level / with_min_level / with_filter
    wrap whatever their inner factory returned in `some(..)` -- also when that is itself an OptionalWriter that is `none()`
    (the inner bound rejected the record). `a.with_max_level(DEBUG).with_min_level(INFO).or_else(b)`: a TRACE record passes
    the outer bound, is rejected by the inner one, the primary yields `some(none())`, or_else takes it for enabled, never
    asks `b`, and the record is written to io::sink."""
    oe = F.impl_method(MW, W + "OrElse<", "make_writer_for") or next((F.body(i["methods"]["make_writer_for"]) for i in F.impls_of(MW) if "OrElse<" in i["self_ty"] and "make_writer_for" in i["methods"]), None)
    if not ck.anchor("C13.R19", "OrElse::make_writer_for", oe):
        return
    outer_only = all(any(show(c[0]).startswith("discr(make_writer_for(arg1.") for c in p.conds) and
                     not any("as A).0)" in show(c[0]) and show(c[0]).startswith("discr(") for c in p.conds)
                     for p in PathEval(oe).run() if p.end == "return")
    blind = []
    for i in F.impls_of(MW):
        st = i["self_ty"]
        if not any(k in st for k in ("WithMaxLevel<", "WithMinLevel<", "WithFilter<")):
            continue
        b = F.body(i["methods"].get("make_writer_for") or "")
        if b is None:
            continue
        for p in PathEval(b).run():
            if p.end == "return" and show(p.ret).startswith("some(make_writer_for(arg1.") and not any("make_writer_for(" in show(c[0]) for c in p.conds):
                blind.append(st.split("::")[-1].split("<")[0])
    key = "bounded writers keep `disabled` visible to or_else"
    if outer_only and blind:
        ck.bad("C13.R19", key, where(oe.raw["sp"]), "%s wrap the inner factory's writer in some(..) without looking at it, and OrElse::make_writer_for decides on the outermost "
               "variant alone: a primary built from two stacked bounds yields some(none()) for a record the inner bound rejects -- the fallback is not asked and the record "
               "reaches no sink" % sorted(set(blind)), fn=oe.path)
    else:
        ck.ok("C13.R19", key, fn=oe.path, detail=dict(outer_only=outer_only, blind=sorted(set(blind))))


def r17(ck, F):
    b = F.body(FS + "on_event")
    if not ck.anchor("C13.R17", "fmt::Subscriber::on_event", b):
        return
    key = "on_event's thread-local buffer access cannot panic"
    hard = [(bb, t) for bb, t in b.calls() if str(t["callee"].get("path", "")).endswith("LocalKey::<T>::with")]
    soft = [(bb, t) for bb, t in b.calls() if str(t["callee"].get("path", "")).endswith("LocalKey::<T>::try_with")]
    if hard:
        ck.bad("C13.R17", key, where(hard[0][1]["sp"]), "LocalKey::with panics once the thread-local has been destroyed: an event emitted from another thread-local's destructor "
               "(or a span closed there, with close records on) is dispatched normally, reaches on_event after its buffer is gone, and the panic inside a TLS destructor "
               "aborts the process -- the record is never written", fn=b.path)
    elif soft:
        # ... and the formatting work is also done on the failure path: the closure is called outside try_with as well
        # on the path where try_with failed, the formatting closure is called directly (with no buffer)
        fallback = False
        for pth in PathEval(b).run():
            failed = any((show(c[0]).startswith("is_err(try_with(") and c[1] != 0) or (show(c[0]).startswith("is_ok(try_with(") and c[1] == 0) or
                         (show(c[0]).startswith("discr(try_with(") and c[1] == 1) for c in pth.conds)
            if failed and pth.end == "return" and any("on_event::{closure" in str(c[1].get("path", "")) + str(c[1].get("full", "")) or c[1].get("method") in ("call", "call_once", "call_mut")
                                                      for c in pth.calls if c[1].get("method") != "try_with"):
                fallback = True
        if fallback:
            ck.ok("C13.R17", key, fn=b.path)
        else:
            ck.bad("C13.R17", key, where(b.raw["sp"]), "try_with's failure is not followed by formatting into a fresh buffer: the record is silently lost", fn=b.path)
    else:
        ck.ok("C13.R17", key, fn=b.path, detail="no thread-local buffer")


def r15(ck, F):
    """FormatTime::format_time may fail for reasons that have nothing to do with the writer (LocalTime without a known
    offset, a custom clock). The three text formatters share Format::format_timestamp; if it hands that error on, every
    format_event fails and the event's record -- level, spans, fields -- is replaced by an error notice or by nothing."""
    b = F.body("tracing_subscriber::fmt::format::Format::<F, T>::format_timestamp")
    if not ck.anchor("C13.R15", "Format::format_timestamp", b):
        return
    key = "Format::format_timestamp swallows the timer's error (and says so in the record)"
    leaks = []
    n = 0
    for pth in PathEval(b).run():
        if pth.end != "return":
            continue
        n += 1
        r = show(pth.ret)
        failed = any(("format_time(" in show(c[0])) and ((show(c[0]).startswith("is_err(") and c[1] != 0) or (show(c[0]).startswith("is_ok(") and c[1] == 0)
                     or (show(c[0]).startswith("discr(") and c[1] == 1)) for c in pth.conds)
        if "format_time(" in r and ("from_residual" in r or "Err" in r) or (failed and not r.startswith("Result::Ok") and "write" not in r and "format_time(" in r):
            leaks.append(r[:80])
        elif r.startswith("format_time("):
            leaks.append(r[:80])          # `return self.timer.format_time(writer)`: the timer's result is the function's result
    if n and not leaks:
        ck.ok("C13.R15", key, fn=b.path)
    else:
        ck.bad("C13.R15", key, where(b.raw["sp"]), "a path returns %s: with a failing timer every event's record is lost" % sorted(set(leaks))[:2], fn=b.path)
    # the JSON formatter asks the timer itself: same rule
    jb = F.impl_method("tracing_subscriber::fmt::format::FormatEvent", "tracing_subscriber::fmt::format::Format<tracing_subscriber::fmt::format::json::Json", "format_event")
    if jb is not None:
        key = "Format<Json>::format_event swallows the timer's error"
        leaks = sorted({show(p.ret)[:80] for p in PathEval(jb, max_paths=3000).run() if p.end == "return" and p.ret is not None and "format_time(" in show(p.ret)
                        and ("from_residual" in show(p.ret) or show(p.ret).startswith("format_time("))})
        if not leaks:
            ck.ok("C13.R15", key, fn=jb.path)
        else:
            ck.bad("C13.R15", key, where(jb.raw["sp"]), "a path returns %s: with a failing timer every JSON line is lost, while the text formatters write `<unknown time>`" % leaks[:2], fn=jb.path)
    # ... and on the path where the timer failed, what stands in the record for the time is the placeholder alone: whatever
    # the timer wrote before failing is discarded (JSON: the scratch string is cleared) and `<unknown time>` is written
    for fb, nm, need_clear in ((b, "Format::format_timestamp", False), (jb, "Format<Json>::format_event", True)):
        if fb is None:
            continue
        rows = []
        for pth in PathEval(fb, max_paths=3000).run():
            failed = any(("format_time(" in show(c[0])) and ((show(c[0]).startswith("is_err(") and c[1] != 0) or (show(c[0]).startswith("is_ok(") and c[1] == 0)
                         or (show(c[0]).startswith("discr(") and c[1] == 1)) for c in pth.conds)
            if not failed or pth.end != "return":
                continue
            texts = [show(a) for c in pth.calls for a in c[2][1:]]
            said = any("unknown time" in t for t in texts)
            cleared = [i for i, c in enumerate(pth.calls) if c[1].get("method") == "clear" and "String" in str(c[1].get("path"))]
            said_at = [i for i, c in enumerate(pth.calls) if any("unknown time" in show(a) for a in c[2][1:])]
            rows.append(said and (not need_clear or bool(cleared and said_at and min(cleared) < min(said_at))))
        k2 = "%s: a failed timer leaves exactly `<unknown time>` in the record" % nm
        if rows and all(rows):
            ck.ok("C13.R15", k2, fn=fb.path, detail=len(rows))
        elif rows:
            ck.bad("C13.R15", k2, where(fb.raw["sp"]), "%d of %d failed-timer paths do not write the placeholder%s" % (rows.count(False), len(rows), " after clearing the partial text" if need_clear else ""), fn=fb.path)


def r11(ck, F):
    """`every span in scope ... with its fields`: the text formatters print a span's FormattedFields behind an emptiness
    test. The write must sit on the non-empty side, and nothing else may gate it."""
    from rulekit.query import guards_of
    for i in F.impls_of("tracing_subscriber::fmt::format::FormatEvent"):
        if not i["self_ty"].startswith("tracing_subscriber::fmt::format::Format<"):
            continue
        kind = i["self_ty"].split("<", 1)[1].split(",")[0].rsplit("::", 1)[-1]
        if kind == "Json":
            continue            # the JSON formatter serialises the stored object (C14)
        b = F.body(i["methods"].get("format_event") or "")
        if not ck.anchor("C13.R11", "format_event for Format<%s>" % kind, b):
            continue
        key = "Format<%s>::format_event writes a span's fields unless they are empty" % kind
        sites = []
        problems = []
        for x in [b] + F.closures_of(b):
            for bb, t in x.calls():
                if t["callee"].get("method") not in ("write_fmt", "write_str"):
                    continue
                g, _ = guards_of(x, bb)
                e = [(a, v) for a, v in g if a.startswith("is_empty(") and "extensions(" in a]
                if not e:
                    continue
                sites.append(bb)
                if any(v != 0 for a, v in e):
                    problems.append("the span's fields are written only when they are empty (at %s)" % where(t["sp"]))
        if not sites:
            # no emptiness test at all: the fields must then be written unconditionally -- look for a write fed by FormattedFields
            fed = [1 for x in [b] + F.closures_of(b) for ty in x.locals if "FormattedFields" in ty]
            if not fed:
                problems.append("no write of the spans' FormattedFields found")
        if problems:
            ck.bad("C13.R11", key, where(b.raw["sp"]), "; ".join(sorted(set(problems))), fn=b.path)
        else:
            ck.ok("C13.R11", key, fn=b.path, detail="%d guarded write(s)" % len(sites))


def r10(ck, F, rid="C13.R10", only=None):
    """`every event field with its value`, `every span ... with its fields`: the Visit impls of the fmt formatters
    (DefaultVisitor, PrettyVisitor, JsonVisitor, FieldFnVisitor) write -- or store, or hand to a sibling record_* -- each
    field on every returning path. The only legitimate silent path is "an earlier write already failed" (self.result)."""
    EFFECT = ("write_fmt", "write_str", "write_char", "write_padded", "insert", "call", "call_mut", "call_once", "serialize_entry")
    for i in F.impls_of("tracing_core::field::Visit"):
        if not i["self_ty"].startswith("tracing_subscriber::fmt::"):
            continue
        vname = i["self_ty"].rsplit("::", 1)[-1].split("<")[0]
        if only and vname != only:
            continue
        for m, path in sorted(i["methods"].items()):
            b = F.body(path)
            if b is None:
                continue
            drops = []
            for p in PathEval(b).run():
                if p.end != "return":
                    continue
                eff = [c for c in p.calls if c[1].get("method") in EFFECT or (c[1].get("trait") == "tracing_core::field::Visit" and str(c[1].get("method", "")).startswith("record_"))]
                if eff:
                    continue
                conds = [(show(c[0]), c[1]) for c in p.conds]
                if any((t.startswith("is_err(arg1.result)") and v != 0) or (t.startswith("is_ok(arg1.result)") and v == 0) for t, v in conds):
                    continue
                why = [t for t, v in conds if v != 0 and "result" not in t and t not in ("0", "1")]
                drops.append(why[-1] if why else "unconditionally")
            for d in sorted(set(drops)):
                what = "fields whose name starts with `log.`" if "'log.'" in d else "a field under `%s`" % d[:60]
                ck.bad(rid, "%s::%s drops %s" % (vname, m, what), where(b.raw["sp"]),
                       "a returning path writes nothing for the field it was handed (condition: %s): the record does not contain every field" % d[:80], fn=b.path)
            if not drops:
                ck.ok(rid, "%s::%s writes every field it is handed" % (vname, m), fn=b.path)
