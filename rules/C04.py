"""C04 — racing callsite registration and collector turnover converge; none is stranded.

Interleavings are out of reach of static analysis; the locking discipline that is meant to make every
interleaving safe is not:
R1 critical sections of the callsite registry (what happens under which lock, in which order)
R2 no nested acquisition of the registry lock from code reachable while it is held (tracing-core's own call graph)
R3 lock-free list push protocol and orderings
R4 MacroCallsite registration state machine
R5 re-evaluation after every turnover (C01.R5–R7)
"""
from rulekit.query import rebuild_interest_path
from rulekit import Facts, where
from rulekit.sym import PathEval, show
from rulekit.query import ordering_of, ORD_RANK, recv_fields, const_int

CS = "tracing_core::callsite::inner::"
LL = "tracing_core::callsite::LinkedList::"
MS = "tracing::__macro_support::MacroCallsite"


def lock_calls(b):
    out = []
    for bb, t in b.calls():
        c = t["callee"]
        if c.get("method") in ("read", "write") and "RwLock" in c.get("path", ""):
            out.append((bb, c["method"], t))
    return out


def guard_drops(b, lock_bb):
    """blocks dropping the guard obtained (via unwrap) from the lock call at lock_bb"""
    t = b.term(lock_bb)
    res = t["dest"]["l"]
    holders = {res}
    changed = True
    while changed:
        changed = False
        for bb, tt in b.calls():
            if tt["callee"].get("method") in ("unwrap", "expect") and any((a.get("move") or a.get("copy") or {}).get("l") in holders for a in tt["argv"]):
                if tt["dest"]["l"] not in holders:
                    holders.add(tt["dest"]["l"])
                    changed = True
        for i, j, s in b.stmts():
            rv = s.get("rv", {})
            src = (rv.get("use") or {}).get("move")
            if src and src.get("l") in holders and "p" not in s["lhs"] and s["lhs"]["l"] not in holders:
                holders.add(s["lhs"]["l"])
                changed = True
    out = [i for i, blk in enumerate(b.blocks) if blk["term"]["k"] == "drop" and blk["term"]["place"].get("l") in holders and not blk.get("cleanup")]
    # an explicit `drop(guard)` releases the lock at that call
    for i, blk in enumerate(b.blocks):
        t = blk["term"]
        if t["k"] == "call" and t["callee"].get("path") == "core::mem::drop" and t["argv"] and not blk.get("cleanup"):
            pl = t["argv"][0].get("move")
            if pl and "p" not in pl and pl["l"] in holders:
                out.append(i)
    return out


def run(ck):
    F = Facts("default")
    ck.configs.append("default")
    ck.explanation = (
        "Lock-discipline and protocol-shape rules over tracing-core's callsite registry and tracing's MacroCallsite: which "
        "operations happen between acquiring REGISTRY.dispatchers and dropping its guard, in which order; absence of a "
        "second acquisition of that lock in everything reachable (resolved call graph within tracing-core) while it is "
        "held; the push protocol of the lock-free callsite list (link before CAS, retry with the observed head, orderings); "
        "the three-state registration machine of MacroCallsite (register only after winning the CAS, losers answer "
        "`sometimes`, never a definitive cached answer). These are necessary conditions for convergence under every "
        "interleaving; the interleavings themselves (deadlock freedom across user collectors, convergence) are not decided.")
    ck.assumptions += ["std RwLock / atomics semantics; calls through dyn Collect are the documented boundary",
                       "absence of deadlock/panic and convergence under every schedule need a model checker (other family)"]
    ck.rule("C04.R1", "registry critical sections: operations and order under the dispatchers lock", floor=5)
    ck.rule("C04.R2", "no second acquisition of the registry lock while it is held", floor=3)
    ck.rule("C04.R3", "lock-free list push: link, CAS, retry with observed head, orderings", floor=5)
    ck.rule("C04.R4", "MacroCallsite registration state machine", floor=4)
    ck.rule("C04.R8", "the count behind get_default's fast path moves by atomic read-modify-write only, once per guard (as C02.R1): a racing set_default is never un-counted", floor=9)
    ck.rule("C04.R7", "the std and no_std registries talk to collectors and callsites through the same set of calls", floor=4)
    ck.rule("C04.R9", "no_std registry: a first hit's interest-then-push is one step with respect to a rebuild (the std registry's lock, R1)", floor=1)
    ck.rule("C04.R10", "the collector that receives an emission is the one whose filter enabled it: one dispatcher lookup per emission", floor=1)
    ck.rule("C04.R11", "`every callsite is offered to every collector that is live afterwards`: every constructor of a Dispatch registers it (as C01.R6)", floor=3)
    ck.rule("C04.R13", "two racing turnovers cannot leave the published maximum below what a live collector accepts: the maximum is computed and published by the "
            "registry rebuild itself, while it holds the registry lock (as C01.R5 / R7 / R15)", floor=6)
    ck.rule("C04.R12", "racing installers of the global default: one wins by compare-and-swap on the once-flag, a loser leaves the flag and the installed "
            "dispatcher alone, readers see the dispatcher only behind INITIALIZED (as C02.R4)", floor=5)
    ck.rule("C04.R6", "collector wrappers pass register_callsite / on_register_dispatch / max_level_hint on to the wrapped collector (as C09.R1/R2)", floor=12)
    ck.rule("C04.R5", "every turnover re-evaluates interests and the max level (see C01.R5–R7)", floor=2)
    r1(ck, F)
    r2(ck, F)
    r3(ck, F)
    r4(ck, F)
    r5(ck, F)
    r7(ck, F)
    r9(ck)
    r10(ck, F)
    from rules import C01 as _C01
    _C01.r6(ck, F, rid="C04.R11")
    from rules import C02
    C02.r1(ck, F, rid="C04.R8")
    C02.r4(ck, F, rid="C04.R12")
    # computing the new maximum and publishing it are one step with respect to other registrations and rebuilds: set_max is
    # called from inside the rebuild (under the registry lock), exactly once on every path, after the fold (C01.R5/R7/R15)
    _C01.r5(ck, F, rid="C04.R13")
    _C01.r7(ck, F, rid="C04.R13")
    _C01.rebuild_unconditional(ck, rid="C04.R13")
    # a collector reached through Box/Arc/Layered must itself be offered every callsite (C09.R1/R2, instantiated)
    from rules import C09
    C09.wrapper_rules(ck, F, rids={"R0": "C04.R6", "R1": "C04.R6", "R2": "C04.R6", "R3": "C04.R6"}, traits=["tracing_core::collect::Collect"],
                      only={"register_callsite", "on_register_dispatch", "max_level_hint"})


def r1(ck, F, rid="C04.R1"):
    spec = {
        "register": ("read", ["rebuild_callsite_interest", "push"]),
        "register_dispatch": ("write", ["on_register_dispatch", "push", "rebuild_interest"]),
        "rebuild_interest_cache": ("write", ["rebuild_interest"]),
    }
    for fn, (mode, ops) in spec.items():
        b = F.body(CS + fn)
        if not ck.anchor(rid, fn, b):
            continue
        locks = lock_calls(b)
        key = "%s: %s under dispatchers.%s()" % (fn, " then ".join(ops), mode)
        problems = []
        if len(locks) != 1 or locks[0][1] != mode:
            problems.append("expected exactly one dispatchers.%s(), found %s" % (mode, [(m) for _, m, _ in locks]))
        else:
            lbb = locks[0][0]
            who, fields = recv_fields(b, locks[0][2])
            o = b.origin(locks[0][2]["argv"][0])
            drops = guard_drops(b, lbb)
            opbbs = []
            for op in ops:
                bbs = [bb for bb, t in b.calls() if (t["callee"].get("method") == op or t["callee"].get("path", "").endswith("::" + op))]
                if len(bbs) != 1:
                    problems.append("expected one call of %s, found %d" % (op, len(bbs)))
                    continue
                opbbs.append(bbs[0])
                if not b.dominates(lbb, bbs[0]):
                    problems.append("%s is not dominated by the lock acquisition" % op)
                # the guard must still be alive: no guard drop dominates the op
                if any(b.dominates(d, bbs[0]) for d in drops):
                    problems.append("%s runs after the lock guard was dropped" % op)
            for a, c in zip(opbbs, opbbs[1:]):
                if not (b.dominates(a, c) and a != c):
                    problems.append("operations under the lock are not in the order %s" % ops)
            if not drops:
                problems.append("the lock guard is never dropped on the normal path")
        if problems:
            ck.bad(rid, key, where(b.raw["sp"]), "; ".join(problems), fn=b.path)
        else:
            ck.ok(rid, key, fn=b.path)
    # the static is the one registry
    for fn in spec:
        b = F.body(CS + fn)
        if not b:
            continue
        for bb, m, t in lock_calls(b):
            o = b.origin(t["argv"][0])
            txt = str(o)
            if "REGISTRY" in txt or "dispatchers" in txt:
                ck.ok(rid, "%s locks REGISTRY.dispatchers" % fn, nontrivial=False)


def r2(ck, F):
    # everything reachable (resolved, within tracing_core) from the functions called while the lock is held
    roots = [CS + "rebuild_callsite_interest", rebuild_interest_path(F), LL + "push", LL + "for_each",
             "tracing_core::dispatch::Dispatch::registrar", "tracing_core::dispatch::Dispatch::collector",
             "tracing_core::dispatch::Registrar::upgrade", "tracing_core::dispatch::Dispatch::register_callsite",
             "tracing_core::dispatch::Dispatch::max_level_hint", "tracing_core::metadata::LevelFilter::set_max"]
    seen = set()
    stack = [r for r in roots if F.body(r)]
    for r in roots:
        if not F.body(r):
            ck.anchor("C04.R2", r, None)
    boundary = set()
    while stack:
        p = stack.pop()
        if p in seen:
            continue
        seen.add(p)
        b = F.body(p)
        if b is None:
            continue
        for x in [b] + F.closures_of(b):
            seen.add(x.path)
            for bb, t in x.calls():
                c = t["callee"]
                if c.get("virtual") or (c.get("trait") in ("tracing_core::collect::Collect", "tracing_core::callsite::Callsite") and not c.get("resolved")):
                    boundary.add("%s::%s" % (c.get("trait"), c.get("method")))
                    continue
                tgt = c.get("resolved") or c.get("path")
                if tgt and tgt.startswith(("tracing_core::", "<tracing_core::")) and tgt not in seen:
                    stack.append(tgt)
    offenders = []
    for p in sorted(seen):
        b = F.body(p)
        if b is None:
            continue
        for bb, m, t in lock_calls(b):
            offenders.append("%s calls RwLock::%s" % (p, m))
    if offenders:
        ck.bad("C04.R2", "re-acquisition under the lock", offenders[0], "code reachable while REGISTRY.dispatchers is held acquires an RwLock again: %s" % offenders)
    else:
        ck.ok("C04.R2", "no RwLock acquisition reachable while the registry lock is held", detail=dict(functions=len(seen), dyn_boundary=sorted(boundary)))
    # all lock sites in tracing-core are the three registry entry points
    sites = set()
    for b in F.body_list:
        if b.crate == "tracing_core" and lock_calls(b):
            sites.add(b.path)
    want = {CS + "register", CS + "register_dispatch", CS + "rebuild_interest_cache"}
    if sites == want:
        ck.ok("C04.R2", "tracing-core's only RwLock sites are the three registry entry points", detail=sorted(sites))
    else:
        ck.bad("C04.R2", "tracing-core's only RwLock sites are the three registry entry points", str(sorted(sites ^ want)), "lock sites: %s" % sorted(sites))
    ck.ok("C04.R2", "dyn boundary recorded", nontrivial=False, detail=sorted(boundary))


def r3(ck, F, rid="C04.R3"):
    b = F.body(LL + "push")
    if not ck.anchor(rid, "LinkedList::push", b):
        return
    stores = [(bb, t) for bb, t in b.calls() if t["callee"].get("method") == "store" and "atomic" in t["callee"].get("path", "")]
    cas = [(bb, t) for bb, t in b.calls() if t["callee"].get("method") in ("compare_exchange", "compare_exchange_weak") and "atomic" in t["callee"].get("path", "")]
    loads = [(bb, t) for bb, t in b.calls() if t["callee"].get("method") == "load" and "atomic" in t["callee"].get("path", "")]
    ok = len(stores) == 1 and len(cas) == 1
    if ok:
        sbb, st = stores[0]
        cbb, ct = cas[0]
        _, sf = recv_fields(b, st)
        _, cf = recv_fields(b, ct)
        link_first = b.dominates(sbb, cbb) and sf[-1:] == ["next"] and cf[-1:] == ["head"]
        if link_first:
            ck.ok(rid, "registration.next is linked before head is swung", fn=b.path)
        else:
            ck.bad(rid, "registration.next is linked before head is swung", where(b.raw["sp"]), "next.store does not dominate the compare_exchange on head", fn=b.path)
        # the CAS publishes `registration` expecting the same `head` that was linked
        exp = b.origin(ct["argv"][1])
        linked = b.origin(st["argv"][1])
        same = exp[:2] == linked[:2]
        new = b.origin(ct["argv"][2])
        if same and new[0] == "arg" and new[1] == 2:
            ck.ok(rid, "CAS(head: linked value -> registration)", fn=b.path)
        else:
            ck.bad(rid, "CAS(head: linked value -> registration)", where(ct["sp"]), "expected/linked %s/%s new %s" % (exp[:2], linked[:2], new[:2]), fn=b.path)
        # failure edge retries: a path from the CAS back to the store exists (loop) and the Err payload becomes head
        back = sbb in b.reachable(ct["ret"])
        if back:
            ck.ok(rid, "a failed CAS retries with the observed head", fn=b.path)
        else:
            ck.bad(rid, "a failed CAS retries with the observed head", where(ct["sp"]), "no loop from the compare_exchange back to the link step", fn=b.path)
        o_store = ordering_of(b, st["argv"][2])
        o_cas = ordering_of(b, ct["argv"][3])
        if ORD_RANK.get(o_store, 0) >= 1 and o_store != "Acquire" and ORD_RANK.get(o_cas, 0) >= 1 and o_cas != "Acquire":
            ck.ok(rid, "orderings: link %s, CAS %s (>= Release)" % (o_store, o_cas), fn=b.path)
        else:
            ck.bad(rid, "orderings: link/CAS >= Release", where(ct["sp"]), "store %s, CAS %s" % (o_store, o_cas), fn=b.path)
        # self-link assert
        asserts = [1 for bb, t in b.calls() if "assert_failed" in t["callee"].get("path", "") or "panic" in t["callee"].get("path", "")]
        if asserts:
            ck.ok(rid, "self-link assertion present", fn=b.path)
        else:
            ck.bad(rid, "self-link assertion present", where(b.raw["sp"]), "pushing the same registration twice would create a cycle silently", fn=b.path)
    else:
        ck.bad(rid, "push shape", where(b.raw["sp"]), "expected one store and one compare_exchange, found %d/%d" % (len(stores), len(cas)), fn=b.path)
    fe = F.body(LL + "for_each")
    if ck.anchor(rid, "LinkedList::for_each", fe):
        bad = [ordering_of(fe, t["argv"][1]) for bb, t in fe.calls() if t["callee"].get("method") == "load" and "atomic" in t["callee"].get("path", "")
               and ORD_RANK.get(ordering_of(fe, t["argv"][1]), 0) < 1]
        n = len([1 for bb, t in fe.calls() if t["callee"].get("method") == "load" and "atomic" in t["callee"].get("path", "")])
        if n >= 2 and not bad:
            ck.ok(rid, "for_each loads head/next with >= Acquire", fn=fe.path)
        else:
            ck.bad(rid, "for_each loads head/next with >= Acquire", where(fe.raw["sp"]), "%d loads, weak orderings %s" % (n, bad), fn=fe.path)


def r4(ck, F, rid="C04.R4"):
    b = F.body(MS + "::register")
    if not ck.anchor(rid, "MacroCallsite::register", b):
        return
    consts = {n: F.consts.get("%s::<T>::%s" % (MS, n), {}).get("val", {}).get("int") for n in ("UNREGISTERED", "REGISTERING", "REGISTERED")}
    if len(set(consts.values())) == 3 and None not in consts.values():
        ck.ok(rid, "three distinct registration states", detail=consts)
    else:
        ck.bad(rid, "three distinct registration states", MS, "states %s" % consts)
    cas = [(bb, t) for bb, t in b.calls() if t["callee"].get("method") == "compare_exchange"]
    if len(cas) != 1:
        ck.bad(rid, "one CAS on the register byte", where(b.raw["sp"]), "%d CAS sites" % len(cas))
        return
    cbb, ct = cas[0]
    ops = [b.origin(a) for a in ct["argv"][1:3]]
    names = [o[1].get("def", "").rsplit("::", 1)[-1] if o[0] == "const" else "?" for o in ops]
    if names == ["UNREGISTERED", "REGISTERING"]:
        ck.ok(rid, "CAS(UNREGISTERED -> REGISTERING)", fn=b.path)
    else:
        ck.bad(rid, "CAS(UNREGISTERED -> REGISTERING)", where(ct["sp"]), "CAS operands %s" % names, fn=b.path)
    reg_called = False
    problems = []
    for p in PathEval(b).run():
        if p.end != "return":
            continue
        d = [c for c in p.conds if c[0][0] == "discr" and c[0][1][0] == "call" and c[0][1][3] == cbb]
        if not d:
            continue
        won = d[0][1] == 0
        registers = [c for c in p.calls if c[1].get("path") in ("tracing_core::callsite::register", "tracing_core::callsite::inner::register")]
        stores = [c for c in p.calls if c[1].get("method") == "store" and c[2][0] == ("field", ("arg", 1), "register")]
        loads_interest = any(c[1].get("method") == "load" and c[2][0] == ("field", ("arg", 1), "interest") for c in p.calls)
        ret = show(p.ret)
        if won:
            reg_called = True
            if len(registers) != 1 or len(stores) != 1:
                problems.append("the CAS winner does not register exactly once and publish REGISTERED")
            else:
                if p.calls.index(registers[0]) > p.calls.index(stores[0]):
                    problems.append("REGISTERED is published before callsite::register completed")
                v = stores[0][2][1]
                if not (v[0] == "const" and (v[3] or "").endswith("REGISTERED")):
                    problems.append("the winner stores %s, not REGISTERED" % show(v))
                o = ordering_of(b, b.term(stores[0][0])["argv"][2])
                if ORD_RANK.get(o, 0) < 1 or o == "Acquire":
                    problems.append("REGISTERED stored with %s (needs >= Release)" % o)
        else:
            if registers or stores:
                problems.append("a CAS loser registers or writes the state")
            err = [c for c in p.conds if c[0][0] == "field" and c[0][2] == "0"]
            already = any(c[1] == consts["REGISTERED"] for c in err)
            if already:
                if not loads_interest:
                    problems.append("the already-registered path does not read the cached interest")
            else:
                if ret != "sometimes()":
                    problems.append("a thread that lost the race while registration is in flight returns %s (must be `sometimes`)" % ret)
    if reg_called and not problems:
        ck.ok(rid, "winner: register then publish; in-flight losers answer sometimes; registered: cached interest", fn=b.path)
    else:
        ck.bad(rid, "winner: register then publish; in-flight losers answer sometimes; registered: cached interest", where(b.raw["sp"]),
               "; ".join(sorted(set(problems))) or "no CAS-winner path found", fn=b.path)
    # callsite::register is called only from MacroCallsite::register (and tests)
    callers = {x.path for x, bb, t in F.callers().get("tracing_core::callsite::inner::register", [])} | {x.path for x, bb, t in F.callers().get("tracing_core::callsite::register", [])}
    callers = {c for c in callers if not c.startswith("tracing_core::callsite::")}
    if callers <= {MS + "::register"} and callers:
        ck.ok(rid, "callsite::register is reached only through the state machine", detail=sorted(callers))
    else:
        ck.bad(rid, "callsite::register is reached only through the state machine", str(sorted(callers)), "callers: %s" % sorted(callers))


def r5(ck, F):
    for fn in ("register_dispatch", "rebuild_interest_cache"):
        b = F.body(CS + fn)
        if not ck.anchor("C04.R5", fn, b):
            continue
        rb = [bb for bb, t in b.calls() if t["callee"].get("path") == rebuild_interest_path(F)]
        if len(rb) == 1 and b.postdominates(rb[0], 0):
            ck.ok("C04.R5", "%s re-evaluates every callsite and the max level" % fn, fn=b.path)
        else:
            ck.bad("C04.R5", "%s re-evaluates every callsite and the max level" % fn, where(b.raw["sp"]), "rebuild_interest is not on every path", fn=b.path)


def effects(F, path, depth=0, seen=None):
    """Collector- and callsite-facing calls (trait::method) reachable from `path` through tracing_core's own functions."""
    seen = seen if seen is not None else set()
    out = set()
    b = F.body(path)
    if b is None or path in seen or depth > 5:
        return out
    seen.add(path)
    for x in [b] + F.closures_of(b):
        for bb, t in x.calls():
            c = t["callee"]
            tr, m, p = c.get("trait") or "", c.get("method") or "", c.get("path") or ""
            if tr in ("tracing_core::collect::Collect", "tracing_core::callsite::Callsite"):
                out.add("%s::%s" % (tr.rsplit("::", 1)[1], m))
            elif p == "tracing_core::metadata::LevelFilter::set_max":
                out.add("LevelFilter::set_max")
            tgt = c.get("resolved") or p
            if tgt.startswith("tracing_core::") and F.body(tgt) is not None:
                out |= effects(F, tgt, depth + 1, seen)
    return out


def r7(ck, F, rid="C04.R7"):
    """Sibling agreement: tracing-core has two implementations of the registry (with a lock and dispatcher list under std,
    a single global dispatcher without). What a collector / callsite gets told by `register`, `register_dispatch` and
    `rebuild_interest_cache` must not depend on which one was compiled."""
    N = Facts("nostd-core")
    ck.configs.append("nostd-core")
    for fn in ("register", "register_dispatch", "rebuild_interest_cache"):
        p = "tracing_core::callsite::inner::" + fn
        a, b = F.body(p), N.body(p)
        key = "callsite::%s: std and no_std variants make the same collector/callsite-facing calls" % fn
        if not (ck.anchor(rid, p + " (std)", a) and ck.anchor(rid, p + " (no_std)", b)):
            continue
        ea, eb = effects(F, p), effects(N, p)
        if fn == "register_dispatch":
            # "a collector starts to count": with std that is the creation of its Dispatch (it joins the dispatcher list
            # that `register` folds over); without std it is its installation as the global default (the only dispatcher
            # `register` consults there) -- a Dispatch that is merely created must leave the caches alone. Compare the
            # std creation path with the no_std creation + installation paths together.
            eb = eb | effects(N, "tracing_core::dispatch::set_global_default")
            stray = effects(N, p) - {"Collect::on_register_dispatch"}
            if stray:
                ck.bad(rid, "no_std register_dispatch leaves the caches alone (only the installed global default counts)", where(b.raw["sp"]),
                       "creating a Dispatch re-evaluates %s against a dispatcher that is not (yet) the global default: the installed collector's "
                       "callsites are cached for the wrong collector" % sorted(stray), fn=p)
            else:
                ck.ok(rid, "no_std register_dispatch leaves the caches alone (only the installed global default counts)", fn=p)
        # the dispatcher list only exists under std: upgrading weak registrars has no no_std counterpart
        if ea == eb:
            ck.ok(rid, key, detail=sorted(ea))
        else:
            ck.bad(rid, key, where(a.raw["sp"]), "only with std: %s; only without std: %s" % (sorted(ea - eb), sorted(eb - ea)), fn=p)


def r9(ck):
    """R1 in the no_std registry. `register` computes the callsite's interest from the current global dispatcher and then
    pushes it; a rebuild (rebuild_interest_cache / set_global_default's re-evaluation) walks the list. Unless both run
    inside one critical section, a rebuild that falls between the two steps neither sees the callsite nor is seen by it:
    the callsite keeps the interest the *old* dispatcher/filter gave. Any mutual-exclusion primitive counts (the vendored
    spin::Mutex, a lock flag taken with an atomic RMW); nothing at all is the violation."""
    N = Facts("nostd-core")
    ck.configs.append("nostd-core")
    b = N.body(CS + "register")
    rb = N.body(rebuild_interest_path(N))
    key = "no_std register: computing the interest and pushing the callsite are one step with respect to a rebuild"
    if not (ck.anchor("C04.R9", "no_std register", b) and ck.anchor("C04.R9", "no_std rebuild_interest", rb)):
        return

    def exclusion_calls(x):
        out = []
        for bb, t in x.calls():
            c = t["callee"]
            pth = c.get("path", "")
            if c.get("method") in ("lock", "read", "write", "try_lock") and ("Mutex" in pth or "RwLock" in pth):
                out.append(bb)
            if c.get("method") in ("compare_exchange", "compare_exchange_weak", "swap", "fetch_or") and "AtomicBool" in pth:
                out.append(bb)
        return out
    ops = [bb for bb, t in b.calls() if t["callee"].get("path", "").endswith("::rebuild_callsite_interest") or t["callee"].get("method") == "push"]
    if len(ops) != 2:
        ck.bad("C04.R9", key, where(b.raw["sp"]), "expected one interest computation and one push in no_std register, found %d calls" % len(ops), fn=b.path)
        return
    excl = exclusion_calls(b)
    callers_excl = []
    for c, _bb, _t in N.callers().get(rebuild_interest_path(N), []):
        callers_excl += exclusion_calls(c)
    if excl and all(any(b.dominates(e, o) for e in excl) for o in ops) and (exclusion_calls(rb) or callers_excl):
        ck.ok("C04.R9", key, fn=b.path)
    else:
        ck.bad("C04.R9", key, where(b.raw["sp"]), "no_std `register` takes no lock around rebuild_callsite_interest + REGISTRY.push (the std variant holds "
               "REGISTRY.dispatchers): a rebuild or set_global_default between the two steps leaves the callsite at the interest the previous "
               "dispatcher answered, never re-offered to the live one", fn=b.path)


def r10(ck, F):
    """An event/span macro asks `is_enabled` and then delivers. If the two steps resolve "the current dispatcher"
    independently, a collector installed in between (set_global_default / set_default on another thread cannot affect
    this thread's scoped default, but the global one can) receives an emission its own `enabled` was never asked about,
    or that a cached `always` from other collectors let through."""
    asks = F.body("tracing::__macro_support::MacroCallsite::is_enabled")
    key = "event macros: the dispatcher that delivers is the one that was asked"
    delivers = F.body("tracing_core::event::Event::<'a>::dispatch")
    if not (ck.anchor("C04.R10", "MacroCallsite::is_enabled", asks) and ck.anchor("C04.R10", "Event::dispatch", delivers)):
        return
    GD = "tracing_core::dispatch::get_default"
    a = [bb for bb, t in asks.calls() if t["callee"].get("path") == GD]
    d = [bb for bb, t in delivers.calls() if t["callee"].get("path") == GD]
    if a and d:
        ck.bad("C04.R10", key, where(delivers.raw["sp"]), "MacroCallsite::is_enabled and Event::dispatch each call dispatch::get_default(): a global default installed "
               "between the two lookups receives the event although its filter was never consulted (or a cached `always` from the collectors "
               "that existed at registration let it through)", fn=delivers.path)
    else:
        ck.ok("C04.R10", key, fn=delivers.path)
