"""C02 — an emission goes to the thread's scoped default, else to the global default.

Structural clauses decided (all paths of tracing-core/src/dispatch.rs):
 R1 guard pairing (SCOPED_COUNT add/sub, DefaultGuard construction, drop on unwind, restore of the saved prior)
 R2 fast/slow split of get_default
 R3 the global default is never cached into per-thread state (who-may-write + taint on State.default)
 R4 one-shot global default (CAS-guarded single write, publication order, guarded read, orderings)
 R5 EXISTS is set by both install paths
"""
from rulekit import Facts, where, proj_names
from rulekit.sym import PathEval, show
from rulekit.query import drop_blocks, dropped_on_all_exits, closure_of_term

D = "tracing_core::dispatch::"
ORD_RANK = {"Relaxed": 0, "Release": 1, "Acquire": 1, "AcqRel": 2, "SeqCst": 3}
REFCELL_MUT = {"replace", "borrow_mut", "try_borrow_mut", "replace_with", "swap", "take", "get_mut", "set",
               "as_ptr", "try_borrow_mut_unguarded"}


def static_of(body, op):
    o = body.origin(op)
    if o[0] == "const" and "static" in o[1]:
        return o[1]["static"]
    return None


def recv_field(body, t):
    """('arg'|..., [field names]) of a call's receiver"""
    if not t["argv"]:
        return None, []
    o = body.origin(t["argv"][0])
    if o[0] == "arg":
        return o[1], [n for n in proj_names(o[2]) if not n.startswith("as ")]
    return None, []


def ordering_of(body, op):
    o = body.origin(op)
    if o[0] == "agg" and o[1]["agg"].get("adt") == "core::sync::atomic::Ordering":
        return o[1]["agg"].get("variant")
    if o[0] == "const":
        v = o[1].get("val") or {}
        return v.get("variant")
    return None


def atomic_calls(F, static, methods=None):
    """all calls on the given static atomic in tracing_core: (body, bb, term, method)"""
    out = []
    for b in F.body_list:
        if b.crate != "tracing_core":
            continue
        for bb, t in b.calls():
            c = t["callee"]
            if "sync::atomic::Atomic" not in c.get("path", "") and "portable_atomic" not in c.get("path", ""):
                continue
            if t["argv"] and static_of(b, t["argv"][0]) == static:
                if methods is None or c.get("method") in methods:
                    out.append((b, bb, t, c.get("method")))
    return out


def run(ck):
    configs = ["default"] + (["nostd-core"] if ck.tier == "thorough" else [])
    ck.explanation = (
        "Path/ownership rules over the MIR of tracing-core's dispatch module: who may write the per-thread "
        "default and with what (no value derived from get_global() may be stored there: the defect class that "
        "made a thread keep Dispatch::none forever), pairing of the scoped-count increments/decrements with guard "
        "construction/drop on all paths including unwind, the CAS-guarded one-shot write and publication order of "
        "the global default, and the guarded read. Decides these code-shape clauses for every history; LIFO "
        "behaviour of out-of-order guard drops and cross-thread interleavings are not decided.")
    ck.assumptions += ["std::thread_local!, RefCell and atomics behave as documented",
                       "guards dropped in LIFO order on the thread that created them (the property's 'properly nested')"]
    ck.rule("C02.R1", "scope guard pairing: count inc/dec, construction, restore, unwind", floor=9)
    ck.rule("C02.R2", "get_default: global fast path iff no scope is live anywhere; no thread-local state => global default", floor=3)
    ck.rule("C02.R3", "per-thread default is written only by set_default/guard drop, never from get_global()", floor=3)
    ck.rule("C02.R4", "global default: single CAS-guarded write, published before INITIALIZED, guarded read", floor=5)
    ck.rule("C02.R5", "EXISTS set by both install paths", floor=2)
    ck.rule("C02.R12", "every place that looks the thread's dispatcher up to emit or to ask goes through get_default (scoped default, else the global default -- also "
            "when the thread's own state is already destroyed or in use); none uses get_current, which answers None there", floor=10)
    ck.rule("C02.R11", "a callsite first hit while no default existed is found again when the global default is installed: the lock-free registration list never "
            "loses a node (link, CAS, retry with the observed head; as C04.R3)", floor=5)
    ck.rule("C02.R10", "a future wrapped with its own collector is polled with that collector as the thread's default, for exactly the duration of each poll "
            "(set before the inner poll, restored on return and on unwind), in tracing and in tracing-futures alike; the wrappers capture the collector they are given / the current one", floor=4)
    ck.rule("C02.R9", "callsites hit before the global default existed are re-judged by it once it is installed: where registration consults the global default (no_std), set_global_default re-evaluates after publishing (as C01.R14)", floor=1)
    ck.rule("C02.R8", "what a callback may do does not depend on other threads' scopes: the fast and the slow path of get_default treat nested use alike", floor=2)
    ck.rule("C02.R7", "the count of live scopes cannot wrap: SCOPED_COUNT is at least pointer-sized", floor=2)
    ck.rule("C02.R6", "the re-entrancy flag taken by get_default/get_current is given back on every exit, unwinding included (RAII)", floor=3)
    for cfg in configs:
        F = Facts(cfg)
        ck.configs.append(cfg)
        ck.tag = "" if cfg == "default" else "[%s]" % cfg
        std = any(c == 'feature="std"' for c in F.cfg["tracing_core"])
        if std:
            r1(ck, F)
            r2(ck, F)
            r3(ck, F)
        r4(ck, F)
        r5(ck, F, std)
        if std:
            r6(ck, F)
            from rulekit.query import counter_width
            counter_width(ck, F, "C02.R7", ("tracing_core::dispatch::",))
            r8(ck, F)
    ck.tag = ""
    from rules import C01
    C01.install_reevaluates(ck, rid="C02.R9")
    with_dispatch_rule(ck, Facts("default"))
    # ... and that re-evaluation only reaches callsites that are still on the registry's list: a push that loses a racing
    # first hit must not drop the winner (C04.R3's push / walk rule)
    from rules import C04 as _C04
    _C04.r3(ck, Facts("default"), rid="C02.R11")
    lookup_entry_points(ck)


# ---------------------------------------------------------------------- R1
def r1(ck, F, rid="C02.R1"):
    SC = D + "SCOPED_COUNT"
    adds = atomic_calls(F, SC, {"fetch_add"})
    subs = atomic_calls(F, SC, {"fetch_sub"})
    others = [x for x in atomic_calls(F, SC) if x[3] not in ("fetch_add", "fetch_sub", "load")]
    setd = F.body(D + "State::set_default")
    dropg = F.body("<%sDefaultGuard as core::ops::drop::Drop>::drop" % D)
    if not (ck.anchor(rid, "State::set_default", setd) and ck.anchor(rid, "Drop for DefaultGuard", dropg)):
        return
    # increments only in set_default, exactly once on every return path
    bad_sites = [b.path for b, _, _, _ in adds if b is not setd] + [b.path for b, _, _, _ in others]
    if bad_sites:
        ck.bad(rid, "SCOPED_COUNT writers", bad_sites[0], "SCOPED_COUNT is modified outside set_default/guard drop: %s" % bad_sites)
    else:
        ck.ok(rid, "SCOPED_COUNT writers", detail=dict(fetch_add=[b.path for b, *_ in adds], fetch_sub=[b.path for b, *_ in subs]))
    for fn, sites, what in ((setd, adds, "fetch_add"), (dropg, subs, "fetch_sub")):
        mine = [bb for b, bb, t, m in sites if b is fn]
        counts = set()
        for p in PathEval(fn).run():
            if p.end == "return":
                counts.add(sum(1 for bb in p.blocks if bb in mine))
        key = "%s once per path in %s" % (what, fn.path.replace(D, ""))
        if counts == {1}:
            ck.ok(rid, key, fn=fn.path)
        else:
            ck.bad(rid, key, where(fn.raw["sp"]), "%s executes %s times on some return path (expected exactly 1)" % (what, sorted(counts)), fn=fn.path)
    foreign = [b.path for b, _, _, _ in subs if b is not dropg]
    if foreign:
        ck.bad(rid, "fetch_sub only in guard drop", foreign[0], "SCOPED_COUNT decremented in %s" % foreign)
    # fetch_add amount 1 / fetch_sub amount 1 and orderings >= Release
    for b, bb, t, m in adds + subs:
        amt = b.origin(t["argv"][1])
        o = ordering_of(b, t["argv"][2])
        key = "%s amount/order in %s" % (m, b.path.replace(D, ""))
        if amt[0] == "const" and amt[1].get("int") == 1 and ORD_RANK.get(o, 0) >= 1:
            ck.ok(rid, key, detail="%s(1, %s)" % (m, o))
        else:
            ck.bad(rid, key, where(t["sp"]), "%s(%s, %s): expected amount 1 and ordering >= Release" % (m, amt[1] if amt[0] == 'const' else amt[0], o))
    # the Acquire load pairs with them
    for b, bb, t, m in atomic_calls(F, SC, {"load"}):
        o = ordering_of(b, t["argv"][1])
        key = "load order in %s" % b.path.replace(D, "")
        if ORD_RANK.get(o, 0) >= 1 and o != "Release":
            ck.ok(rid, key, detail=o)
        else:
            ck.bad(rid, key, where(t["sp"]), "SCOPED_COUNT.load(%s): needs Acquire or stronger" % o)
    # DefaultGuard is constructed only in State::set_default
    makers = []
    for b in F.body_list:
        if b.crate != "tracing_core":
            continue
        for i, j, s in b.stmts():
            rv = s.get("rv", {})
            if "agg" in rv and rv["agg"].get("adt") == D + "DefaultGuard":
                makers.append(b.path)
    if makers == [setd.path]:
        ck.ok(rid, "DefaultGuard constructed only in State::set_default")
    else:
        ck.bad(rid, "DefaultGuard constructed only in State::set_default", str(makers), "DefaultGuard values are built in %s" % makers)
    # the guard saves the value that `replace` displaced (the prior default)
    clos = F.closures_of(setd)
    repl = [(c, bb, t) for c in clos for bb, t in c.calls() if t["callee"].get("method") == "replace" and "RefCell" in t["callee"]["path"]]
    ok = False
    if len(repl) == 1:
        c, bb, t = repl[0]
        _, fields = recv_field(c, t)
        stored = c.origin(t["argv"][1])
        # stored value = Some(<captured new_dispatch>)
        good_store = stored[0] == "agg" and stored[1]["agg"].get("variant") == "Some"
        if good_store:
            inner = c.origin(stored[1]["ops"][0])
            good_store = inner[0] == "arg" and inner[1] == 1 and "new_dispatch" in proj_names(inner[2])
        # closure returns the displaced value
        returns_prior = any(p.ret and p.ret[0] == "call" and p.ret[3] == bb for p in PathEval(c).run() if p.end == "return")
        ok = fields[-1:] == ["default"] and good_store and returns_prior
    if ok:
        ck.ok(rid, "set_default stores Some(new) and keeps the displaced prior", fn=setd.path)
    else:
        ck.bad(rid, "set_default stores Some(new) and keeps the displaced prior", where(setd.raw["sp"]),
               "expected exactly one `state.default.replace(Some(new_dispatch))` whose result is returned to the guard")
    # guard drop writes the saved prior back: replace(self.0.take())
    dclos = F.closures_of(dropg)
    repl = [(c, bb, t) for c in [dropg] + dclos for bb, t in c.calls() if t["callee"].get("method") == "replace" and "RefCell" in t["callee"]["path"]]
    ok = False
    if len(repl) == 1:
        c, bb, t = repl[0]
        _, fields = recv_field(c, t)
        stored = c.origin(t["argv"][1])
        from_self = False
        if stored[0] == "call" and stored[2]["callee"].get("method") == "take":
            src = c.origin(stored[2]["argv"][0])
            from_self = src[0] == "arg" and src[1] == 1
        elif stored[0] == "arg" and stored[1] == 1:
            from_self = True
        ok = fields[-1:] == ["default"] and from_self
    if ok:
        ck.ok(rid, "guard drop restores the saved prior", fn=dropg.path)
    else:
        ck.bad(rid, "guard drop restores the saved prior", where(dropg.raw["sp"]),
               "expected exactly one `state.default.replace(<value taken from self.0>)` in Drop for DefaultGuard")
    # ... unconditionally: every returning path of the guard's drop decrements the scope count and (tries to) write the
    # prior back; a drop that bails out early (e.g. while panicking) leaves the dead scope's collector installed
    probs = []
    n = 0
    for p in PathEval(dropg).run():
        if p.end != "return":
            continue
        n += 1
        ms = [(c[1].get("method"), c[1].get("path", "")) for c in p.calls]
        if not any(m == "fetch_sub" for m, _ in ms):
            probs.append("a returning path does not decrement SCOPED_COUNT")
        if not any(m in ("try_with", "with") and "LocalKey" in pth for m, pth in ms) and not any(m == "replace" and "RefCell" in pth for m, pth in ms):
            conds = [show(c[0])[:60] for c in p.conds]
            probs.append("a returning path skips the write-back of the prior default (conditions: %s)" % conds)
    if n and not probs:
        ck.ok(rid, "guard drop restores and decrements on every path", fn=dropg.path, detail="%d path(s)" % n)
    else:
        ck.bad(rid, "guard drop restores and decrements on every path", where(dropg.raw["sp"]), "; ".join(sorted(set(probs))) or "no returning path", fn=dropg.path)
    # with_default: the guard is dropped on the normal and on the unwind path of f()
    wd = F.body(D + "with_default")
    if ck.anchor(rid, "with_default", wd):
        sd = [bb for bb, t in wd.calls() if t["callee"]["path"] == D + "set_default"]
        fcall = [bb for bb, t in wd.calls() if t["callee"].get("method") == "call_once"]
        ok = len(sd) == 1 and len(fcall) == 1 and wd.dominates(sd[0], fcall[0])
        if ok:
            guard_local = wd.term(sd[0])["dest"]["l"]
            drops = drop_blocks(wd, guard_local)
            ok = not dropped_on_all_exits(wd, fcall[0], drops)
        if ok:
            ck.ok(rid, "with_default restores on return and on panic", fn=wd.path,
                  detail="guard local _%d dropped on both the return and the unwind edge of f()" % guard_local)
        else:
            ck.bad(rid, "with_default restores on return and on panic", where(wd.raw["sp"]),
                   "the DefaultGuard is not dropped on every path after f() (including unwinding)")


# ---------------------------------------------------------------------- R2
def r2(ck, F, rid="C02.R2"):
    gd = F.body(D + "get_default")
    if not ck.anchor(rid, "get_default", gd):
        return
    # a thread whose thread-local state is already destroyed (it is exiting) cannot have a live scope: what it emits from a
    # TLS destructor belongs to the global default, exactly as on the fast path -- the AccessError fallback of
    # get_default_slow must hand the callback get_global(), not the no-op dispatcher
    slow = F.body(D + "get_default_slow")
    if ck.anchor(rid, "get_default_slow", slow):
        uo = [t for bb, t in slow.calls() if t["callee"].get("method") in ("unwrap_or_else", "unwrap_or", "map_err", "or_else", "unwrap_or_default")]
        fb = None
        for t in uo:
            for a in t["argv"][1:]:
                o = slow.origin(a)
                cd = o[1].get("agg", {}).get("closure") if o[0] == "agg" else (o[1].get("closure") if o[0] == "const" and isinstance(o[1], dict) else None)
                if cd:
                    fb = F.body(cd)
        key = "get_default_slow without thread-local state (thread exit) falls back to the global default"
        if fb is None:
            # the same fallback written as `match CURRENT_STATE.try_with(..) { Ok(r) => r, Err(_) => f(get_global()) }`
            errp = []
            for p in PathEval(slow).run():
                if p.end == "return" and any(show(c[0]).startswith("discr(try_with(") and c[1] == 1 for c in p.conds):
                    errp.append([c[1].get("path", "") for c in p.calls])
            if errp and all(D + "get_global" in calls and D + "Dispatch::none" not in calls for calls in errp):
                ck.ok(rid, key, fn=slow.path)
            elif errp:
                ck.bad(rid, key, where(slow.raw["sp"]), "on the AccessError edge the callback is handed %s: an emission made while the thread's locals are being "
                       "destroyed is discarded whenever any other thread holds a scope" % sorted({c.rsplit("::", 1)[-1] for calls in errp for c in calls if c}), fn=slow.path)
            else:
                ck.bad(rid, key, where(slow.raw["sp"]), "no fallback found for a failed thread-local access (shape not recognised)", fn=slow.path)
        else:
            calls = [t["callee"].get("path") for bb, t in fb.calls()]
            if D + "get_global" in calls and D + "Dispatch::none" not in calls:
                ck.ok(rid, key, fn=fb.path)
            else:
                ck.bad(rid, key, where(fb.raw["sp"]), "the fallback hands the callback %s: an emission made while the thread's locals are being destroyed is discarded "
                       "whenever any other thread holds a scope, but delivered to the global default when none does" % [c.rsplit("::", 1)[-1] for c in calls if c], fn=fb.path)
    rows = {}
    for p in PathEval(gd).run():
        if p.end != "return":
            continue
        cond = [c for c in p.conds if c[0][0] == "bin"]
        calls = [c[1].get("path", "") for c in p.calls]
        if len(cond) == 1:
            rows[(show(cond[0][0]), cond[0][1])] = calls
    fast = [k for k, v in rows.items() if D + "get_global" in v and D + "get_default_slow" not in v]
    slow = [k for k, v in rows.items() if D + "get_default_slow" in v and D + "get_global" not in v]
    ok = len(rows) == 2 and len(fast) == 1 and len(slow) == 1
    if ok:
        # fast edge must be the `== 0` true edge of the SCOPED_COUNT load
        txt, val = fast[0]
        from rulekit.query import relation_held
        r = relation_held(txt, val)     # count == 0 in any spelling: `== 0` taken, `!= 0` / `> 0` / `0 <` not taken, `< 1`, `1 >` ...
        zero_edge = bool(r) and ((r[1] == "==" and "0" in (r[0], r[2])) or (r[1] == "<=" and r[2] == "0") or (r[1] == "<" and r[2] == "1"))
        ok = "load(" in txt and "SCOPED_COUNT" in txt and zero_edge
    if ok:
        ck.ok(rid, "fast path iff SCOPED_COUNT == 0", fn=gd.path, detail={str(k): v for k, v in rows.items()})
        ck.ok(rid, "slow path otherwise", fn=gd.path)
    else:
        ck.bad(rid, "fast path iff SCOPED_COUNT == 0", where(gd.raw["sp"]), "decision table of get_default is %s" % rows)


# ---------------------------------------------------------------------- R3
def r3(ck, F, rid="C02.R3"):
    allowed = {D + "State::set_default::{closure#0}",
               "<%sDefaultGuard as core::ops::drop::Drop>::drop::{closure#0}" % D,
               "<%sDefaultGuard as core::ops::drop::Drop>::drop" % D}
    state_adt = D + "State"
    if not ck.anchor(rid, "State", F.adts.get(state_adt)):
        return
    # ... and private helpers that only those two reach (a few lines of set_default / the guard's drop moved into a function)
    import re as _re
    root_of = lambda pth: _re.sub(r"(::\{closure#\d+\})+$", "", pth)
    base_roots = {root_of(a) for a in allowed}

    def only_from_allowed(root, seen=()):
        if root in base_roots:
            return True
        f = F.fns.get(root)
        if f is None or f.get("vis") == "Public" or root in seen:
            return False
        cs = [x for x, _bb, _t in F.callers().get(root, [])] + [x for x in F.body_list if root in x.raw.get("inlined", [])]   # (virtually inlined helpers)
        return bool(cs) and all(only_from_allowed(root_of(x.path), seen + (root,)) for x in cs)
    for b in F.body_list:
        if b.crate == "tracing_core" and b.path.startswith(D) and b.path not in allowed and only_from_allowed(root_of(b.path)):
            allowed.add(b.path)
    n_reads = 0
    for b in F.body_list:
        if b.crate != "tracing_core":
            continue
        for bb, t in b.calls():
            c = t["callee"]
            if "core::cell::RefCell" not in c.get("path", ""):
                continue
            o = b.origin(t["argv"][0]) if t["argv"] else None
            if not o or o[0] not in ("arg", "call", "local", "multi"):
                continue
            projs = o[2] if o[0] in ("arg",) else (o[3] if o[0] == "call" else o[2])
            is_default = any(isinstance(p, dict) and p.get("adt") == state_adt and p.get("n") == "default" for p in projs)
            if not is_default:
                continue
            m = c.get("method")
            key = "%s: RefCell::%s on State.default" % (b.path.replace(D, ""), m)
            if m in REFCELL_MUT:
                if b.path in allowed:
                    # taint: no get_global() in a body that writes the per-thread default
                    gg = [1 for _, tt in b.calls() if tt["callee"]["path"] == D + "get_global"]
                    if gg:
                        ck.bad(rid, key, where(t["sp"]),
                               "a body that writes the per-thread default also calls get_global(): the (possibly unset) global default would be cached per thread", fn=b.path)
                    else:
                        ck.ok(rid, key, fn=b.path)
                else:
                    ck.bad(rid, key, where(t["sp"]),
                           "mutable access to the per-thread default outside set_default/guard drop: readers must fall back to get_global() without caching it", fn=b.path)
            else:
                n_reads += 1
                ck.ok(rid, key, fn=b.path, nontrivial=False)
    # the readers fall back to get_global() on None
    for rp in (D + "get_default_slow::{closure#0}", "%sEntered::<'a>::current::{closure#0}" % D):
        rb = F.body(rp)
        if not ck.anchor(rid, rp, rb):
            continue
        rows = {}
        for p in PathEval(rb).run():
            if p.end != "return":
                continue
            d = [c for c in p.conds if c[0][0] == "discr"]
            if d:
                rows[d[-1][1]] = [c[1].get("path", "") for c in p.calls]
        none_calls = rows.get(0, [])
        some_calls = rows.get(1, [])
        key = "%s: None -> get_global(), Some -> the scoped default" % rp.replace(D, "")
        # same table written with a combinator: default.as_ref().unwrap_or_else(|| get_global()) (or unwrap_or(get_global()))
        combinator = False
        if not rows:
            for p in PathEval(rb).run():
                for c in p.calls:
                    nm = c[1].get("method")
                    if nm in ("unwrap_or_else", "unwrap_or") and "Option" in c[1].get("path", "") and "default" in show(c[2][0]):
                        alt = c[2][1]
                        cd = closure_of_term(alt)
                        if cd and F.body(cd):
                            rets = {show(q.ret) for q in PathEval(F.body(cd)).run() if q.end == "return"}
                            combinator = rets == {"get_global()"}
                        elif show(alt) == "get_global()":
                            combinator = True
        if combinator:
            ck.ok(rid, key, fn=rp, detail="Option combinator with get_global() as the None alternative")
        elif D + "get_global" in none_calls and D + "get_global" not in some_calls:
            ck.ok(rid, key, fn=rp)
        else:
            ck.bad(rid, key, where(rb.raw["sp"]), "reader table: None->%s Some->%s" % (none_calls, some_calls), fn=rp)


# ---------------------------------------------------------------------- R4
def lookup_entry_points(ck, rid="C02.R12", crates=None):
    """dispatch::get_current is the `Option` flavour of get_default: no fallback to the global default when the per-thread
    state is gone (a thread-local destructor at thread exit) or re-entered. Used on an emission path it silently drops the
    record / answers `disabled` exactly there. Who-may-call: nobody outside tracing-core's dispatch module."""
    n = 0
    for cfg in ("default", "log", "consumers"):
        G = Facts(cfg)
        if cfg not in ck.configs:
            ck.configs.append(cfg)
        for b in G.body_list:
            if b.path.startswith("tracing_core::dispatch::") or (crates and b.crate not in crates):
                continue
            for bb, t in b.calls():
                p = t["callee"].get("path")
                if p == D + "get_current":
                    ck.bad(rid, "%s looks the dispatcher up with get_default" % b.path.split("::{closure")[0][-70:], where(t["sp"]),
                           "calls dispatch::get_current: on a thread whose per-thread dispatch state is destroyed (an emission from a thread-local destructor) or busy it "
                           "gets None instead of the global default, and what it was about to emit or ask is dropped", fn=b.path)
                    n += 1
                elif p == D + "get_default":
                    ck.ok(rid, "%s looks the dispatcher up with get_default [%s]" % (b.path.split("::{closure")[0][-70:], cfg), fn=b.path)
                    n += 1
    if not n:
        ck.bad(rid, "dispatcher lookups outside tracing-core", "workspace", "none found")


def with_dispatch_rule(ck, F, rid="C02.R10"):
    from rulekit.query import closure_arg
    for crate, P in (("tracing", "tracing::instrument::"), ("tracing-futures", "tracing_futures::")):
        b = F.body("<%sWithDispatch<T> as core::future::future::Future>::poll" % P)
        key = "%s WithDispatch::poll: inner poll under the future's own dispatcher as default" % crate
        if not ck.anchor(rid, "%s WithDispatch::poll" % crate, b):
            continue
        sd = [(bb, t) for bb, t in b.calls() if t["callee"].get("path") == D + "set_default"]
        wd = [(bb, t) for bb, t in b.calls() if t["callee"].get("path") == D + "with_default"]
        polls = [(bb, t) for bb, t in b.calls() if t["callee"].get("path") == "core::future::future::Future::poll"]
        problems = []

        def from_self(op):
            o = b.origin(op)
            return (o[0] == "call" and "project" in str(o[2]["callee"].get("path"))) or o[0] == "arg"
        if len(sd) == 1 and len(polls) == 1 and not wd:
            if not from_self(sd[0][1]["argv"][0]):
                problems.append("set_default is not given the wrapper's own dispatcher")
            if not b.dominates(sd[0][0], polls[0][0]):
                problems.append("the inner future is polled before the default is set")
            else:
                drops = drop_blocks(b, sd[0][1]["dest"]["l"])
                if dropped_on_all_exits(b, polls[0][0], drops):
                    problems.append("the DefaultGuard is not held across the inner poll and dropped after it on both the return and the unwind path")
        elif len(wd) == 1 and not sd:
            if not from_self(wd[0][1]["argv"][0]):
                problems.append("with_default is not given the wrapper's own dispatcher")
            cd = closure_arg(b, wd[0][1]["argv"][1])
            cb = F.body(cd) if cd else None
            n = len([1 for _, t in cb.calls() if t["callee"].get("path") == "core::future::future::Future::poll"]) if cb else 0
            if n != 1 or polls:
                problems.append("the inner future is not polled exactly once inside with_default's closure (%d inside, %d outside)" % (n, len(polls)))
        else:
            problems.append("expected one set_default guard around (or one with_default closure containing) the single inner poll; found %d set_default, %d with_default, %d polls outside closures"
                            % (len(sd), len(wd), len(polls)))
        if problems:
            ck.bad(rid, key, where(b.raw["sp"]), "; ".join(problems), fn=b.path)
        else:
            ck.ok(rid, key, fn=b.path)
        for m, how in (("with_collector", "into"), ("with_current_collector", "get_default")):
            w = F.body(P + "WithCollector::" + m)
            key = "%s WithCollector::%s captures %s" % (crate, m, "the collector it is given" if how == "into" else "the thread's current default")
            if not ck.anchor(rid, "%s WithCollector::%s" % (crate, m), w):
                continue
            rets = [p.ret for p in PathEval(w).run() if p.end == "return"]
            ok = len(rets) == 1 and rets[0][0] == "agg" and "WithDispatch" in str(rets[0][1])
            if ok:
                ops = [show(x) for x in rets[0][3]]
                if how == "into":
                    ok = any(x in ("into(arg2)", "arg2", "new(arg2)", "from(arg2)") for x in ops) and "arg1" in ops
                else:
                    ok = any(x.startswith("get_default(") for x in ops) and "arg1" in ops
                    cd = [closure_arg(w, t["argv"][0]) for _, t in w.calls() if t["callee"].get("path") == D + "get_default"]
                    cb = F.body(cd[0]) if cd and cd[0] else None
                    ok = ok and (cb is None or any(t["callee"].get("method") == "clone" for _, t in cb.calls()))
            if ok:
                ck.ok(rid, key, fn=w.path)
            else:
                ck.bad(rid, key, where(w.raw["sp"]), "builds %s" % [show(r)[:100] for r in rets], fn=w.path)


def r4(ck, F, rid="C02.R4"):
    GD = D + "GLOBAL_DISPATCH"
    GI = D + "GLOBAL_INIT"
    sg = F.body(D + "set_global_default")
    gg = F.body(D + "get_global")
    if not (ck.anchor(rid, "set_global_default", sg) and ck.anchor(rid, "get_global", gg)):
        return
    # writers / readers of GLOBAL_DISPATCH anywhere in the crate
    writers, readers = [], []
    for b in F.body_list:
        if b.crate != "tracing_core":
            continue
        for i, j, s in b.stmts():
            if s["k"] != "assign":
                continue
            lhs = s["lhs"]
            if "*" in lhs.get("p", []) and static_of(b, {"copy": {"l": lhs["l"]}}) == GD:
                writers.append((b, i))
            rv = s["rv"]
            pl = rv.get("ref") or rv.get("rawptr") or (rv.get("use") or {}).get("copy") or (rv.get("use") or {}).get("move")
            if pl and "*" in pl.get("p", []) and static_of(b, {"copy": {"l": pl["l"]}}) == GD:
                readers.append((b, i))
    wfns = {b.path for b, _ in writers}
    rfns = {b.path for b, _ in readers}
    if wfns == {sg.path}:
        ck.ok(rid, "GLOBAL_DISPATCH written only in set_global_default", fn=sg.path)
    else:
        ck.bad(rid, "GLOBAL_DISPATCH written only in set_global_default", str(sorted(wfns)), "writers: %s" % sorted(wfns))
    if rfns <= {gg.path} and rfns:
        ck.ok(rid, "GLOBAL_DISPATCH read only in get_global", fn=gg.path)
    else:
        ck.bad(rid, "GLOBAL_DISPATCH read only in get_global", str(sorted(rfns)), "readers: %s" % sorted(rfns))
    # CAS guarded single write
    cas = [(bb, t) for b, bb, t, m in atomic_calls(F, GI, {"compare_exchange"}) if b is sg]
    stores = [(bb, t) for b, bb, t, m in atomic_calls(F, GI, {"store", "swap"}) if b is sg]
    other_writers = [b.path for b, bb, t, m in atomic_calls(F, GI, {"store", "swap", "compare_exchange", "fetch_add", "fetch_or", "compare_exchange_weak"}) if b is not sg]
    if other_writers:
        ck.bad(rid, "GLOBAL_INIT written only in set_global_default", other_writers[0], "GLOBAL_INIT modified in %s" % other_writers)
    else:
        ck.ok(rid, "GLOBAL_INIT written only in set_global_default")
    ok = len(cas) == 1 and len(stores) == 1
    msg = ""
    if ok:
        cbb, ct = cas[0]
        sbb, st = stores[0]
        consts = [sg.origin(a) for a in ct["argv"][1:3]]
        names = [c[1].get("def", "").rsplit("::", 1)[-1] if c[0] == "const" else "?" for c in consts]
        vals = [c[1].get("int") if c[0] == "const" else None for c in consts]
        stored = sg.origin(st["argv"][1])
        sval = stored[1].get("int") if stored[0] == "const" else None
        un = F.consts.get(D + "UNINITIALIZED", {}).get("val", {}).get("int")
        ing = F.consts.get(D + "INITIALIZING", {}).get("val", {}).get("int")
        ed = F.consts.get(D + "INITIALIZED", {}).get("val", {}).get("int")
        if not (vals == [un, ing] and sval == ed and len({un, ing, ed}) == 3):
            ok, msg = False, "CAS(%s) / store(%s): expected CAS(UNINITIALIZED -> INITIALIZING) then store(INITIALIZED)" % (vals, sval)
        wblocks = [i for b, i in writers if b is sg and not sg.blocks[i].get("cleanup")]
        # success edge: the write is control-dependent on the CAS having succeeded and precedes the store
        if ok:
            # locate the switch on is_ok(result of CAS)
            sw = None
            for i, blk in enumerate(sg.blocks):
                t = blk["term"]
                if t["k"] == "switch":
                    o = sg.origin(t["on"])
                    if o[0] == "call" and o[2]["callee"].get("method") in ("is_ok", "is_err"):
                        src = sg.origin(o[2]["argv"][0])
                        if src[0] == "call" and src[1] == cbb:
                            sw = (i, t, o[2]["callee"]["method"])
                    elif o[0] == "discr":
                        src = sg.origin({"copy": o[1]["discr"]})
                        if src[0] == "call" and src[1] == cbb:
                            sw = (i, t, "discr")
            if not sw:
                ok, msg = False, "no branch on the result of the compare_exchange"
            else:
                i, t, how = sw
                if how == "is_ok":
                    succ_bb = t["otherwise"]
                    fail_bb = [a[1] for a in t["arms"] if a[0] == 0][0]
                elif how == "is_err":
                    fail_bb = t["otherwise"]
                    succ_bb = [a[1] for a in t["arms"] if a[0] == 0][0]
                else:
                    succ_bb = [a[1] for a in t["arms"] if a[0] == 0][0]   # Ok = variant 0
                    fail_bb = t["otherwise"] if len(t["arms"]) == 1 else [a[1] for a in t["arms"] if a[0] == 1][0]
                fail_reach = sg.reachable(fail_bb)
                if not wblocks or any(w in fail_reach for w in wblocks) or sbb in fail_reach:
                    ok, msg = False, "GLOBAL_DISPATCH or GLOBAL_INIT is written on the path where the compare_exchange failed"
                elif not all(sg.dominates(succ_bb, w) for w in wblocks) or not any(sg.dominates(w, sbb) for w in wblocks):
                    ok, msg = False, "the write of GLOBAL_DISPATCH does not precede GLOBAL_INIT.store(INITIALIZED) on the success path"
                else:
                    # return values: success -> Ok, failure -> Err
                    rets = {}
                    for p in PathEval(sg).run():
                        if p.end == "return" and p.ret and p.ret[0] == "agg":
                            rets.setdefault("fail" if fail_bb in p.blocks else "succ", set()).add(p.ret[2])
                    if rets.get("fail") != {"Err"} or rets.get("succ") != {"Ok"}:
                        ok, msg = False, "return table %s: expected Ok exactly on the CAS-success path" % rets
                # orderings
                if ok:
                    o1 = ordering_of(sg, ct["argv"][3])
                    o2 = ordering_of(sg, st["argv"][2])
                    if ORD_RANK.get(o1, 0) < 2 or ORD_RANK.get(o2, 0) < 1 or o2 == "Acquire":
                        ok, msg = False, "orderings CAS=%s store=%s too weak (need AcqRel+/Release+)" % (o1, o2)
    else:
        msg = "expected exactly one compare_exchange and one store on GLOBAL_INIT (found %d, %d)" % (len(cas), len(stores))
    if ok:
        ck.ok(rid, "set_global_default: CAS-guarded write, then publish", fn=sg.path,
              detail="compare_exchange(UNINITIALIZED->INITIALIZING) success => GLOBAL_DISPATCH = ..; store(INITIALIZED); Ok(()) | failure => Err")
    else:
        ck.bad(rid, "set_global_default: CAS-guarded write, then publish", where(sg.raw["sp"]), msg, fn=sg.path)
    # guarded read
    loads = [(bb, t) for b, bb, t, m in atomic_calls(F, GI, {"load"}) if b is gg]
    ok = len(loads) == 1
    msg = "expected one GLOBAL_INIT.load in get_global"
    if ok:
        lbb, lt = loads[0]
        o = ordering_of(gg, lt["argv"][1])
        rblocks = [i for b, i in readers if b is gg]
        rows = {}
        for p in PathEval(gg).run():
            if p.end != "return":
                continue
            reads = any(bb in rblocks for bb in p.blocks)
            # the deciding test is the (in)equality with INITIALIZED; other comparisons on the loaded value (debug asserts on
            # the state's range) do not decide which dispatcher is returned
            cond = [c for c in p.conds if c[0][0] == "bin" and c[0][1] in ("Eq", "Ne") and "load" in show(c[0])]
            if len(cond) == 1:
                rows[(cond[0][0][1], cond[0][1] != 0)] = (reads, show(p.ret))
        # read only when load == INITIALIZED
        good = True
        for (op, taken), (reads, ret) in rows.items():
            is_init = (op == "Eq" and taken) or (op == "Ne" and not taken)
            if reads != is_init:
                good = False
            if not is_init and "NONE" not in ret:
                good = False
        if not rows or not good:
            ok, msg = False, "get_global table %s: GLOBAL_DISPATCH must be read exactly when GLOBAL_INIT == INITIALIZED, else &NONE" % rows
        elif ORD_RANK.get(o, 0) < 1 or o == "Release":
            ok, msg = False, "GLOBAL_INIT.load(%s): needs Acquire or stronger" % o
    if ok:
        ck.ok(rid, "get_global: read guarded by INITIALIZED (Acquire)", fn=gg.path)
    else:
        ck.bad(rid, "get_global: read guarded by INITIALIZED (Acquire)", where(gg.raw["sp"]), msg, fn=gg.path)


# ---------------------------------------------------------------------- R5
def r5(ck, F, std, rid="C02.R5"):
    EX = D + "EXISTS"
    fns = [D + "set_global_default"] + ([D + "State::set_default"] if std else [])
    for fp in fns:
        b = F.body(fp)
        if not ck.anchor(rid, fp, b):
            continue
        st = [bb for bb2, bb, t, m in atomic_calls(F, EX, {"store"}) if bb2 is b
              and b.origin(t["argv"][1])[0] == "const" and b.origin(t["argv"][1])[1].get("int") == 1]
        ok = bool(st)
        if ok:
            for p in PathEval(b).run():
                if p.end != "return":
                    continue
                succeeded = not (p.ret and p.ret[0] == "agg" and p.ret[2] == "Err")
                if succeeded and not any(bb in st for bb in p.blocks):
                    ok = False
        key = "EXISTS.store(true) on every successful path of %s" % fp.replace(D, "")
        if ok:
            ck.ok(rid, key, fn=fp)
        else:
            ck.bad(rid, key, where(b.raw["sp"]), "a successful return path does not set EXISTS", fn=fp)


# ---------------------------------------------------------------------- R6
def restoring_types(F):
    """ADTs whose Drop impl sets a Cell<bool> to true (the `Entered` guards of the dispatch module)."""
    out = {}
    for i in F.impls:
        if i.get("trait") != "core::ops::drop::Drop" or i.get("crate") != "tracing_core":
            continue
        b = F.body(i["methods"].get("drop", ""))
        if b is None:
            continue
        for bb, t in b.calls():
            c = t["callee"]
            if c.get("method") == "set" and "Cell" in c.get("path", "") and len(t["argv"]) == 2:
                v = b.origin(t["argv"][1])
                names = recv_field(b, t)[1]
                if v[0] == "const" and v[1].get("int") == 1 and (not names or names[-1] in ("can_enter", "0")):
                    out[i["self_ty"].split("<")[0]] = b.path
    return out


def r6(ck, F, rid="C02.R6"):
    """While a collector callback runs through get_default/get_current, `can_enter` is false so that re-entrant calls see
    NoCollector. If the flag is not given back when the callback panics, every later emission on the thread is lost."""
    rest = restoring_types(F)
    if not rest:
        ck.bad(rid, "a guard type restores can_enter in its Drop impl", D, "no `impl Drop` in tracing_core::dispatch sets the flag back to true")
        return
    ck.ok(rid, "guard types restoring can_enter on drop", detail=sorted(rest))
    takes = []
    for b in F.body_list:
        if b.crate != "tracing_core":
            continue
        for bb, t in b.calls():
            c = t["callee"]
            if c.get("method") in ("replace", "set", "take") and "Cell" in c.get("path", "") and "RefCell" not in c.get("path", ""):
                names = recv_field(b, t)[1]
                if names[-1:] != ["can_enter"]:
                    continue
                if c.get("method") == "set":
                    v = b.origin(t["argv"][1])
                    if v[0] == "const" and v[1].get("int") == 1:
                        continue        # giving back
                takes.append((b, bb, t))
    for b, bb, t in takes:
        key = "%s: can_enter taken => given back by a guard on every exit" % b.path.replace(D, "")
        # guard locals of a restoring type in this body
        glocals = [i for i, ty in enumerate(b.locals) if ty.split("<")[0] in rest]
        gdrops = [i for i, blk in enumerate(b.blocks) if blk["term"]["k"] == "drop" and "p" not in blk["term"]["place"] and blk["term"]["place"]["l"] in glocals]
        # an explicit `can_enter.set(true)` also gives the flag back (on the path it lies on)
        for sb, st in b.calls():
            sc = st["callee"]
            if sc.get("method") == "set" and "Cell" in sc.get("path", "") and recv_field(b, st)[1][-1:] == ["can_enter"]:
                v = b.origin(st["argv"][1])
                if v[0] == "const" and v[1].get("int") == 1:
                    gdrops.append(sb)
        # shape B: the guard is the function's result on the taken edge
        ret_ty = b.locals[0].split("<")[0] if b.locals else ""
        returns_guard = any(k in b.locals[0] for k in rest) if b.locals else False
        problems = []
        n = 0
        ev = PathEval(b, unwind=True)
        for p in ev.run():
            if bb not in p.blocks or p.end not in ("return", "resume"):
                continue
            i = p.blocks.index(bb)
            if i + 1 >= len(p.blocks) or p.blocks[i + 1] != t.get("ret"):
                continue
            taken = [c for c in p.conds if c[0][0] == "call" and c[0][3] == bb]
            if taken and taken[0][1] == 0:
                continue                # flag was already false: nothing taken on this path
            n += 1
            after = p.blocks[i + 1:]
            if p.end == "return" and returns_guard and p.ret is not None and any(k.rsplit("::", 1)[-1] in show(p.ret) for k in rest):
                continue                # ownership of the flag moves to the caller inside the guard value
            if p.end == "return" and returns_guard and p.ret is not None and "closure" in show(p.ret) and any(
                    cl.locals and any(k in cl.locals[0] for k in rest) for cl in F.closures_of(b)):
                continue                # `flag.replace(false).then(|| Guard(self))`: the guard is built by a closure of this function
            if any(x in gdrops for x in after):
                # calls between the take and the guard's construction/drop must not unwind past it
                continue
            problems.append("on a path ending in %s the flag is never given back%s" % (p.end, ": a callback that panics leaves every later emission on this thread going to NoCollector" if p.end == "resume" else ""))
        # calls after the take whose unwinding leaves the function without any cleanup
        reach = b.reachable(t["ret"]) if t.get("ret") is not None else set()
        for cb in sorted(reach):
            ct = b.term(cb)
            if ct["k"] == "call" and not isinstance(ct.get("unwind"), int) and ct.get("unwind") == "continue" and not returns_guard:
                callee = ct["callee"].get("path", "")
                if ct["callee"].get("method") in ("call_once", "call_mut", "call") or callee.startswith("tracing_core::dispatch::get_global"):
                    if ct["callee"].get("method") in ("call_once", "call_mut", "call"):
                        problems.append("the callback at bb%d can unwind out of the function with no cleanup path: can_enter stays false on this thread" % cb)
        if ev.truncated:
            problems.append("path enumeration truncated")
        if not n:
            problems.append("no path takes the flag")
        if problems:
            ck.bad(rid, key, where(b.raw["sp"]), "; ".join(sorted(set(problems))[:3]), fn=b.path)
        else:
            ck.ok(rid, key, fn=b.path, detail="%d paths" % n)
    # callers of State::enter keep the returned guard across the callback
    ent = D + "State::enter"
    for x, bb, t in F.callers().get(ent, []):
        key = "%s holds the guard returned by State::enter across the callback" % x.path.replace(D, "")
        glocals = [i for i, ty in enumerate(x.locals) if ty.split("<")[0] in rest]
        gdrops = [i for i, blk in enumerate(x.blocks) if blk["term"]["k"] == "drop" and "p" not in blk["term"]["place"] and blk["term"]["place"]["l"] in glocals]
        fcalls = [cb for cb, ct in x.calls() if ct["callee"].get("method") in ("call_once", "call_mut", "call") and cb in x.reachable(bb)]
        problems = []
        for cb in fcalls:
            problems += dropped_on_all_exits(x, cb, gdrops)
        if not fcalls:
            problems.append("no callback invocation after State::enter")
        if problems:
            ck.bad(rid, key, where(x.raw["sp"]), "; ".join(sorted(set(problems))[:3]), fn=x.path)
        else:
            ck.ok(rid, key, fn=x.path)


def r8(ck, F):
    """get_default picks its path from the process-wide SCOPED_COUNT, so anything the two paths do differently is a way for
    *another thread's* scope to change what this thread observes. Two such differences, decided structurally:
    (a) re-entrancy: the slow path hands a nested call the no-op dispatcher (can_enter), the fast path has no such guard;
    (b) the slow path keeps the RefCell borrow of the thread's default alive across the callback, so a callback that opens
        a scope (set_default -> RefCell::replace) panics there and works on the fast path."""
    gd = F.body(D + "get_default")
    slow = F.body(D + "get_default_slow")
    if not (ck.anchor("C02.R8", "get_default", gd) and ck.anchor("C02.R8", "get_default_slow", slow)):
        return
    sc = F.closures_of(slow)
    slow_guard = any(t["callee"].get("path") == D + "Dispatch::none" for x in sc for bb, t in x.calls()) and \
        any("can_enter" in str(x.origin(t["argv"][0])) for x in sc for bb, t in x.calls() if t["callee"].get("method") in ("replace", "get", "set") and t["argv"])
    fast_guard = any(t["callee"].get("method") in ("enter",) or "can_enter" in str(gd.origin(t["argv"][0])) for bb, t in gd.calls() if t["argv"])
    if slow_guard and not fast_guard:
        ck.bad("C02.R8", "re-entrant emission is delivered on the fast path and discarded on the slow path", where(gd.raw["sp"]),
               "get_default_slow gives a nested get_default the no-op dispatcher (can_enter), the fast path `f(get_global())` does not: whether an emission made from inside "
               "a collector callback or a get_default closure is recorded depends on whether any other thread holds a scope", fn=gd.path)
    else:
        ck.ok("C02.R8", "fast and slow path of get_default apply the same re-entrancy policy", fn=gd.path)
    held = False
    for x in sc:
        bor = [bb for bb, t in x.calls() if t["callee"].get("path") == "core::cell::RefCell::<T>::borrow"]
        cb = [bb for bb, t in x.calls() if t["callee"].get("method") in ("call_mut", "call_once", "call")]
        for b_ in bor:
            for c_ in cb:
                if x.dominates(b_, c_):
                    # is the Ref dropped between the borrow and the callback?
                    o = x.term(b_).get("dest", {}).get("l")
                    from rulekit.query import drop_blocks
                    dropped_before = any(x.dominates(d, c_) for d in drop_blocks(x, o)) if o is not None else False
                    if not dropped_before:
                        held = True
    if held:
        ck.bad("C02.R8", "get_default_slow holds the borrow of the thread's default across the callback", where(slow.raw["sp"]),
               "the RefCell<Option<Dispatch>> is still borrowed while the user callback runs: a callback that opens a scope (set_default replaces the slot) panics with "
               "`already borrowed` on the slow path -- i.e. only while some other thread holds a scope", fn=slow.path)
    else:
        ck.ok("C02.R8", "get_default_slow releases the borrow of the thread's default before the callback", fn=slow.path)
