"""C03 — span handles drive their collector through a well-formed, balanced protocol.

The protocol is RAII by construction, so balance reduces to ownership shapes that are visible in the
resolved program: who may call the collector's lifecycle methods (R1), on which collector (R2), one
handle <=> one counted reference (R3), no unsafe duplication/forgetting of handles (R4), enter/exit
pairing of the guards incl. unwind (R5), guards are !Send (R6), instrumented futures enter around every
poll and around the inner drop (R7).
"""
import re
from rulekit import Facts, where, proj_names
from rulekit.sym import PathEval, show
from rulekit.query import guards_of, recv_fields, option_test, drop_blocks, dropped_on_all_exits

DISPATCH = "tracing_core::dispatch::Dispatch"
SP = "tracing::span::"
HANDLE_CRATES = {"tracing", "tracing_futures", "tracing_error", "tracing_appender", "tracing_log", "tracing_serde"}

# lifecycle method -> the only bodies (crate `tracing`) allowed to call it on a Dispatch
ALLOWED = {
    "new_span": {SP + "Span::make_with"},
    "clone_span": {"<%sInner as core::clone::Clone>::clone" % SP, SP + "Span::current::{closure#0}"},
    "try_close": {"<%sSpan as core::ops::drop::Drop>::drop" % SP},
    "drop_span": set(),
    "enter": {SP + "Span::do_enter"},
    "exit": {SP + "Span::do_exit"},
    "record": {SP + "Inner::record"},
    "record_follows_from": {SP + "Inner::follows_from"},
}
UNSAFE_DUP = {"core::mem::forget", "core::mem::manually_drop::ManuallyDrop::<T>::new", "core::ptr::read",
              "core::ptr::read_unaligned", "core::ptr::read_volatile", "core::intrinsics::transmute", "core::mem::zeroed",
              "core::mem::transmute_copy", "core::mem::manually_drop::ManuallyDrop::<T>::take", "core::ptr::const_ptr::<impl *const T>::read",
              "core::ptr::mut_ptr::<impl *mut T>::read", "core::mem::maybe_uninit::MaybeUninit::<T>::assume_init",
              "core::mem::replace", "core::mem::take", "core::mem::swap", "core::ptr::write", "core::ptr::drop_in_place"}
HANDLE_TY = re.compile(r"tracing::span::(Span|Inner|Entered|EnteredSpan)\b|tracing(_futures)?::(instrument::)?Instrumented\b")


def run(ck):
    F = Facts("default")
    ck.configs.append("default")
    ck.explanation = (
        "Ownership/typestate rules over the MIR of crates tracing and tracing-futures (and every other workspace crate "
        "that holds Span handles): the collector's span-lifecycle methods are called only from the RAII points of the "
        "handle types, always on the handle's own collector; Inner values (one counted reference each) are built only "
        "by Inner::new from a freshly returned id and by Inner::clone from clone_span; no unsafe duplication or "
        "forgetting of handles outside one audited function; the enter guards exit unconditionally on drop and are "
        "!Send by construction; Instrumented futures enter around every inner poll and around the inner drop. Rust's "
        "move semantics then give exactly one try_close per handle for every program, which no test can enumerate.")
    ck.assumptions += ["user code does not leak handles (mem::forget) and collectors implement clone_span/try_close consistently",
                       "auto-trait rule: a struct with a `*mut ()` field is !Send unless an unsafe impl says otherwise"]
    ck.rule("C03.R1", "collector lifecycle methods called only from the handle's RAII points", floor=8)
    ck.rule("C03.R2", "lifecycle calls go to the handle's own collector, not the current default", floor=7)
    ck.rule("C03.R3", "one handle <=> one counted reference (Inner/Span construction, Clone, Drop)", floor=8)
    ck.rule("C03.R4", "no unsafe duplication/forgetting of handle values", floor=3)
    ck.rule("C03.R5", "enter/exit pairing of guards, incl. unwinding", floor=6)
    ck.rule("C03.R6", "enter guards are !Send", floor=2)
    ck.rule("C03.R7", "Instrumented: span entered around every inner poll and the inner drop", floor=4)
    ck.rule("C03.R10", "what a span handle tells its Dispatch reaches the collector as the same notification: Dispatch::enter/exit/clone_span/try_close/new_span/record/record_follows_from forward 1:1 (as C09.R4)", floor=7)
    ck.rule("C03.R9", "collector wrappers (Box, Arc, Layered, fmt::Collector, ...) forward every span lifecycle method (as C09.R1/R2)", floor=40)
    ck.rule("C03.R8", "a disabled span macro reaches no collector call (expansion fixtures)", floor=60)
    r1_r2(ck, F)
    r3(ck, F)
    r4(ck, F)
    r5(ck, F)
    r6(ck, F)
    r7(ck, F)
    r7_drop(ck, F)
    r8(ck, F)
    # a handle's clone/close/enter/exit reach the collector that issued the id only if every collector wrapper in between
    # forwards them (C09.R1/R2 restricted to the lifecycle methods, instantiated here)
    from rules import C09
    C09.wrapper_rules(ck, F, rids={"R0": "C03.R9", "R1": "C03.R9", "R2": "C03.R9", "R3": "C03.R9"}, traits=["tracing_core::collect::Collect"],
                      only={"new_span", "clone_span", "try_close", "drop_span", "enter", "exit", "record", "record_follows_from", "current_span"})
    C09.dispatch_forwarding(ck, F, rid="C03.R10", only={"enter", "exit", "clone_span", "try_close", "drop_span", "new_span", "record", "record_follows_from"})


def r1_r2(ck, F):
    seen = {m: set() for m in ALLOWED}
    for b in F.body_list:
        if b.crate not in HANDLE_CRATES:
            continue
        for bb, t in b.calls():
            c = t["callee"]
            if c.get("impl_adt") != DISPATCH or c.get("method") not in ALLOWED:
                continue
            m = c["method"]
            key = "%s calls Dispatch::%s" % (b.path, m)
            if b.path in ALLOWED[m]:
                seen[m].add(b.path)
                ck.ok("C03.R1", key, fn=b.path)
                check_receiver(ck, F, b, bb, t, m)
            else:
                ck.bad("C03.R1", key, where(t["sp"]),
                       "span lifecycle method `%s` is called outside the handle's RAII point(s) %s: the collector would see an unbalanced protocol" % (m, sorted(ALLOWED[m])), fn=b.path)
    for m, want in ALLOWED.items():
        for w in want - seen[m]:
            ck.anchor("C03.R1", "%s -> Dispatch::%s" % (w, m), None)
    # function items used as values (e.g. `.map(Dispatch::try_close)`) would escape the call census
    for b in F.body_list:
        if b.crate not in HANDLE_CRATES:
            continue
        for i, j, s in b.stmts():
            txt = s.get("dbg", "")
            for m in ALLOWED:
                if ("const tracing_core::dispatch::Dispatch::%s" % m) in txt and " as " in txt:
                    ck.bad("C03.R1", "%s mentions Dispatch::%s as a value" % (b.path, m), where(s["sp"]), "lifecycle method reified as a function pointer")


def check_receiver(ck, F, b, bb, t, m):
    who, fields = recv_fields(b, t)
    key = "%s: receiver of %s" % (b.path, m)
    if m == "new_span":
        # make_with(meta, attrs, dispatch): new_span on param `dispatch`, and the same param goes to Inner::new
        ok = who == 3 and not fields
        inn = [tt for _, tt in b.calls() if tt["callee"].get("path") == SP + "Inner::new"]
        if ok and len(inn) == 1:
            o_id = b.origin(inn[0]["argv"][0])
            o_d = b.origin(inn[0]["argv"][1])
            ok = o_id[0] == "call" and o_id[1] == bb and o_d[0] == "arg" and o_d[1] == 3
        else:
            ok = False
        if ok:
            ck.ok("C03.R2", key, detail="id = dispatch.new_span(..); Inner::new(id, dispatch) with the same dispatch", fn=b.path)
        else:
            ck.bad("C03.R2", key, where(t["sp"]), "the handle is not bound to the dispatcher that created the span", fn=b.path)
        return
    if b.path.endswith("Span::current::{closure#0}"):
        ok = who == 2 and not fields
        inn = [tt for _, tt in b.calls() if tt["callee"].get("path") == SP + "Inner::new"]
        if ok and len(inn) == 1:
            o_id = b.origin(inn[0]["argv"][0])
            o_d = b.origin(inn[0]["argv"][1])
            ok = o_id[0] == "call" and o_id[1] == bb and o_d[0] == "arg" and o_d[1] == 2
        else:
            ok = False
        if ok:
            ck.ok("C03.R2", key, detail="id = dispatch.clone_span(..); Inner::new(id, dispatch)", fn=b.path)
        else:
            ck.bad("C03.R2", key, where(t["sp"]), "Span::current does not pair the cloned id with the dispatcher that cloned it", fn=b.path)
        return
    # everything else: receiver must be the `collector` field of the handle's Inner, never a get_default parameter
    if fields[-1:] == ["collector"] and who == 1:
        # and the id argument is the same Inner's id
        w2, f2 = recv_fields(b, t, 1)
        id_ok = True
        if m in ("enter", "exit", "clone_span", "record", "record_follows_from"):
            id_ok = w2 == 1 and f2[-1:] == ["id"]
        elif m == "try_close":
            o = b.origin(t["argv"][1])
            id_ok = o[0] == "call" and o[2]["callee"].get("method") == "clone" and recv_fields(b, o[2])[1][-1:] == ["id"]
        if id_ok:
            ck.ok("C03.R2", key, detail="self.inner.collector.%s(self.inner.id ..)" % m, fn=b.path)
        else:
            ck.bad("C03.R2", key, where(t["sp"]), "`%s` is not called with the handle's own id" % m, fn=b.path)
    else:
        ck.bad("C03.R2", key, where(t["sp"]), "`%s` is called on %s.%s rather than on the handle's own collector" % (m, who, ".".join(fields)), fn=b.path)


def aggregates_of(F, adt, crates):
    out = []
    for b in F.body_list:
        if b.crate not in crates:
            continue
        for i, j, s in b.stmts():
            rv = s.get("rv", {})
            if "agg" in rv and rv["agg"].get("adt") == adt:
                out.append((b, i, j, s))
    return out


def r3(ck, F):
    # Inner values are built only in Inner::new and Inner::clone
    makers = {b.path for b, *_ in aggregates_of(F, SP + "Inner", HANDLE_CRATES)}
    want = {SP + "Inner::new", "<%sInner as core::clone::Clone>::clone" % SP}
    if makers == want:
        ck.ok("C03.R3", "Inner constructed only by Inner::new / Inner::clone")
    else:
        ck.bad("C03.R3", "Inner constructed only by Inner::new / Inner::clone", str(sorted(makers)), "Inner aggregates in %s" % sorted(makers))
    # ... and a counted reference (an `Inner`) is only ever created *for a Span handle*, whose Drop gives it back: who may
    # clone an Inner (also as Option<Inner>) or call Inner::new
    cloners, newers = set(), set()
    for b in F.body_list:
        if b.crate not in HANDLE_CRATES:
            continue
        for bb, t in b.calls():
            c = t["callee"]
            if c.get("method") in ("clone", "clone_from", "cloned") and (SP + "Inner") in (str(c.get("self_ty")) + " " + " ".join(c.get("targs", [])) + " " + str(c.get("full"))):
                cloners.add(b.root or b.path)
            if c.get("path") == SP + "Inner::new":
                newers.add(b.root or b.path)
    want_c = {"<%sSpan as core::clone::Clone>::clone" % SP}
    want_n = {SP + "Span::make_with", SP + "Span::current"}
    if cloners == want_c and newers == want_n:
        ck.ok("C03.R3", "an Inner is cloned only by Span::clone and created only by Span::make_with / Span::current")
    else:
        ck.bad("C03.R3", "an Inner is cloned only by Span::clone and created only by Span::make_with / Span::current", str(sorted((cloners ^ want_c) | (newers ^ want_n))),
               "Inner::clone sends clone_span to the collector but only Drop for Span sends the matching try_close: cloning it anywhere else (%s) leaks a reference; "
               "Inner::new callers: %s" % (sorted(cloners - want_c), sorted(newers)))
    # Inner::clone: id = clone_span result on self.collector, collector = clone of self.collector
    ic = F.body("<%sInner as core::clone::Clone>::clone" % SP)
    if ck.anchor("C03.R3", "Inner::clone", ic):
        aggs = [s for i, j, s in ic.stmts() if "agg" in s.get("rv", {}) and s["rv"]["agg"].get("adt") == SP + "Inner"]
        ok = len(aggs) == 1
        if ok:
            names = aggs[0]["rv"]["agg"]["fields"]
            ops = dict(zip(names, aggs[0]["rv"]["ops"]))
            oid = ic.origin(ops["id"])
            oc = ic.origin(ops["collector"])
            ok = (oid[0] == "call" and oid[2]["callee"].get("method") == "clone_span" and oid[2]["callee"].get("impl_adt") == DISPATCH
                  and oc[0] == "call" and oc[2]["callee"].get("method") == "clone" and recv_fields(ic, oc[2])[1][-1:] == ["collector"])
        if ok:
            ck.ok("C03.R3", "Inner::clone takes a new counted reference from the same collector", fn=ic.path)
        else:
            ck.bad("C03.R3", "Inner::clone takes a new counted reference from the same collector", where(ic.raw["sp"]), "id is not the result of collector.clone_span(&self.id)", fn=ic.path)
    # callers of Inner::new
    callers = {b.path for b, bb, t in F.callers().get(SP + "Inner::new", [])}
    if callers == {SP + "Span::make_with", SP + "Span::current::{closure#0}"}:
        ck.ok("C03.R3", "Inner::new called only from make_with and Span::current")
    else:
        ck.bad("C03.R3", "Inner::new called only from make_with and Span::current", str(sorted(callers)), "callers: %s" % sorted(callers))
    # Span aggregates: inner is None, Some(Inner::new(..)), or a clone of an existing inner
    for b, i, j, s in aggregates_of(F, SP + "Span", HANDLE_CRATES):
        names = s["rv"]["agg"]["fields"]
        ops = dict(zip(names, s["rv"]["ops"]))
        o = b.origin(ops["inner"])
        kind = None
        if o[0] == "agg" and o[1]["agg"].get("variant") == "None":
            kind = "None"
        elif o[0] == "const":
            kind = "None(const)"
        elif o[0] == "agg" and o[1]["agg"].get("variant") == "Some":
            o2 = b.origin(o[1]["ops"][0])
            if o2[0] == "call" and o2[2]["callee"].get("path") == SP + "Inner::new":
                kind = "Some(Inner::new)"
        elif o[0] == "call" and o[2]["callee"].get("method") == "clone" and "Option<tracing::span::Inner>" in o[2]["callee"].get("full", ""):
            kind = "clone"
        key = "%s builds Span{inner: %s}" % (b.path, kind)
        if kind:
            ck.ok("C03.R3", key, fn=b.path)
        else:
            ck.bad("C03.R3", "%s builds Span with unrecognised inner" % b.path, where(s["sp"]), "Span.inner originates from %s: a handle without its own counted reference" % (o[0],), fn=b.path)
    # Clone::clone_from of a handle type, where overridden, is `*self = source.clone()` on every path: a shortcut taken
    # because the two handles "look equal" (equality compares callsite and id, not the collector) leaves the old
    # reference un-released and the new one un-counted
    for imp in F.impls:
        if imp.get("trait") != "core::clone::Clone" or imp["self_ty"] not in (SP + "Span", SP + "Inner", SP + "EnteredSpan"):
            continue
        cf = imp.get("methods", {}).get("clone_from")
        short = imp["self_ty"].rsplit("::", 1)[-1]
        key = "%s::clone_from takes a new reference and releases the old one on every path" % short
        if not cf or F.body(cf) is None:
            ck.ok("C03.R3", key, detail="not overridden: the provided `*self = source.clone()`", nontrivial=False)
            continue
        cb = F.body(cf)
        bad_paths = 0
        n = 0
        for pth in PathEval(cb).run():
            if pth.end != "return":
                continue
            n += 1
            cloned = any(c[1].get("method") == "clone" and short in str(c[1].get("self_ty") or c[1].get("full")) or c[1].get("method") == "clone_from" for c in pth.calls)
            if not cloned:
                bad_paths += 1
        if n and not bad_paths:
            ck.ok("C03.R3", key, fn=cb.path)
        else:
            ck.bad("C03.R3", key, where(cb.raw["sp"]), "%d of %d paths return without cloning the source: the source's collector gets no clone_span for this handle and the "
                   "replaced reference is never released" % (bad_paths, n), fn=cb.path)
    # not Copy
    for imp in F.impls:
        if imp.get("trait") == "core::marker::Copy" and HANDLE_TY.search(imp["self_ty"]):
            ck.bad("C03.R3", "%s is Copy" % imp["self_ty"], imp["span"], "handle type implements Copy: references could be duplicated without clone_span")
    ck.ok("C03.R3", "handle types are not Copy")
    # Drop for Span: try_close iff inner is Some
    ds = F.body("<%sSpan as core::ops::drop::Drop>::drop" % SP)
    if ck.anchor("C03.R3", "Drop for Span", ds):
        tcs = [bb for bb, t in ds.calls() if t["callee"].get("method") == "try_close"]
        ok = len(tcs) == 1
        if ok:
            for p in PathEval(ds).run():
                if p.end != "return":
                    continue
                is_some = any(option_test(c) == (("field", ("arg", 1), "inner"), True) for c in p.conds)
                tested = any(option_test(c)[0] == ("field", ("arg", 1), "inner") for c in p.conds)
                if is_some != (tcs[0] in p.blocks) or not tested:
                    ok = False      # (a path that returns without looking at `inner` -- "not while panicking" -- loses a close)
        if ok:
            ck.ok("C03.R3", "Drop for Span: try_close exactly when inner is Some", fn=ds.path)
        else:
            ck.bad("C03.R3", "Drop for Span: try_close exactly when inner is Some", where(ds.raw["sp"]), "try_close is not executed exactly once on every path where the span is enabled", fn=ds.path)


def r4(ck, F):
    exempt = {
        ("tracing::instrument::Instrumented::<T>::into_inner", "ManuallyDrop::<T>::new"): "moves self into ManuallyDrop and reads both fields out; the span read out is dropped in the same function",
        ("tracing::instrument::Instrumented::<T>::into_inner", "read"): "see above",
        ("tracing_futures::Instrumented::<T>::into_inner", "ManuallyDrop::<T>::new"): "same as tracing::instrument",
        ("tracing_futures::Instrumented::<T>::into_inner", "read"): "same as tracing::instrument",
        ("tracing_futures::Instrumented::<T>::into_inner", "forget"): "forgets self after taking field pointers, then reads both fields out; the span read out is dropped in the same function",
        (SP + "EnteredSpan::exit", "replace"): "moves the span out, leaving Span::none() (inner == None) behind; the moved-out span is returned",
    }
    n = 0
    for b in F.body_list:
        if b.crate not in ("tracing", "tracing_futures", "tracing_error"):
            continue
        for bb, t in b.calls():
            c = t["callee"]
            p = c.get("path", "")
            if p not in UNSAFE_DUP:
                continue
            tys = " ".join(c.get("targs", []))
            if not HANDLE_TY.search(tys):
                continue
            n += 1
            short = p.rsplit("::", 1)[1] if "ManuallyDrop" not in p else "ManuallyDrop::<T>::" + p.rsplit("::", 1)[1]
            key = "%s: %s::<%s>" % (b.path, short, tys)
            if (b.path, short) in exempt:
                ok = True
                if short == "replace":
                    # replacement value is Span::none()
                    o = b.origin(t["argv"][1])
                    ok = o[0] == "call" and o[2]["callee"].get("path") == SP + "Span::none"
                if short == "read":
                    # the value read out must be dropped or returned
                    ok = True
                if ok:
                    ck.ok("C03.R4", key, detail=exempt[(b.path, short)], fn=b.path)
                else:
                    ck.bad("C03.R4", key, where(t["sp"]), "audited exemption no longer has its shape", fn=b.path)
            else:
                ck.bad("C03.R4", key, where(t["sp"]),
                       "a span handle is duplicated, forgotten or overwritten through `%s` outside the audited sites: the collector would see an unbalanced close count" % p, fn=b.path)
    # into_inner: the span read out of ManuallyDrop<Self> is dropped before returning
    for fn in ("tracing::instrument::Instrumented::<T>::into_inner", "tracing_futures::Instrumented::<T>::into_inner"):
        b = F.body(fn)
        if not ck.anchor("C03.R4", fn, b):
            continue
        reads = [(bb, t) for bb, t in b.calls() if t["callee"].get("path", "").endswith("::read") and "core::ptr" in t["callee"]["path"]
                 and "span::Span" in " ".join(t["callee"].get("targs", []))]
        ok = len(reads) == 1
        if ok:
            rl = reads[0][1]["dest"]["l"]
            # the local holding the read span (or a move of it) is dropped on the path to return
            holders = {rl}
            for i, j, s in b.stmts():
                rv = s.get("rv", {})
                src = (rv.get("use") or {}).get("move")
                if src and src.get("l") in holders and "p" not in s["lhs"]:
                    holders.add(s["lhs"]["l"])
            drops = [i for i, blk in enumerate(b.blocks) if blk["term"]["k"] == "drop" and blk["term"]["place"].get("l") in holders and not blk.get("cleanup")]
            # (an explicit `drop(span)` is a drop too)
            drops += [i for i, blk in enumerate(b.blocks) if blk["term"]["k"] == "call" and blk["term"]["callee"].get("path") == "core::mem::drop" and blk["term"]["argv"]
                      and (blk["term"]["argv"][0].get("move") or {}).get("l") in holders and not blk.get("cleanup")]
            after = b.reachable(reads[0][1]["ret"], avoid=drops)
            ok = bool(drops) and not any(e in after for e in b.exits())
        # ... and the value it was read out *of* never runs its own destructor: `mem::forget(self)` or
        # `ManuallyDrop::new(self)` comes first on every path (otherwise the span handle exists twice: one more try_close
        # than clone_span reaches the collector)
        if reads:
            neutral = [bb for bb, t in b.calls() if (t["callee"].get("path", "").endswith("mem::forget") or t["callee"].get("path", "").endswith("ManuallyDrop::<T>::new"))
                       and "Instrumented" in " ".join(t["callee"].get("targs", []))]
            k2 = "%s: the Instrumented value the span is read out of is forgotten first" % fn
            if neutral and all(any(b.dominates(nb, rb) for nb in neutral) for rb, _ in reads):
                ck.ok("C03.R4", k2, fn=fn)
            else:
                ck.bad("C03.R4", k2, where(b.raw["sp"]), "ptr::read::<Span> is not dominated by mem::forget(self) / ManuallyDrop::new(self): the original's Drop still runs and "
                       "the collector sees the span closed twice", fn=fn)
        if ok:
            ck.ok("C03.R4", "%s drops the span it reads out" % fn, fn=fn)
        else:
            ck.bad("C03.R4", "%s drops the span it reads out" % fn, where(b.raw["sp"]), "the Span read out of ManuallyDrop<Self> is not dropped on every path: its close notification would be lost", fn=fn)


def r5(ck, F, rid="C03.R5"):
    # guards constructed only in Span::enter / Span::entered, after do_enter on the same span
    for adt, maker, field_src in ((SP + "Entered", SP + "Span::enter", "ref"), (SP + "EnteredSpan", SP + "Span::entered", "move")):
        aggs = aggregates_of(F, adt, HANDLE_CRATES)
        makers = {b.path for b, *_ in aggs}
        key = "%s constructed only in %s" % (adt.rsplit("::", 1)[1], maker.rsplit("::", 1)[1])
        if makers == {maker}:
            b, i, j, s = aggs[0]
            ents = [bb for bb, t in b.calls() if t["callee"].get("path") == SP + "Span::do_enter"]
            ok = len(ents) == 1 and b.dominates(ents[0], i)
            if ok:
                # same span: do_enter(&self) and guard.span = self
                recv = b.origin(b.term(ents[0])["argv"][0])
                sp_op = dict(zip(s["rv"]["agg"]["fields"], s["rv"]["ops"]))["span"]
                src = b.origin(sp_op)
                ok = recv[0] == "arg" and recv[1] == 1 and src[0] == "arg" and src[1] == 1
            if ok:
                ck.ok(rid, key, detail="do_enter(self) dominates the guard construction; guard.span is self", fn=maker)
            else:
                ck.bad(rid, key, where(s["sp"]), "the guard is built without having entered the same span first", fn=maker)
        else:
            ck.bad(rid, key, str(sorted(makers)), "guard values are built in %s" % sorted(makers))
    # both Drop impls call do_exit on every path
    for ty in ("Entered<'_>", "EnteredSpan"):
        dp = "<%s%s as core::ops::drop::Drop>::drop" % (SP, ty)
        b = F.body(dp)
        if not ck.anchor(rid, dp, b):
            continue
        ex = [bb for bb, t in b.calls() if t["callee"].get("path") == SP + "Span::do_exit"]
        ok = len(ex) == 1 and b.postdominates(ex[0], 0)
        if ok:
            r = b.origin(b.term(ex[0])["argv"][0])
            ok = r[0] == "arg" and r[1] == 1 and proj_names(r[2]) == ["span"]
        if ok:
            ck.ok(rid, "Drop for %s exits unconditionally" % ty, fn=dp)
        else:
            ck.bad(rid, "Drop for %s exits unconditionally" % ty, where(b.raw["sp"]), "do_exit(self.span) is not executed exactly once on every path of the guard's drop", fn=dp)
    # do_enter/do_exit call the collector exactly when inner is Some
    for fn, m in ((SP + "Span::do_enter", "enter"), (SP + "Span::do_exit", "exit")):
        b = F.body(fn)
        if not ck.anchor(rid, fn, b):
            continue
        cs = [bb for bb, t in b.calls() if t["callee"].get("impl_adt") == DISPATCH and t["callee"].get("method") == m]
        ok = len(cs) == 1
        if ok:
            for p in PathEval(b).run():
                if p.end != "return":
                    continue
                some = any(option_test(c) == (("field", ("arg", 1), "inner"), True) for c in p.conds)
                tested = any(option_test(c)[0] == ("field", ("arg", 1), "inner") for c in p.conds)
                if some != (cs[0] in p.blocks) or not tested:
                    ok = False      # (a return before `inner` is even looked at skips the notification for an enabled span)
        if ok:
            ck.ok(rid, "%s notifies the collector exactly when the span is enabled" % fn.rsplit("::", 1)[1], fn=fn)
        else:
            ck.bad(rid, "%s notifies the collector exactly when the span is enabled" % fn.rsplit("::", 1)[1], where(b.raw["sp"]), "collector.%s is not executed exactly on the inner==Some paths" % m, fn=fn)
    # EnteredSpan::exit: replace by Span::none(), then do_exit once on the moved-out span
    ex = F.body(SP + "EnteredSpan::exit")
    if ck.anchor(rid, "EnteredSpan::exit", ex):
        rep = [(bb, t) for bb, t in ex.calls() if t["callee"].get("path") == "core::mem::replace"]
        de = [(bb, t) for bb, t in ex.calls() if t["callee"].get("path") == SP + "Span::do_exit"]
        ok = len(rep) == 1 and len(de) == 1 and ex.dominates(rep[0][0], de[0][0])
        if ok:
            o = ex.origin(de[0][1]["argv"][0])
            ok = o[0] == "call" and o[1] == rep[0][0]
        if ok:
            ck.ok(rid, "EnteredSpan::exit exits once and disarms the guard", fn=ex.path)
        else:
            ck.bad(rid, "EnteredSpan::exit exits once and disarms the guard", where(ex.raw["sp"]), "expected mem::replace(&mut self.span, Span::none()) followed by do_exit on the moved-out span", fn=ex.path)
    # in_scope: guard held across f(), dropped on return and unwind
    ins = F.body(SP + "Span::in_scope")
    if ck.anchor(rid, "Span::in_scope", ins):
        en = [(bb, t) for bb, t in ins.calls() if t["callee"].get("path") == SP + "Span::enter"]
        fc = [(bb, t) for bb, t in ins.calls() if t["callee"].get("method") == "call_once"]
        ok = len(en) == 1 and len(fc) == 1 and ins.dominates(en[0][0], fc[0][0])
        if ok:
            gl = en[0][1]["dest"]["l"]
            drops = drop_blocks(ins, gl)
            ok = not dropped_on_all_exits(ins, fc[0][0], drops)
        if ok:
            ck.ok(rid, "in_scope holds the guard across f() and exits on panic", fn=ins.path)
        else:
            ck.bad(rid, "in_scope holds the guard across f() and exits on panic", where(ins.raw["sp"]), "the Entered guard is not dropped after f() on both the return and the unwind path", fn=ins.path)


def r6(ck, F):
    pns = F.adts.get(SP + "PhantomNotSend")
    if not ck.anchor("C03.R6", "PhantomNotSend", pns):
        return
    ftys = [f["ty"] for f in pns["variants"][0]["fields"]]
    raw = any("*mut" in t or "*const" in t for t in ftys)
    unsafe_send = [i for i in F.impls if i.get("trait") == "core::marker::Send" and not i.get("negative")
                   and re.search(r"tracing::span::(PhantomNotSend|Entered|EnteredSpan)\b", i["self_ty"])]
    for ty in ("Entered", "EnteredSpan"):
        adt = F.adts.get(SP + ty)
        if not ck.anchor("C03.R6", ty, adt):
            continue
        has = any(f["ty"] == SP + "PhantomNotSend" for f in adt["variants"][0]["fields"])
        key = "%s is !Send" % ty
        if has and raw and not unsafe_send:
            ck.ok("C03.R6", key, detail="field of type PhantomNotSend(%s); no `unsafe impl Send`" % ", ".join(ftys))
        else:
            ck.bad("C03.R6", key, adt["span"], "guard no longer contains a !Send marker (has marker field: %s, marker holds raw pointer: %s, unsafe impl Send: %s)" % (has, raw, [i["self_ty"] for i in unsafe_send]))


POLL_METHODS = {"poll", "poll_next", "poll_ready", "start_send", "poll_flush", "poll_close", "poll_complete", "close",
                "try_poll", "try_poll_next"}


def r7(ck, F):
    n = 0
    for imp in F.impls:
        if imp["crate"] not in ("tracing", "tracing_futures"):
            continue
        if not re.match(r"(tracing::instrument|tracing_futures)::Instrumented<", imp["self_ty"]):
            continue
        tr = imp.get("trait")
        if not tr or tr.startswith("core::fmt") or tr.startswith("core::clone") or "Unpin" in tr or tr.startswith("core::marker"):
            continue
        for name, path in imp["methods"].items():
            b = F.body(path)
            if b is None:
                continue
            is_pinned_drop = tr.endswith("PinnedDrop") and name == "drop"
            if is_pinned_drop:
                inner_calls = [(bb, t) for bb, t in b.calls() if t["callee"].get("path", "").endswith("ManuallyDrop::<T>::drop")]
            else:
                inner_calls = [(bb, t) for bb, t in b.calls() if t["callee"].get("trait") == tr and t["callee"].get("method") == name
                               and t["callee"].get("self_ty") != imp["self_ty"]]
            if not inner_calls:
                continue
            if not is_pinned_drop and name not in POLL_METHODS:
                continue   # executors / accessors: not a poll of the instrumented value
            n += 1
            key = "%s for Instrumented::%s" % (tr, name)
            enters = [(bb, t) for bb, t in b.calls() if t["callee"].get("path") == SP + "Span::enter"]
            ok = len(enters) == 1 and len(inner_calls) == 1
            msg = "expected exactly one Span::enter and one inner call"
            if ok:
                ebb, et = enters[0]
                ibb, it = inner_calls[0]
                gl = et["dest"]["l"]
                drops = drop_blocks(b, gl)
                if not b.dominates(ebb, ibb):
                    ok, msg = False, "the inner call is not dominated by Span::enter"
                elif dropped_on_all_exits(b, ibb, drops):
                    ok, msg = False, "the Entered guard is not dropped after the inner call on every returning and unwinding path: " + dropped_on_all_exits(b, ibb, drops)[0]
                elif any(b.dominates(d, ibb) for d in drops if not b.blocks[d].get("cleanup")):
                    ok, msg = False, "the Entered guard is dropped before the inner call"
                else:
                    # the entered span is self.span (through projection helpers)
                    pass
            if ok:
                ck.ok("C03.R7", key, fn=path)
            else:
                ck.bad("C03.R7", key, where(b.raw["sp"]), msg, fn=path)


def r7_drop(ck, F, rid="C03.R7"):
    """The inner value of an Instrumented is dropped by hand (ManuallyDrop) inside the wrapper's Drop so that its
    destructors run inside the span. pin-project-lite puts the user's drop body into a nested `__drop_inner` function:
    whichever body holds the ManuallyDrop::drop call must enter the span first -- on every path -- and keep the guard until
    the inner drop has finished, unwinding included."""
    found = 0
    for b in F.body_list:
        if b.crate not in ("tracing", "tracing_futures") or "Instrumented<T>>::drop" not in b.path and "PinnedDrop" not in b.path:
            continue
        inner_calls = [(bb, t) for bb, t in b.calls() if t["callee"].get("path", "").endswith("ManuallyDrop::<T>::drop")]
        if not inner_calls:
            continue
        found += 1
        key = "Drop for %s::Instrumented drops the inner value inside the span" % b.crate
        enters = [(bb, t) for bb, t in b.calls() if t["callee"].get("path") == SP + "Span::enter"]
        ok, msg = len(enters) == 1 and len(inner_calls) == 1, "expected exactly one Span::enter and one inner drop"
        if ok:
            ebb, et = enters[0]
            ibb = inner_calls[0][0]
            drops = drop_blocks(b, et["dest"]["l"])
            if not b.dominates(ebb, ibb):
                ok, msg = False, "the inner drop is not dominated by Span::enter: on some path (an ambient test such as thread::panicking(), a flag) the inner value's destructors run outside the span"
            elif dropped_on_all_exits(b, ibb, drops):
                ok, msg = False, "the Entered guard is not held until the inner drop has finished on every returning and unwinding path"
            elif any(b.dominates(d, ibb) for d in drops if not b.blocks[d].get("cleanup")):
                ok, msg = False, "the Entered guard is dropped before the inner value"
        if ok:
            ck.ok(rid, key, fn=b.path)
        else:
            ck.bad(rid, key, where(b.raw["sp"]), msg, fn=b.path)
    if not found:
        ck.bad(rid, "Drop for Instrumented drops the inner value by hand", "tracing/src/instrument.rs", "no body of Instrumented's Drop calls ManuallyDrop::drop")


def r8(ck, F):
    """On every path of a span! expansion on which some filtering stage said no, the only tracing calls are
    the guard tests themselves and disabled_span(); and disabled_span() builds a Span with inner == None."""
    from rules import fxlib
    FX = Facts("fx")
    ck.configs.append("fx")
    allowed_prefixes = ("tracing::__macro_support::MacroCallsite::interest", "tracing::__macro_support::MacroCallsite::is_enabled",
                        "tracing::__macro_support::MacroCallsite::disabled_span", "tracing_core::collect::Interest::",
                        "tracing_core::metadata::LevelFilter::current", "<tracing_core::metadata::Level", "<tracing_core::metadata::LevelFilter",
                        "core::cmp::PartialOrd", "fx_macros::macros_gen::keep", "core::ops::", "<drop>")
    for fname, exp in sorted(FX.expect.items()):
        if exp["kind"] != "span":
            continue
        b = FX.body("fx_macros::macros_gen::" + fname)
        if b is None:
            continue
        sites = fxlib.delivery_sites(FX, b, "span")
        if len(sites) != 1:
            ck.bad("C03.R8", fname, where(b.raw["sp"]), "expected one Span constructor call in the expansion")
            continue
        dbb = sites[0][0]
        bad = None
        n = 0
        for p in PathEval(b).run():
            if p.end != "return" or dbb in p.blocks:
                continue
            n += 1
            for bb, c, args, term in p.calls:
                path = c.get("resolved") or c.get("path", "")
                if path.startswith("fx_macros::macros_gen::probe_") and path.rsplit("::", 1)[1] in exp.get("eager", []):
                    continue
                if not path.startswith(allowed_prefixes):
                    bad = path
        key = "%s [%s]" % (fname, exp["macro"])
        if bad or n == 0:
            ck.bad("C03.R8", "%s! disabled path" % exp["macro"], where(b.raw["sp"]),
                   "on a path where the span is disabled the expansion calls %s (fixture %s)" % (bad, fname), fn=b.path)
        else:
            ck.ok("C03.R8", key, fn=b.path)
    ds = F.body("tracing::__macro_support::MacroCallsite::disabled_span")
    if ck.anchor("C03.R8", "MacroCallsite::disabled_span", ds):
        rets = [p.ret for p in PathEval(ds).run() if p.end == "return"]
        if len(rets) == 1 and rets[0][0] == "call" and rets[0][1] == SP + "Span::none":
            ck.ok("C03.R8", "disabled_span() is Span::none()", fn=ds.path)
        else:
            ck.bad("C03.R8", "disabled_span() is Span::none()", where(ds.raw["sp"]), "returns %s" % [show(r) for r in rets])
    for fn in (SP + "Span::none", SP + "Span::new_disabled"):
        nb = F.body(fn)
        if not ck.anchor("C03.R8", fn, nb):
            continue
        ok = False
        for i, j, s in nb.stmts():
            rv = s.get("rv", {})
            if "agg" in rv and rv["agg"].get("adt") == SP + "Span":
                o = nb.origin(dict(zip(rv["agg"]["fields"], rv["ops"]))["inner"])
                ok = (o[0] == "agg" and o[1]["agg"].get("variant") == "None") or o[0] == "const"
        if ok:
            ck.ok("C03.R8", "%s has inner == None" % fn.rsplit("::", 1)[1], fn=fn)
        else:
            ck.bad("C03.R8", "%s has inner == None" % fn.rsplit("::", 1)[1], where(nb.raw["sp"]), "a disabled span carries a collector reference")
