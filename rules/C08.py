"""C08 — static summaries of filters (interest, max-level hint) are sound upper bounds.

For a combinator with dynamic decision E(e_a, e_b) (extracted from its `enabled` body) and summary table I(i_a, i_b)
(extracted from `callsite_enabled` / `register_callsite`), soundness is: for every child-interest pair and every
child-verdict pair consistent with it (never => false, always => true):   I = never => E = false   and   I = always => E = true.
Hints: the result is None or >= every level at which E can be true given the children's hints (None = unbounded).
Both tables are finite and are enumerated completely.
"""
import itertools

from rulekit import Facts, where
from rulekit.sym import PathEval, show
from rulekit.query import guards_of, loop_all_any, norm_cmp

FILTER = "tracing_subscriber::subscribe::Filter"
SUBSCRIBE = "tracing_subscriber::subscribe::Subscribe"
COMB = "tracing_subscriber::filter::subscriber_filters::combinator::"
INT = "tracing_core::collect::Interest::"
N, S, A = "never", "sometimes", "always"


# ---------------------------------------------------------------- tiny evaluator for extracted decision tables
def eval_interest_term(t, env):
    """env: {'a': interest, 'b': interest}; term like callsite_enabled(arg1.a, ..) | never() | ..."""
    if t[0] == "call":
        name = t[1].rsplit("::", 1)[1]
        if name in (N, S, A) and t[1].startswith(INT):
            return name
        if name in ("callsite_enabled", "register_callsite") and t[2] and t[2][0][0] == "field" and t[2][0][1] == ("arg", 1):
            return env.get(t[2][0][2])
    return None


def eval_cond(c, env):
    """-> True/False/None(unknown) whether the path condition holds under env"""
    t, v = c[0], c[1]
    if t[0] == "call" and t[1].startswith(INT) and t[1].rsplit("::", 1)[1] in ("is_never", "is_sometimes", "is_always"):
        x = eval_interest_term(t[2][0], env)
        if x is None:
            return None
        holds = x == t[1].rsplit("::is_", 1)[1]
        return holds == (v != 0)
    return None


def table_I(body, children):
    """Evaluate the interest table of `body` for all child interests -> {(ia, ib..): interest} or error string"""
    paths = [p for p in PathEval(body).run() if p.end == "return"]
    out = {}
    for combo in itertools.product((N, S, A), repeat=len(children)):
        env = dict(zip(children, combo))
        hits = []
        for p in paths:
            ok = True
            for c in p.conds:
                if c[0][0] == "const":
                    continue
                r = eval_cond(c, env)
                if r is None:
                    return "unrecognised condition %s" % show(c[0])
                if not r:
                    ok = False
                    break
            if ok:
                hits.append(p)
        if len(hits) != 1:
            return "%d rows match %s" % (len(hits), env)
        r = eval_interest_term(hits[0].ret, env)
        if r is None:
            return "unrecognised result %s" % show(hits[0].ret)
        out[combo] = r
    return out


def table_E(body, children, method="enabled"):
    """Dynamic decision as a function of the children's verdicts -> {(ea, eb): bool} or error string"""
    paths = [p for p in PathEval(body).run() if p.end == "return"]

    def child_of(t):
        if t[0] == "call" and t[1].endswith("::" + method) and t[2] and t[2][0][0] == "field" and t[2][0][1] == ("arg", 1):
            return t[2][0][2]
        return None

    def ev(t, env):
        if t[0] == "const" and isinstance(t[2], int):
            return bool(t[2])
        if t[0] == "un" and t[1] == "Not":
            x = ev(t[2], env)
            return None if x is None else (not x)
        c = child_of(t)
        if c is not None:
            return env.get(c)
        return None
    out = {}
    for combo in itertools.product((True, False), repeat=len(children)):
        env = dict(zip(children, combo))
        hits = []
        for p in paths:
            ok = True
            for c in p.conds:
                if c[0][0] == "const":
                    continue
                x = ev(c[0], env)
                if x is None:
                    return "unrecognised condition %s" % show(c[0])
                if x != (c[1] != 0):
                    ok = False
                    break
            if ok:
                hits.append(p)
        if len(hits) != 1:
            return "%d rows match %s" % (len(hits), env)
        r = ev(hits[0].ret, env)
        if r is None:
            return "unrecognised result %s" % show(hits[0].ret)
        out[combo] = r
    return out


def consistent(i, e):
    return not (i == N and e) and not (i == A and not e)


def soundness(I, E, n):
    bad = []
    for ic, iv in I.items():
        for ec, evv in E.items():
            if not all(consistent(i, e) for i, e in zip(ic, ec)):
                continue
            if iv == N and evv:
                bad.append("children %s say never-summary but verdicts %s enable" % (ic, ec))
            if iv == A and not evv:
                bad.append("children %s say always-summary but verdicts %s reject" % (ic, ec))
    return bad


def run(ck):
    F = Facts("default")
    ck.configs.append("default")
    ck.explanation = (
        "Decision tables of every provided combinator and leaf filter are extracted from MIR and compared with an oracle "
        "relation: the interest table I over {never,sometimes,always}^k against the dynamic decision E over the children's "
        "verdicts (both finite, enumerated completely: 9+9+3 rows for And/Or/Not, 3^k x 2^k consistency pairs), and the "
        "max-level-hint expression against the tightest bound E admits (None = unbounded). Leaf filters: the same "
        "comparison decides `enabled` and the cached interest; hints equal the threshold. EnvFilter: every `true` of "
        "enabled is guarded by the max_level of the directive set it comes from; hint and interest tables. Vec<S>: "
        "interest/hint/enabled agree. Layered::pick_interest/pick_level_hint as a whole are NOT decided (no sound oracle "
        "from shapes); only their None-layer branches are checked for presence.")
    ck.assumptions += ["children are self-consistent (never => false, always => true)", "fewer than 64 filters"]
    ck.rule("C08.R9", "a Vec / Layered tree replaces its computed interest by the per-filter sum only if every part is per-layer-filtered (as C07.R7)", floor=2)
    ck.rule("C08.R10", "FilterFn / DynFilterFn builder steps keep the predicate and the other hint (same-named field carry-over, as C13.R6)", floor=3)
    ck.rule("C08.R11", "EnvFilter publishes `never` only when it has no span directives, and `always` only for what the static directives (or a stored span matcher) enable", floor=3)
    ck.rule("C08.R12", "Layered decides `the value below me is the Registry` from that value's own type: a layer combined with and_then keeps its hint", floor=1)
    ck.rule("C08.R13", "wrappers hand out type-identity answers (downcast_raw) with the right polarity, and a reload handle lets the per-layer-filter marker through (as C09.R2)", floor=8)
    ck.rule("C08.R14", "Layered::pick_level_hint / pick_interest: complete decision tables (every flag combination x hint/interest class) equal the reference composition", floor=2)
    ck.rule("C08.R15", "a published `always` is honoured: no filter bit survives an emission to make a later always-cached event skip a layer (bitmap typestate, as C07.R5)", floor=100)
    ck.rule("C08.R15s", "effect summaries behind C08.R15 (as C07.R5s)", floor=9)
    ck.rule("C08.R16", "what a collector / layer / filter publishes when it does not override the summary methods: interest from its own `enabled` (never iff it says no), no level hint, `sometimes` for a per-layer filter, and no event-level veto", floor=9)
    ck.rule("C08.R17", "EnvFilter's `always for a matched span` applies to spans: Metadata::is_span / is_event read their own kind bit (as C11.R16)", floor=6)
    ck.rule("C08.R8", "level hints and thresholds are compared by a correct total order (as C19.R1/R2/R4)", floor=60)
    ck.rule("C08.R1", "And/Or/Not: interest table sound w.r.t. enabled; hint is a sound bound", floor=6)
    ck.rule("C08.R2", "Option<F>: None is neutral, Some forwards", floor=4)
    ck.rule("C08.R3", "interest accumulation (Interest::and, FilterState::add_interest) never invents never/always", floor=2)
    ck.rule("C08.R4", "leaf filters: interest and enabled use the same comparison; hint = threshold", floor=6)
    ck.rule("C08.R5", "EnvFilter: enabled guarded by max_level; hint and interest tables", floor=4)
    ck.rule("C08.R6", "Vec<S>: interest/hint agree with enabled = all", floor=3)
    ck.rule("C08.R7", "None-layer hint corrected at composition", floor=1)
    from rules import C19
    C19.order_rules(ck, F, "C08.R8")
    from rules import C07
    C07.r7(ck, F, rid="C08.R9")
    from rulekit.query import builder_carry_over
    builder_carry_over(ck, F, "C08.R10", ("tracing_subscriber::filter::filter_fn::",))
    envfilter_interest(ck, F)
    inner_is_registry_rule(ck, F)
    pick_tables(ck, F)
    provided_summaries(ck, F)
    from rules import C11 as _C11
    _C11.kind_rule(ck, F, rid="C08.R17")
    # what a stack publishes as `always` is only true if the per-filter state every later emission reads is left clean
    C07.r5(ck, Facts("release"), rid="C08.R15")
    from rules import C09
    C09.wrapper_rules(ck, F, rids={"R0": "C08.R13", "R1": "C08.R13", "R2": "C08.R13", "R3": "C08.R13"}, traits=["tracing_subscriber::subscribe::Subscribe"], only={"downcast_raw"})
    r1(ck, F)
    r2(ck, F)
    r3(ck, F)
    r4(ck, F)
    r5(ck, F)
    r6(ck, F)
    r7(ck, F)


def r1(ck, F, rid="C08.R1"):
    for ty, kids in ((COMB + "And<", ["a", "b"]), (COMB + "Or<", ["a", "b"]), (COMB + "Not<", ["a"])):
        name = ty.rsplit("::", 1)[1].rstrip("<")
        bi = F.impl_method(FILTER, ty, "callsite_enabled")
        be = F.impl_method(FILTER, ty, "enabled")
        bh = F.impl_method(FILTER, ty, "max_level_hint")
        if not (ck.anchor(rid, name + "::callsite_enabled", bi) and ck.anchor(rid, name + "::enabled", be) and ck.anchor(rid, name + "::max_level_hint", bh)):
            continue
        I = table_I(bi, kids)
        E = table_E(be, kids)
        key = "%s: callsite_enabled sound w.r.t. enabled" % name
        if isinstance(I, str) or isinstance(E, str):
            ck.bad(rid, key, where(bi.raw["sp"]), "table not extractable: %s / %s" % (I if isinstance(I, str) else "ok", E if isinstance(E, str) else "ok"), fn=bi.path)
        else:
            bad = soundness(I, E, len(kids))
            if bad:
                ck.bad(rid, key, where(bi.raw["sp"]), "unsound summary: %s (I=%s)" % (bad[0], {"/".join(k): v for k, v in I.items()}), fn=bi.path)
            else:
                ck.ok(rid, key, fn=bi.path, detail=dict(I={"/".join(k): v for k, v in I.items()}, E={str(k): v for k, v in E.items()}))
        # hints
        hp = [p for p in PathEval(bh).run() if p.end == "return"]
        key = "%s: max_level_hint is a sound bound" % name
        txt = [show(p.ret) for p in hp]
        if name == "And":
            # E true needs both children: level <= min(ha, hb) with None = unbounded. Sound answers: None, min, max, either child.
            good = len(txt) == 1 and txt[0] in ("min(max_level_hint(arg1.a), max_level_hint(arg1.b))", "max(max_level_hint(arg1.a), max_level_hint(arg1.b))", "Option::None{}")
            # Option's Ord puts None below Some: min(None, x) = None (sound); max(None, Some(x)) = Some(x) is also sound for And
        elif name == "Or":
            # E true if either child: must be None when any child has no hint, else >= max
            rows = {}
            for p in hp:
                ks = tuple(c[1] for c in p.conds if show(c[0]).startswith("discr(branch(max_level_hint("))
                rows[ks] = show(p.ret)
            both = rows.get((0, 0), "")
            good = both.startswith("Option::Some{max(") and all(v.startswith("from_residual(") or v == "Option::None{}" for k, v in rows.items() if k != (0, 0)) and len(rows) >= 2
        else:
            good = txt == ["Option::None{}"]
        if good:
            ck.ok(rid, key, fn=bh.path, detail=txt)
        else:
            ck.bad(rid, key, where(bh.raw["sp"]), "hint expression %s is not a recognised sound bound for %s" % (txt, name), fn=bh.path)


def r2(ck, F, rid="C08.R2"):
    want = {
        "enabled": ("unwrap_or(map(as_ref(arg1), ", ", 1)"),
        "event_enabled": ("unwrap_or(map(as_ref(arg1), ", ", 1)"),
        "callsite_enabled": ("unwrap_or_else(map(as_ref(arg1), ", ", tracing_core::collect::Interest::always)"),
        "max_level_hint": ("and_then(as_ref(arg1), ", ")"),
    }
    for m, (pre, suf) in want.items():
        b = F.impl_method(FILTER, "core::option::Option<F>", m)
        key = "Filter for Option<F>::%s" % m
        if not ck.anchor(rid, key, b):
            continue
        r = [show(p.ret) for p in PathEval(b).run() if p.end == "return"]
        cl = F.closures_of(b)
        fw = [show(p.ret) for c in cl for p in PathEval(c).run() if p.end == "return"]
        # accepted idioms: Option combinators (above) or an explicit match
        ok = len(r) == 1 and r[0].startswith(pre) and r[0].endswith(suf) and len(fw) == 1 and fw[0].startswith(m + "(arg2")
        if not ok:
            rows = {}
            for p in PathEval(b).run():
                if p.end == "return" and p.conds and show(p.conds[0][0]).startswith("discr("):
                    rows[p.conds[0][1]] = show(p.ret)
            neutral = {"enabled": "1", "event_enabled": "1", "callsite_enabled": "always()", "max_level_hint": "Option::None{}"}[m]
            ok = rows.get(0) == neutral and rows.get(1, "").startswith(m + "(")
        if ok:
            ck.ok(rid, key, fn=b.path, detail=r)
        else:
            ck.bad(rid, key, where(b.raw["sp"]), "None must be neutral (true / always / no hint) and Some must forward; got %s with closure %s" % (r, fw), fn=b.path)


def r3(ck, F, rid="C08.R3"):
    b = F.body("tracing_subscriber::filter::subscriber_filters::FilterState::add_interest")
    if ck.anchor(rid, "FilterState::add_interest", b):
        # rows: current None -> store interest; current Some(c): c always & new !always -> sometimes; c never & new !never -> sometimes; else keep
        ok = True
        why = ""
        seen = set()
        for p in PathEval(b).run():
            if p.end != "return":
                continue
            conds = {show(c[0]).split("(")[0] + ":" + ("cur" if "interest" in show(c[0]) and "arg2" not in show(c[0]) else "new"): (c[1] != 0)
                     for c in p.conds if show(c[0]).startswith(("is_always(", "is_never("))}
            has_cur = [c for c in p.conds if show(c[0]).startswith("discr(as_mut(")]
            wrote_sometimes = any(c[1].get("path") == INT + "sometimes" for c in p.calls)
            if has_cur and has_cur[0][1] == 1:
                differs = (conds.get("is_always:cur") and conds.get("is_always:new") is False) or (conds.get("is_never:cur") and conds.get("is_never:new") is False)
                seen.add(bool(differs))
                if bool(differs) != wrote_sometimes:
                    ok, why = False, "row %s writes sometimes=%s" % (conds, wrote_sometimes)
        if ok and seen == {True, False}:
            ck.ok(rid, "add_interest: differing interests accumulate to sometimes, equal ones are kept", fn=b.path)
        else:
            ck.bad(rid, "add_interest: differing interests accumulate to sometimes, equal ones are kept", where(b.raw["sp"]), why or "table incomplete", fn=b.path)
    a = F.body(INT + "and")
    if ck.anchor(rid, "Interest::and", a):
        ne = [show(p.ret) for p in PathEval(a).run() if p.end == "return" and p.conds and p.conds[0][1] == 0]
        if ne == ["sometimes()"]:
            ck.ok(rid, "Interest::and: disagreement -> sometimes (see C01.R4)", fn=a.path)
        else:
            ck.bad(rid, "Interest::and: disagreement -> sometimes", where(a.raw["sp"]), "on disagreement returns %s" % ne, fn=a.path)


def level_cmp(txt):
    """normalise `ge(arg1, level(arg2))` / `le(level(arg2), arg1)` to 'level<=self'"""
    t = txt.replace(" ", "")
    if t.startswith("ge(arg1,level(") or t.startswith("le(level(") and t.endswith(",arg1)"):
        return "level<=self"
    return None


def r4(ck, F):
    levelfilter_rule(ck, F)
    r4_rest(ck, F)


def levelfilter_rule(ck, F, rid="C08.R4"):
    LF = "tracing_core::metadata::LevelFilter"
    for tr, en, cs in ((SUBSCRIBE, "enabled", "register_callsite"), (FILTER, "enabled", "callsite_enabled")):
        be = F.impl_method(tr, LF, en)
        bc = F.impl_method(tr, LF, cs)
        bh = F.impl_method(tr, LF, "max_level_hint")
        tn = tr.rsplit("::", 1)[1]
        if not (ck.anchor(rid, "%s for LevelFilter" % tn, be) and bc is not None and bh is not None):
            continue
        e = [show(p.ret) for p in PathEval(be).run() if p.end == "return"]
        ec = level_cmp(e[0]) if len(e) == 1 else None
        rows = {}
        cond_txt = None
        for p in PathEval(bc).run():
            if p.end == "return" and p.conds:
                cond_txt = show(p.conds[0][0])
                rows[p.conds[0][1] != 0] = show(p.ret)
        cc = level_cmp(cond_txt or "")
        h = [show(p.ret) for p in PathEval(bh).run() if p.end == "return"]
        key = "%s for LevelFilter" % tn
        if ec == "level<=self" and cc == "level<=self" and rows == {True: "always()", False: "never()"}:
            ck.ok(rid, key + ": interest and enabled decided by level <= self", fn=bc.path, detail=dict(enabled=e, interest=rows))
        else:
            ck.bad(rid, key + ": interest and enabled decided by level <= self", where(bc.raw["sp"]),
                   "enabled=%s interest condition=%s rows=%s" % (e, cond_txt, rows), fn=bc.path)
        if len(h) == 1 and h[0] in ("Option::Some{arg1}", "Option::Some{clone(arg1)}", "into(arg1)", "Option::Some{(arg1)}"):
            ck.ok(rid, key + ": hint = Some(self)", fn=bh.path)
        else:
            ck.bad(rid, key + ": hint = Some(self)", where(bh.raw["sp"]), "hint is %s" % h, fn=bh.path)


def r4_rest(ck, F):
    # Targets: interest derived from the same DirectiveSet decision as enabled; hint = the set's max_level
    T = "tracing_subscriber::filter::targets::Targets"
    for tr, cs in ((SUBSCRIBE, "register_callsite"), (FILTER, "callsite_enabled")):
        tn = tr.rsplit("::", 1)[1]
        be = F.impl_method(tr, T, "enabled")
        bc = F.impl_method(tr, T, cs)
        bh = F.impl_method(tr, T, "max_level_hint")
        if not ck.anchor("C08.R4", "%s for Targets" % tn, be) or bc is None or bh is None:
            continue

        def decision_calls(b):
            out = set()
            for x in [b] + F.closures_of(b):
                for bb, t in x.calls():
                    p = t["callee"].get("path", "")
                    if p.startswith(T + "::") or "DirectiveSet" in p:
                        out.add(p.rsplit("::", 1)[1])
            return out
        de, dc = decision_calls(be), decision_calls(bc)
        helper = bc
        if "interested" in dc and F.body(T + "::interested"):
            helper = F.body(T + "::interested")      # both impls delegate the interest to this helper
            dc = decision_calls(helper)
        common = de & dc
        rows = {}
        for p in PathEval(helper).run():
            if p.end == "return" and p.conds:
                rows[p.conds[-1][1] != 0] = show(p.ret)
        key = "%s for Targets" % tn
        if common and rows == {True: "always()", False: "never()"}:
            ck.ok("C08.R4", key + ": interest = always/never by the same decision as enabled (%s)" % sorted(common), fn=bc.path)
        else:
            ck.bad("C08.R4", key + ": interest = always/never by the same decision as enabled", where(bc.raw["sp"]),
                   "enabled uses %s, interest uses %s, rows %s" % (sorted(de), sorted(dc), rows), fn=bc.path)
        h = [show(p.ret) for p in PathEval(bh).run() if p.end == "return"]
        if len(h) == 1 and "max_level" in h[0]:
            ck.ok("C08.R4", key + ": hint = the directive set's max_level", fn=bh.path, detail=h)
        else:
            ck.bad("C08.R4", key + ": hint = the directive set's max_level", where(bh.raw["sp"]), "hint is %s" % h, fn=bh.path)
    directive_add_rule(ck, F)


def directive_add_rule(ck, F, rid="C08.R4"):
    """DirectiveSet::add keeps the cached max_level an upper bound of every stored directive's level: on every path
    (overwrite of an equal directive as well as insertion) the new level is compared with max_level and max_level is
    raised exactly when it is exceeded."""
    add = F.body("tracing_subscriber::filter::directive::DirectiveSet::<T>::add")
    if ck.anchor(rid, "DirectiveSet::add", add):
        wrote = []
        for p in PathEval(add).run():
            if p.end != "return":
                continue
            gt = [c for c in p.conds if c[0][0] == "call" and c[0][1].endswith("PartialOrd::gt")]
            for c in p.conds:       # `max_level < level` is the same test with the operands swapped
                if c[0][0] == "call" and c[0][1].endswith("PartialOrd::lt") and len(c[0][2]) == 2:
                    t = c[0]
                    gt.append((("call", t[1][:-2] + "gt", (t[2][1], t[2][0])) + tuple(t[3:]), c[1], c[2]))
            w = False
            for bb in p.blocks:
                for s in add.blocks[bb]["stmts"]:
                    if s["k"] == "assign" and any(isinstance(x, dict) and x.get("n") == "max_level" for x in s["lhs"].get("p", [])):
                        w = True
            if gt:
                wrote.append((gt[0][1] != 0, w, show(gt[0][0])))
            else:
                wrote.append((None, w, "<no comparison with max_level on this path>"))
        ok = wrote and all(taken is not None and taken == w for taken, w, _ in wrote) and any(taken for taken, _, _ in wrote) and \
            all(t.startswith("gt(") and t.rstrip(")").endswith("max_level") and "level(" in t for _, _, t in wrote)
        if ok:
            ck.ok(rid, "DirectiveSet::add raises max_level exactly when the new directive's level exceeds it", fn=add.path)
        else:
            ck.bad(rid, "DirectiveSet::add raises max_level exactly when the new directive's level exceeds it", where(add.raw["sp"]), "rows %s" % wrote, fn=add.path)


def r5(ck, F, rid="C08.R5"):
    E = "tracing_subscriber::filter::env::EnvFilter"
    b = F.body(E + "::enabled")
    if ck.anchor(rid, "EnvFilter::enabled", b):
        bad = []
        n_true = 0
        for p in PathEval(b, max_paths=20000).run():
            if p.end != "return" or p.ret is None:
                continue
            if p.ret[0] == "const" and p.ret[2] == 1:
                n_true += 1
                guards = [(show(norm_cmp(c[0])), c[1] != 0) for c in p.conds]
                ok = any(t.startswith("ge(arg1.") and ".max_level" in t and v for t, v in guards)
                if not ok:
                    bad.append([g for g in guards][-3:])
            elif p.ret[0] != "const":
                # returns the result of a directive-set decision: must also sit behind a max_level guard
                guards = [(show(norm_cmp(c[0])), c[1] != 0) for c in p.conds]
                if not any(t.startswith("ge(arg1.") and ".max_level" in t and v for t, v in guards):
                    bad.append("non-constant result %s without a max_level guard" % show(p.ret)[:60])
        if not bad and n_true:
            ck.ok(rid, "EnvFilter::enabled: every enabling path is behind `set.max_level >= level`", fn=b.path, detail="%d true-returning paths" % n_true)
        else:
            ck.bad(rid, "EnvFilter::enabled: every enabling path is behind `set.max_level >= level`", where(b.raw["sp"]), "unguarded: %s" % bad[:2], fn=b.path)
    h = F.body(E + "::max_level_hint")
    if ck.anchor(rid, "EnvFilter::max_level_hint", h):
        rows = {}
        for p in PathEval(h).run():
            if p.end == "return":
                k = tuple((show(c[0]).split("(")[0], c[1] != 0) for c in p.conds if c[0][0] == "call")
                rows[k] = show(p.ret)
        vals = list(rows.values())
        has_trace = any("TRACE" in v for v in vals)
        has_max = any(v.startswith("max(") or "max(" in v for v in vals)
        # polarity: the max over the directive levels is only a bound when no directive filters on field *values*
        # (those enable spans of any level until the value is recorded): with value filters the hint must be TRACE
        polarity = all(("TRACE" in v) for k, v in rows.items() if ("has_value_filters", True) in k) and \
            all(("max(" in v) for k, v in rows.items() if ("has_value_filters", False) in k) and \
            any(("has_value_filters", True) in k for k in rows)
        if has_trace and has_max and polarity:
            ck.ok(rid, "EnvFilter::max_level_hint: TRACE with value filters, else max over statics/dynamics", fn=h.path, detail={str(k): v for k, v in rows.items()})
        else:
            ck.bad(rid, "EnvFilter::max_level_hint: TRACE with value filters, else max over statics/dynamics", where(h.raw["sp"]), "rows %s" % rows, fn=h.path)
    rc = F.body(E + "::register_callsite")
    bi = F.body(E + "::base_interest")
    if ck.anchor(rid, "EnvFilter::register_callsite", rc) and ck.anchor(rid, "EnvFilter::base_interest", bi):
        rows = {}
        for p in PathEval(bi).run():
            if p.end == "return":
                rows[tuple(c[1] != 0 for c in p.conds)] = show(p.ret)
        never_ok = all(not v.startswith("never") or k == (False,) or k[-1] is False for k, v in rows.items())
        never_rows = [k for k, v in rows.items() if v.startswith("never")]
        cond = [show(c[0]) for p in PathEval(bi).run() for c in p.conds]
        if never_rows and all("has_dynamics" in c for c in cond) and all(k == (False,) for k in never_rows):
            ck.ok(rid, "EnvFilter: `never` only when there are no dynamic (span-scoped) directives", fn=bi.path, detail={str(k): v for k, v in rows.items()})
        else:
            ck.bad(rid, "EnvFilter: `never` only when there are no dynamic (span-scoped) directives", where(bi.raw["sp"]), "rows %s on %s" % (rows, set(cond)), fn=bi.path)
        always = []
        for p in PathEval(rc, max_paths=20000).run():
            if p.end == "return" and show(p.ret) == "always()":
                always.append([(show(c[0])[:50], c[1] != 0) for c in p.conds if c[0][0] != "const"])
        ok = always and all(any(("enabled(" in t and v) or ("matcher" in t) or ("discr(" in t and v) for t, v in g) for g in always)
        if ok:
            ck.ok(rid, "EnvFilter::register_callsite: `always` only after statics.enabled or a stored span matcher", fn=rc.path)
        else:
            ck.bad(rid, "EnvFilter::register_callsite: `always` only after statics.enabled or a stored span matcher", where(rc.raw["sp"]), "always-paths %s" % always[:2], fn=rc.path)


def for_each_fold_table(F, bc):
    """The fold of Vec<S>::register_callsite written as `self.iter().for_each(|s| { .. })` with the accumulators captured by
    `&mut`: extract the per-child transition from the closure (child verdict -> which accumulator is written with what) and the
    post-loop selection from the function, then tabulate 0..2 children by simulating it. None if the shape is not this one."""
    fe = [(bb, t) for bb, t in bc.calls() if t["callee"].get("method") == "for_each"]
    if len(fe) != 1:
        return None
    o = bc.origin(fe[0][1]["argv"][1])
    cd = o[1].get("agg", {}).get("closure") if o[0] == "agg" else None
    cb = F.body(cd) if cd else None
    if cb is None or not any(t["callee"].get("method") == "register_callsite" for bb, t in cb.calls()):
        return None
    caps = o[1]["agg"].get("fields", [])
    # transition: verdict class -> list of (captured name, value kind)
    trans = {}
    for p in PathEval(cb).run():
        if p.end != "return":
            continue
        cls = "always"
        for c in p.conds:
            t = show(c[0])
            if t.startswith("is_never(register_callsite(") and c[1] != 0:
                cls = "never"
            elif t.startswith("is_sometimes(register_callsite(") and c[1] != 0:
                cls = "sometimes"
            elif t.startswith("is_always(register_callsite(") and c[1] == 0 and cls == "always":
                return None
        writes = []
        for bb in p.blocks:
            for st in cb.blocks[bb]["stmts"]:
                if st["k"] == "assign" and st["lhs"].get("p") == ["*"]:
                    src = cb.origin({"copy": {"l": st["lhs"]["l"]}})
                    name = None
                    if src[0] == "arg" and src[1] == 1:
                        names = [x.get("n") for x in src[2] if isinstance(x, dict) and x.get("n")]
                        name = names[-1] if names else None
                    rv = st["rv"]
                    if "use" in rv and "const" in rv["use"]:
                        val = ("const", rv["use"]["const"].get("int"))
                    else:
                        vo = cb.origin(rv.get("use", {})) if "use" in rv else ("?",)
                        val = ("child",) if vo[0] == "call" and vo[2]["callee"].get("method") == "register_callsite" else ("?",)
                    writes.append((name, val))
        if cls in trans and trans[cls] != writes:
            return None
        trans[cls] = writes
    if set(trans) != {"never", "sometimes", "always"}:
        return None
    # post-loop selection in the function: `if FLAG { never() } else { ACC }` with ACC initialised to always()
    rets = []
    for p in PathEval(bc).run():
        if p.end == "return":
            rets.append(([(show(c[0]), c[1] != 0) for c in p.conds], show(p.ret)))
    flag = acc = None
    for conds, r in rets:
        esc = [c for c in conds if "escaped _" in c[0]]
        if len(esc) == 1 and esc[0][1] and r == "never()":
            flag = esc[0][0]
        if len(esc) == 1 and not esc[0][1] and "escaped _" in r:
            acc = r
    inits = [show(PathEvalInit(bc, st)) for i, j, st in bc.stmts() if False]
    if flag is None or acc is None:
        return None
    # which captured name is the flag / the accumulator: the one written with a constant true / with the child's interest
    flag_name = next((n for cls, ws in trans.items() for n, v in ws if v == ("const", 1)), None)
    acc_name = next((n for cls, ws in trans.items() for n, v in ws if v == ("child",)), None)
    if flag_name is None or acc_name is None or any(v == ("?",) for ws in trans.values() for n, v in ws):
        return None
    init_always = any(t["callee"].get("path", "").endswith("Interest::always") for bb, t in bc.calls())
    if not init_always:
        return None
    table = {}
    import itertools
    for k in (0, 1, 2):
        for kids in itertools.product(("never", "sometimes", "always"), repeat=k):
            f, a = False, "always"
            for kid in kids:
                for n, v in trans[kid]:
                    if n == flag_name and v == ("const", 1):
                        f = True
                    elif n == acc_name and v == ("child",):
                        a = kid
            table[tuple(kids)] = "never" if f else a
    return table


def PathEvalInit(body, st):
    return ("unknown", "")


def r6(ck, F, rid="C08.R6"):
    V = "alloc::vec::Vec<S>"
    be = F.impl_method(SUBSCRIBE, V, "enabled")
    bc = F.impl_method(SUBSCRIBE, V, "register_callsite")
    bh = F.impl_method(SUBSCRIBE, V, "max_level_hint")
    if not (ck.anchor(rid, "Vec<S>::enabled", be) and ck.anchor(rid, "Vec<S>::register_callsite", bc) and ck.anchor(rid, "Vec<S>::max_level_hint", bh)):
        return
    e = [show(p.ret) for p in PathEval(be).run() if p.end == "return"]
    e_all = len(e) == 1 and e[0].startswith("all(iter(")
    e_any = len(e) == 1 and e[0].startswith("any(iter(")
    if not e_all and not e_any:
        lf = loop_all_any(be, "enabled")      # the same fold written as a loop with an early return
        e_all, e_any = lf == "all", lf == "any"
    # the fold in register_callsite is a loop: unroll it for 0, 1 and 2 children and evaluate the resulting table
    # over {N,S,A}^k; soundness w.r.t. enabled = all(children): never as soon as one child is never (else a definitive
    # `always` could be cached although enabled() rejects), always only if every child is always.
    key = "Vec<S>::register_callsite is sound w.r.t. Vec<S>::enabled"
    table = {}
    problems = []
    fe_table = for_each_fold_table(F, bc)
    if fe_table is not None:
        table = fe_table
    for p in ([] if fe_table is not None else PathEval(bc, max_paths=20000, max_visits=4).run()):
        if p.end != "return":
            continue
        kids = []
        cur = None
        for c in p.conds:
            t = show(c[0])
            if t.startswith("discr(next("):
                if cur is not None:
                    kids.append(cur)
                cur = "always" if c[1] == 1 else None
            elif t.startswith("is_never(register_callsite(") and c[1] != 0:
                cur = "never"
            elif t.startswith("is_sometimes(register_callsite(") and c[1] != 0:
                cur = "sometimes"
            elif t.startswith(("is_never(", "is_sometimes(", "is_always(")) and "register_callsite(" in t:
                if t.startswith("is_always(") and c[1] == 0 and cur == "always":
                    cur = "not-always"
            elif c[0][0] != "const" and not t.startswith(("is_never(", "is_sometimes(", "is_always(")):
                problems.append("unrecognised condition %s" % t)
        kids = tuple(kids)
        if len(kids) > 2 or "not-always" in kids:
            continue
        r = p.ret
        if r[0] == "call" and r[1].startswith(INT) and r[1].rsplit("::", 1)[1] in (N, S, A):
            val = r[1].rsplit("::", 1)[1]
        elif r[0] == "call" and r[1].endswith("register_callsite"):
            idx = r[4] if len(r) > 4 else 0
            val = kids[idx] if idx < len(kids) else None
        else:
            val = None
        if val is None:
            problems.append("unrecognised result %s for children %s" % (show(r), kids))
            continue
        if kids in table and table[kids] != val:
            problems.append("ambiguous table at %s" % (kids,))
        table[kids] = val
    if e_all and not problems:
        for kids, val in sorted(table.items()):
            if N in kids and val != N:
                problems.append("children %s give %s: enabled() = all(children) rejects, so only `never` is sound... at least not `always`" % (kids, val) if val == A else "")
            if val == A and any(k != A for k in kids):
                problems.append("children %s are summarised as always although enabled() = all(children) can reject" % (kids,))
            if val == N and N not in kids and kids:
                problems.append("children %s are summarised as never although all of them may enable" % (kids,))
        problems = [x for x in problems if x]
    if e_all and not problems and len(table) >= 1 + 3 + 9:
        ck.ok(rid, key, fn=bc.path, detail={"/".join(k) or "(empty)": v for k, v in sorted(table.items())})
    elif e_all:
        ck.bad(rid, key, where(bc.raw["sp"]), "; ".join(sorted(set(problems))[:3]) or "table incomplete (%d rows)" % len(table), fn=bc.path)
    else:
        ck.bad(rid, key, where(be.raw["sp"]), "Vec::enabled is %s; unrecognised combination" % e, fn=be.path)
    # hint: max over children with None propagating; empty -> OFF
    hp = PathEval(bh, max_paths=4000).run()
    # a child without a hint makes the whole Vec hint-less: `s.max_level_hint()?`, or the same early return spelled out
    has_q = False
    for pth in hp:
        if pth.end != "return" or pth.ret is None:
            continue
        none_child = any((show(c[0]).startswith("discr(branch(max_level_hint(") and c[1] == 1) or (show(c[0]).startswith("discr(max_level_hint(") and c[1] == 0)
                         or (show(c[0]).startswith("is_none(max_level_hint(") and c[1] != 0) for c in pth.conds)
        r = show(pth.ret)
        if none_child and (r.startswith("Option::None") or r.startswith("from_residual(")):
            has_q = True
    has_max = any(t["callee"].get("path", "").endswith("cmp::max") for bb, t in bh.calls())
    off0 = any(s["k"] == "assign" and "use" in s["rv"] and (s["rv"]["use"].get("const") or {}).get("def", "").endswith("LevelFilter::OFF") for i, j, s in bh.stmts())
    if has_q and has_max and off0:
        ck.ok(rid, "Vec<S>::max_level_hint: None if any child has none, else the max; empty -> OFF", fn=bh.path)
    else:
        ck.bad(rid, "Vec<S>::max_level_hint: None if any child has none, else the max; empty -> OFF", where(bh.raw["sp"]),
               "`?` on child hint: %s, max: %s, OFF start: %s" % (has_q, has_max, off0), fn=bh.path)
    if e_all:
        ck.ok(rid, "Vec<S>::enabled = all(children)", fn=be.path)


def r7(ck, F, rid="C08.R7"):
    b = F.body("tracing_subscriber::subscribe::layered::Layered::<A, B, C>::pick_level_hint")
    if not ck.anchor(rid, "Layered::pick_level_hint", b):
        return
    conds = {show(c[0]) for p in PathEval(b).run() for c in p.conds}
    problems = []
    # the outer layer is tested with a fresh call on the live value: a layer wrapped in reload::Subscriber can change between
    # Some and None after the stack was built, so a flag computed at construction goes stale
    if not any(c.startswith("subscriber_is_none(") and "arg1.subscriber" in c for c in conds):
        cached = sorted(c for c in conds if "is_none" in c)
        problems.append("the outer layer's None-ness is not recomputed from self.subscriber on each call (conditions: %s): Option<S>::None reports "
                        "Some(OFF), and a stale answer disables everything or hides the inner hint" % (cached or sorted(conds)[:4]))
    # the inner value's None-ness is a parameter: every caller must pass a fresh subscriber_is_none(&self.inner)
    if not any(c == "arg4" for c in conds):
        problems.append("no test of the inner value's None-ness (parameter inner_is_none)")
    for x, bb, t in F.callers().get(b.path, []):
        if len(t["argv"]) < 4:
            continue
        o = x.origin(t["argv"][3])
        fresh = o[0] == "call" and (o[2]["callee"].get("path") or "").rsplit("::", 1)[-1] in ("subscriber_is_none", "collector_is_none")
        const = o[0] == "const"
        if not (fresh or const):
            problems.append("%s passes inner_is_none from %s, not from a fresh subscriber_is_none(&self.inner)" % (x.path[-60:], o[0]))
    if problems:
        ck.bad(rid, "pick_level_hint has the None-layer branches, evaluated on the live layers", where(b.raw["sp"]), "; ".join(problems), fn=b.path)
    else:
        ck.ok(rid, "pick_level_hint has the None-layer branches, evaluated on the live layers (Option<S>::None hint OFF is corrected at composition)", fn=b.path)


def envfilter_matcher_refresh(ck, F, rid="C08.R11"):
    rc = F.body("tracing_subscriber::filter::env::EnvFilter::register_callsite")
    if not ck.anchor(rid, "EnvFilter::register_callsite", rc):
        return
    # the matcher found for a span callsite is (re)stored on *every* registration: the interest-cache rebuild is how an
    # edited filter (Handle::modify + add_directive) gets its per-callsite matchers rebuilt from the new directives
    keys_ = "EnvFilter::register_callsite stores the matcher it found on every registration (a rebuild refreshes it)"
    ins = [bb for bb, t in rc.calls() if t["callee"].get("method") == "insert" and "HashMap" in (t["callee"].get("path") or "")
           and ("by_cs" in str(rc.origin(t["argv"][0])) or "callsite::Identifier" in str(rc.origin(t["argv"][0])))]
    if len(ins) == 1:
        g, _ = guards_of(rc, ins[0])
        allowed = ("arg1.has_dynamics", "discr(write(arg1.by_cs))", "discr(try_write(arg1.by_cs))", "discr(matcher(arg1.dynamics, arg2))", "is_span(arg2)")
        extra = [(t, v) for t, v in g if t not in allowed and t not in ("0", "1")]
        if extra:
            ck.bad(rid, keys_, where(rc.raw["sp"]), "the insert is additionally conditioned on %s: a callsite the filter already knew keeps the matcher built from the "
                   "directives it had then" % [t[:60] for t, v in extra], fn=rc.path)
        else:
            ck.ok(rid, keys_, fn=rc.path)
    else:
        ck.bad(rid, keys_, where(rc.raw["sp"]), "%d insertions into by_cs (expected 1)" % len(ins), fn=rc.path)


def envfilter_interest(ck, F, rid="C08.R11"):
    """EnvFilter::enabled looks at the per-thread scope of entered spans *before* the static directives whenever span
    directives exist (has_dynamics): inside a matching span it accepts what the static directives reject. The cached
    summary must therefore never be `never` while has_dynamics is set, whatever the static directives say."""
    from rulekit.sym import PathEval, show
    E = "tracing_subscriber::filter::env::EnvFilter::"
    rc, bi = F.body(E + "register_callsite"), F.body(E + "base_interest")
    if not ck.anchor(rid, "EnvFilter::register_callsite", rc):
        return
    base = {}
    if bi is not None:
        for p in PathEval(bi).run():
            if p.end == "return":
                dyn = [c[1] for c in p.conds if show(c[0]) == "arg1.has_dynamics"]
                base[show(p.ret)] = dyn[0] if dyn else "?"
    nevers, always_bad, rows = [], [], 0
    for p in PathEval(rc).run():
        if p.end != "return":
            continue
        rows += 1
        r = show(p.ret)
        conds = [(show(c[0]), c[1]) for c in p.conds]
        dyn = [v for t, v in conds if t == "arg1.has_dynamics"]
        no_dyn = bool(dyn) and dyn[0] == 0
        if r.startswith("base_interest("):
            # never() from base_interest only under !has_dynamics
            if bi is None or base.get("never()") != 0 or any(v != 0 for k, v in base.items() if k == "never()"):
                nevers.append("base_interest returns never() under %s" % base)
        elif r == "never()":
            if not no_dyn:
                nevers.append("never() under %s" % [c for c in conds if c[1] != 0 or c[0] == "arg1.has_dynamics"][:4])
        elif r == "always()":
            # (the static verdict may be spelled as statics.enabled(..) or as a look at directives_for(..).next(): any
            # test on the static directive set counts; what it must compute is C11.R2's business)
            if not any(("arg1.statics" in t and v != 0) or (t.startswith("discr(matcher(arg1.dynamics") and v == 1) for t, v in conds):
                always_bad.append(conds[:4])
        elif r != "sometimes()":
            nevers.append("unrecognised result %s" % r[:60])
    # a span callsite is offered to the span directives (dynamics.matcher) whenever there are any: that lookup is what
    # stores the per-callsite matcher every later on_new_span / enter / exit of the span depends on
    from rulekit.query import guards_of
    mk = [bb for bb, t in rc.calls() if (t["callee"].get("path") or "").endswith("::matcher")]
    keym = "EnvFilter::register_callsite asks the span directives about every span callsite"
    if len(mk) == 1:
        g, _ = guards_of(rc, mk[0])
        wrong = [(t[:50], v) for t, v in g if (t == "arg1.has_dynamics" or t.startswith("is_span(")) and (v == 0 or v is False)]
        extra = [(t[:50], v) for t, v in g if not (t == "arg1.has_dynamics" or t.startswith("is_span(") or t in ("0", "1"))]
        if wrong or extra:
            ck.bad(rid, keym, where(rc.raw["sp"]), "dynamics.matcher is consulted under %s: span callsites matched by a span directive get no matcher, so the directive never takes effect"
                   % (wrong + extra), fn=rc.path)
        else:
            ck.ok(rid, keym, fn=rc.path)
    else:
        ck.bad(rid, keym, where(rc.raw["sp"]), "%d calls of dynamics.matcher (expected 1)" % len(mk), fn=rc.path)
    key = "EnvFilter::register_callsite publishes `never` only when there are no span directives"
    if rows and not nevers:
        ck.ok(rid, key, fn=rc.path, detail=rows)
    else:
        ck.bad(rid, key, where(rc.raw["sp"]), "%s: inside a span matched by a span directive `enabled` accepts the callsite, but the cached `never` means it is never asked"
               % "; ".join(sorted(set(nevers)))[:300], fn=rc.path)
    # ... and a stored matcher justifies `always` only for a span `enabled` would accept: enabled() looks at the callsite's
    # matcher only behind `dynamics.max_level >= level`, so `always` for a span more verbose than every span directive
    # contradicts the decision (visible through `.not()`, or next to a filter that forces `enabled` to be asked)
    unbounded = []
    for p in PathEval(rc).run():
        if p.end != "return" or show(p.ret) != "always()":
            continue
        conds = [(show(c[0]), c[1]) for c in p.conds]
        if any(t.startswith("discr(matcher(arg1.dynamics") and v == 1 for t, v in conds) and not any("max_level" in t for t, v in conds):
            unbounded.append(1)
    keyk = "EnvFilter::register_callsite answers `always` for a matched span only within the span directives' max level"
    if unbounded:
        ck.bad(rid, keyk, where(rc.raw["sp"]), "`always` is returned for any span callsite a span directive names, without comparing its level with dynamics.max_level, "
               "while EnvFilter::enabled rejects such a span when it is more verbose than every span directive", fn=rc.path)
    else:
        ck.ok(rid, keyk, fn=rc.path)
    envfilter_matcher_refresh(ck, F, rid)
    key = "EnvFilter::register_callsite publishes `always` only for what the static directives enable or a stored span matcher covers"
    if rows and not always_bad:
        ck.ok(rid, key, fn=rc.path)
    else:
        ck.bad(rid, key, where(rc.raw["sp"]), "always() is returned under %s" % always_bad[:2], fn=rc.path)


def inner_is_registry_rule(ck, F, rid="C08.R12"):
    """pick_level_hint returns the outer hint alone when `inner_is_registry` (the Registry has no opinion). The flag is
    computed once, in Layered::new, by a TypeId comparison with Registry. It must compare the type of the `inner` *value*
    (parameter 2): every Layered of an and_then tree has collector type parameter C = Registry, also the ones whose inner
    value is another layer -- judged by C, that layer's hint is dropped and the published maximum is too low for it."""
    b = F.body("tracing_subscriber::subscribe::layered::Layered::<A, B, C>::new")
    if not ck.anchor(rid, "Layered::new", b):
        return
    inner_ty = str(b.raw["locals"][2]) if len(b.raw.get("locals", [])) > 2 else None
    ofs = [t["callee"].get("targs", [None])[0] for bb, t in b.calls() if t["callee"].get("path") == "core::any::TypeId::of"]
    REG = "registry::sharded::Registry"
    reg = [x for x in ofs if x and (x.endswith(REG) or x.endswith(REG + ">"))]
    others = [x for x in ofs if x and x not in reg]
    key = "Layered::new compares the inner value's type with Registry"
    if not reg:
        ck.ok(rid, key, fn=b.path, detail="no Registry special case in this configuration")
    elif others and set(others) == {inner_ty}:
        ck.ok(rid, key, fn=b.path, detail="TypeId::of::<%s>() == TypeId::of::<Registry>()" % inner_ty)
    else:
        ck.bad(rid, key, where(b.raw["sp"]), "inner_is_registry is computed from TypeId::of::<%s>, but the inner value has type %s: in an and_then tree over a Registry "
               "the inner *layer* is taken for the registry and its level hint is ignored" % (others, inner_ty), fn=b.path)


    # Box<Registry> and Arc<Registry> are roots the crate accepts (register_filter / LookupSpan are forwarded for them): the
    # stack must treat them as the registry too, else the registry's summed per-layer `never` is passed on unchanged and an
    # unfiltered layer next to a filtered one is told nothing
    k2 = "a Registry behind Box or Arc is recognised as the registry as well"
    if reg:
        have = {("Box" if "boxed::Box<" in x else "Arc" if "sync::Arc<" in x else "plain") for x in reg}
        if {"Box", "Arc", "plain"} <= have:
            ck.ok(rid, k2, fn=b.path, detail=sorted(have))
        else:
            ck.bad(rid, k2, where(b.raw["sp"]), "inner_is_registry is true only for %s: with Box<Registry> / Arc<Registry> as the root, pick_interest hands the registry's "
                   "`never` (the sum of the per-layer filters) to the unfiltered layers, which then miss what only the filtered neighbour rejected" % sorted(have), fn=b.path)


def pick_interest_effects(ck, F, rid="C08.R14"):
    """The tables compare what pick_interest *returns*. Its one side effect is part of the protocol too: when the outer
    layer's `never` short-circuits the inner stack, what the per-subscriber filters of that stack would have added to the
    thread's interest accumulator must be discarded (FilterState::take_interest) -- else it is summed into the next
    callsite's registration; and on every other path the inner stack is asked exactly once."""
    b = F.body("tracing_subscriber::subscribe::layered::Layered::<A, B, C>::pick_interest")
    if not ck.anchor(rid, "Layered::pick_interest", b):
        return
    problems = []
    for p in PathEval(b).run():
        if p.end != "return":
            continue
        ms = [c[1].get("method") for c in p.calls]
        asked = ms.count("call_once") + ms.count("call") + ms.count("call_mut")
        if asked == 0 and "take_interest" not in ms:
            problems.append("a path that does not ask the inner stack leaves the per-subscriber interest accumulator as it is (conditions %s)" % [(show(c[0])[:30], c[1]) for c in p.conds if c[0][0] != "const"])
        if asked > 1:
            problems.append("the inner stack is asked %d times on one path" % asked)
        if asked and "take_interest" in ms:
            problems.append("the accumulator is cleared although the inner stack was asked (its filters' interests are lost)")
    key = "pick_interest asks the inner stack once, or discards the pending per-subscriber interest when it short-circuits"
    if problems:
        ck.bad(rid, key, where(b.raw["sp"]), "; ".join(sorted(set(problems))), fn=b.path)
    else:
        ck.ok(rid, key, fn=b.path)


def pick_tables(ck, F, rid="C08.R14"):
    pick_interest_effects(ck, F, rid)
    """The two functions through which a Layered stack combines what its halves published. Their control flow is a
    cascade of flag tests whose order matters; the rules elsewhere pin single clauses (None layers, the registry test,
    who is asked). Here the whole function is turned into a table: every return path PathEval enumerates is evaluated
    on concrete representatives -- all 2^5 flag settings x outer hint in {None, Some(OFF), Some(INFO)} x inner hint in
    {None, Some(OFF), Some(ERROR), Some(DEBUG)} (384 rows), resp. 2^2 flags x 3 x 3 interests (36 rows) -- and compared
    with the reference composition written out below (the behaviour confirmed on the pinned tree and by its eleven unit
    tests). A rewrite that keeps the function's meaning keeps the table; any change of meaning changes a row."""
    import itertools
    from rulekit.fdeval import table
    L = "tracing_subscriber::subscribe::layered::Layered::<A, B, C>::"
    b = F.body(L + "pick_level_hint")
    if ck.anchor(rid, "Layered::pick_level_hint", b):
        def hook(t, env):
            if t[0] == "call" and t[1].endswith("subscribe::subscriber_is_none"):
                return env["subscriber_is_none"]
            return NotImplemented

        def spec(R, O, I, N, M, o, i):
            k = lambda v: (0, 0) if v is None else (1, v[1])
            mx = lambda x, y: y if k(y) >= k(x) else x
            if R:                       # the value below is the Registry: it has no opinion
                return o
            if O and I:                 # both halves per-layer filtered: only if both have a hint
                return None if (o is None or i is None) else ("Some", max(o[1], i[1]))
            if O and i is None:
                return None
            if I and o is None:
                return None
            if N:                       # this layer is Option::None
                return None if i is None else mx(o, i)
            if M and i == ("Some", 0):  # the layer below is None and said OFF
                return o
            return mx(o, i)
        envs, keys = [], []
        for R, O, I, N, M in itertools.product([False, True], repeat=5):
            for o in (None, ("Some", 0), ("Some", 3)):
                for i in (None, ("Some", 0), ("Some", 1), ("Some", 4)):
                    envs.append({"self.inner_is_registry": R, "self.has_subscriber_filter": O, "self.inner_has_subscriber_filter": I,
                                 "subscriber_is_none": N, "arg4": M, "arg2": o, "arg3": i})
                    keys.append((R, O, I, N, M, o, i))
        ev = PathEval(b)
        paths = [p for p in ev.run() if p.end == "return"]
        res = table(b, paths, envs, [hook])
        undec = [(k, r[1]) for k, r in zip(keys, res) if r[1]]
        wrong = [(k, r[0]) for k, r in zip(keys, res) if not r[1] and r[0] != spec(*k)]
        key = "pick_level_hint: 384-row table equals the reference composition"
        names = ("inner_is_registry", "has_subscriber_filter", "inner_has_subscriber_filter", "subscriber_is_none", "inner_is_none", "outer_hint", "inner_hint")
        if wrong:
            k0, got = wrong[0]
            ck.bad(rid, key, where(b.raw["sp"]), "%d rows differ, e.g. %s -> %s, reference %s" % (len(wrong), dict(zip(names, k0)), got, spec(*k0)), fn=b.path)
        elif ev.truncated or len(undec) > len(keys) // 2:
            ck.bad(rid, key, where(b.raw["sp"]), "the function could not be turned into a table (%s)" % (undec[0][1] if undec else "path enumeration truncated"), fn=b.path)
        else:
            ck.ok(rid, key, fn=b.path, detail="%d rows decided, %d not evaluable" % (len(keys) - len(undec), len(undec)))
    b = F.body(L + "pick_interest")
    if ck.anchor(rid, "Layered::pick_interest", b):
        NEVER, SOMETIMES, ALWAYS = "never", "sometimes", "always"

        def hook2(t, env):
            if t[0] == "call":
                p = t[1]
                if p.endswith("FnOnce::call_once") and t[2] and t[2][0] == ("arg", 3):
                    return env["inner"]
                for nm in ("never", "sometimes", "always"):
                    if p.endswith("Interest::is_" + nm) and t[2]:
                        return feval_i(t[2][0], env) == nm
                    if p.endswith("Interest::" + nm) and not t[2]:
                        return nm
                if p.endswith("FilterState::take_interest"):
                    return None
            return NotImplemented

        def feval_i(t, env):
            from rulekit.fdeval import feval
            return feval(t, env, b, [hook2])

        def spec2(O, I, outer, inner):
            if O:
                return inner
            if outer == NEVER:
                return NEVER
            if outer == SOMETIMES:
                return SOMETIMES
            if inner == NEVER and I:
                return SOMETIMES
            return inner
        envs, keys = [], []
        for O, I in itertools.product([False, True], repeat=2):
            for outer in (NEVER, SOMETIMES, ALWAYS):
                for inner in (NEVER, SOMETIMES, ALWAYS):
                    envs.append({"self.has_subscriber_filter": O, "self.inner_has_subscriber_filter": I, "arg2": outer, "inner": inner})
                    keys.append((O, I, outer, inner))
        ev = PathEval(b)
        paths = [p for p in ev.run() if p.end == "return"]
        res = table(b, paths, envs, [hook2])
        undec = [(k, r[1]) for k, r in zip(keys, res) if r[1]]
        wrong = [(k, r[0]) for k, r in zip(keys, res) if not r[1] and r[0] != spec2(*k)]
        key = "pick_interest: 36-row table equals the reference composition"
        if wrong:
            k0, got = wrong[0]
            ck.bad(rid, key, where(b.raw["sp"]), "%d rows differ, e.g. (has_subscriber_filter, inner_has_subscriber_filter, outer, inner) = %s -> %s, reference %s" % (len(wrong), k0, got, spec2(*k0)), fn=b.path)
        elif ev.truncated or len(undec) > len(keys) // 2:
            ck.bad(rid, key, where(b.raw["sp"]), "the function could not be turned into a table (%s)" % (undec[0][1] if undec else "path enumeration truncated"), fn=b.path)
        else:
            ck.ok(rid, key, fn=b.path, detail="%d rows decided, %d not evaluable" % (len(keys) - len(undec), len(undec)))


def provided_summaries(ck, F, rid="C08.R16"):
    """The provided methods of Collect / Subscribe / Filter are the summaries of every implementation that leaves them
    alone (most user-written ones). They must be the neutral element of each composition: a verdict derived from the
    implementation's own `enabled`, "no opinion" for the level, "ask me every time" for a per-layer filter."""
    T = {"Collect": "tracing_core::collect::Collect::", "Subscribe": "tracing_subscriber::subscribe::Subscribe::", "Filter": "tracing_subscriber::subscribe::Filter::"}

    def rows(path):
        b = F.body(path)
        if b is None:
            return None, None
        return b, [([(show(c[0]), c[1]) for c in p.conds if c[0][0] != "const"], show(p.ret)) for p in PathEval(b).run() if p.end == "return"]
    for tn in ("Collect", "Subscribe"):
        b, rs = rows(T[tn] + "register_callsite")
        key = "%s::register_callsite (provided): never iff enabled() is false, else always" % tn
        if not ck.anchor(rid, key, b):
            continue
        ok = len(rs) == 2 and all(len(c) == 1 and c[0][0].startswith("enabled(arg1, arg2") for c, r in rs) and \
            {(c[0][1] == 0, r) for c, r in rs} == {(True, "never()"), (False, "always()")}
        if ok:
            ck.ok(rid, key, fn=b.path)
        else:
            ck.bad(rid, key, where(b.raw["sp"]), "rows %s" % rs, fn=b.path)
    for tn, m, want, why in (("Collect", "max_level_hint", "Option::None{}", "no opinion"), ("Subscribe", "max_level_hint", "Option::None{}", "no opinion"),
                             ("Filter", "max_level_hint", "Option::None{}", "no opinion"), ("Collect", "event_enabled", "1", "no veto"),
                             ("Subscribe", "event_enabled", "1", "no veto"), ("Filter", "event_enabled", "1", "no veto"),
                             ("Subscribe", "enabled", "1", "a layer without a filter accepts everything"),
                             ("Filter", "callsite_enabled", "sometimes()", "a per-layer filter that says nothing static is asked every time")):
        b, rs = rows(T[tn] + m)
        key = "%s::%s (provided) is %s (%s)" % (tn, m, want, why)
        if not ck.anchor(rid, "%s::%s" % (tn, m), b):
            continue
        if rs == [([], want)]:
            ck.ok(rid, key, fn=b.path)
        else:
            ck.bad(rid, key, where(b.raw["sp"]), "rows %s" % rs, fn=b.path)
