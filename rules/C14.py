"""C14 — JSON output is always one valid JSON object per line and faithful to the data.

Most of the property (validity for every character, numeric fidelity) is serde_json's contract and input-quantified.
Structural clauses decided:
R1 only the serializer writes: nothing in the JSON formatter / tracing-serde writes to the output except through
   serde_json's Serializer over WriteAdaptor, plus the single terminating newline
R2 merge dataflow of later `record` calls (parse -> seed the visitor's map -> record -> replace only on success)
R3 the span list is root-to-leaf
"""
from rulekit import Facts, where
from rulekit.sym import PathEval, show
from rulekit.query import guards_of, loop_body_always_calls, option_test

J = "tracing_subscriber::fmt::format::json::"
FE = "tracing_subscriber::fmt::format::FormatEvent"
RAW = {"write_str", "write_fmt", "write_char"}


def run(ck):
    F = Facts("default")
    ck.configs.append("default")
    ck.explanation = (
        "Who-may-write and dataflow rules over the MIR of fmt::format::json and tracing-serde: every raw "
        "fmt::Write::{write_str,write_fmt,write_char} call in those modules is either the single terminating writeln of "
        "format_event or a Debug impl (not output); all record content goes through serde_json::Serializer over "
        "WriteAdaptor, whose io::Write::write forwards the whole UTF-8 buffer once; tracing-serde's visitors emit values "
        "only through serialize_entry/serialize_field; later `record` calls re-parse the stored object, seed the visitor's "
        "BTreeMap (unique keys) with it before recording, and replace the stored string only on success; the span list is "
        "built from scope().from_root(). JSON validity/escaping itself is serde_json's contract and is NOT decided.")
    ck.assumptions += ["serde_json produces valid JSON for every input it accepts", "field names/values reach the visitor as C10 establishes"]
    ck.rule("C14.R1", "only the serializer writes record content; one terminating newline; every collected field serialised", floor=6)
    ck.rule("C14.R2", "later record calls merge into the stored object (owned keys); replaced only on success", floor=6)
    ck.rule("C14.R6", "what the JSON formatter is handed is what was written: every field form of the macros pairs name, position and %/? sigil with the value (as C10.R2)", floor=300)
    ck.rule("C14.R5", "each JSON record reaches the writer whole: one write_all of the complete buffer, into a buffer cleared first (as C13.R1/R2)", floor=10)
    ck.rule("C14.R4", "a later record updates the span's stored fields under one write lock (read-merge-store is atomic); fields are stored once, merged when present", floor=3)
    ck.rule("C14.R9", "numbers the JSON visitors do not handle themselves (128-bit) reach record_debug with every digit: Visit's provided methods pass the value on unchanged (as C10.R4)", floor=8)
    ck.rule("C14.R10", "a value is rendered the same way whether it is an event field or a span field: the event-side visitors (tracing-serde) override no record_* method that the span-side JsonVisitor leaves to Visit's provided default", floor=2)
    ck.rule("C14.R11", "a span's stored JSON fields are its own: a recycled registry slot never carries the previous span's extensions over (Clear empties them on every path, as C05.R1)", floor=1)
    ck.rule("C14.R14", "every object / list of a record is opened so that its closing bracket is written once, at the end: where entries are written conditionally or by a "
            "visitor the serializer is given no length (a wrong one, `Some(0)` in particular, makes serde_json close the object at once)", floor=3)
    ck.rule("C14.R13", "an event's fields become an object with unique keys: the event-side visitor, like the span-side one, collects by key before it serialises "
            "(the macros accept the same field name twice, and both values reach the formatter)", floor=1)
    ck.rule("C14.R12", "what a layer stored for a span is what it reads back: the per-span type map files, finds and removes a value under the "
            "TypeId of that value's own type, through every wrapper", floor=9)
    ck.rule("C14.R8", "every span field the JSON visitor is handed is stored (as C13.R10)", floor=4)
    ck.rule("C14.R7", "the JSON span list is the event's own scope, root to leaf (as C13.R7)", floor=5)
    ck.rule("C14.R3", "span list is root to leaf", floor=1)
    r1(ck, F)
    r2(ck, F)
    r3(ck, F)
    r4(ck, F)
    r4b(ck, F)
    from rules import C13
    C13.r1_r2(ck, F, r1id="C14.R5", r2id="C14.R5")
    from rules import C10
    C10.valueset_rule(ck, "C14.R6")
    C13.r7(ck, F, rid="C14.R7")
    C13.r7b(ck, F, rid="C14.R7")
    C13.r10(ck, F, rid="C14.R8", only="JsonVisitor")
    from rules import C10
    C10.visit_defaults(ck, F, rid="C14.R9")
    r10_siblings(ck, F)
    from rules import C05 as _C05
    _C05.clear_resets_slot(ck, F, "C14.R11")
    extensions_typemap(ck, F, "C14.R12")
    event_keys_unique(ck, F)
    length_hints(ck, F)


def length_hints(ck, F, rid="C14.R14"):
    """serde_json ignores a non-zero length hint, but for `Some(0)` it writes `{}` / `[]` immediately and appends every later
    entry after the closing bracket. The formatter's objects have option-dependent and visitor-written entries: their
    number is not known when the object is opened."""
    n = 0
    for b in F.body_list:
        if "fmt/format/json.rs" not in b.span:
            continue
        opens = [(bb, t) for bb, t in b.calls() if t["callee"].get("method") in ("serialize_map", "serialize_seq")]
        if not opens:
            continue
        entries = [bb for bb, t in b.calls() if t["callee"].get("method") in ("serialize_entry", "serialize_element", "serialize_key", "serialize_value")]
        dynamic = any(not b.postdominates(e, opens[0][0]) for e in entries) or \
            any(t["callee"].get("method") in ("record", "try_for_each", "for_each") or str(t["callee"].get("path", "")).endswith("SerdeMapVisitor::<S>::new") for bb, t in b.calls()) or \
            any(b.reachable(s_).__contains__(e) for e in entries for s_ in b.succ(e, False))
        for bb, t in opens:
            n += 1
            o = b.origin(t["argv"][-1])
            none = o[0] == "agg" and o[1].get("agg", {}).get("variant") == "None"
            key = "%s opens its %s with no length" % ("::".join(b.path.split("::{closure")[0].replace(">", "").split("::")[-2:])[-60:], "object" if t["callee"]["method"] == "serialize_map" else "list")
            if none or not dynamic:
                ck.ok(rid, key, fn=b.path)
            else:
                ck.bad(rid, key, where(t["sp"]), "the %s is opened with a length hint although its entries are written conditionally / by a visitor: when the hint is 0 (every "
                       "optional entry switched off) serde_json emits `{}` at once and the record becomes `{},\"message\":...}`" % ("object" if t["callee"]["method"] == "serialize_map" else "list"), fn=b.path)
    if not n:
        ck.bad(rid, "objects and lists opened by the JSON formatter", J, "none found")


def event_keys_unique(ck, F, rid="C14.R13"):
    """Sibling disagreement: span fields go through JsonVisitor, which owns a map (a repeated name keeps one value); event
    fields go through tracing-serde's SerdeMapVisitor, which writes each visited value straight into the serializer."""
    adt = F.adts.get("tracing_serde::SerdeMapVisitor")
    if not ck.anchor(rid, "tracing_serde::SerdeMapVisitor", adt):
        return
    fields = adt["variants"][0]["fields"]
    has_set = any(any(k in f["ty"] for k in ("Map<", "Set<", "Vec<")) for f in fields)
    direct = []
    for i in F.impls:
        if i.get("trait") == "tracing_core::field::Visit" and "SerdeMapVisitor" in i["self_ty"]:
            for m, pth in i["methods"].items():
                b = F.body(pth)
                if b is not None and any(t["callee"].get("method") == "serialize_entry" for bb, t in b.calls()):
                    direct.append(m)
    key = "SerdeMapVisitor writes each key once"
    if direct and not has_set:
        ck.bad(rid, key, adt["span"], "%d record_* methods call serialize_entry for every visited value and the visitor keeps no record of the keys it has written (fields: %s): "
               "`info!(attempt = 1, attempt = 2)` yields an object with the key `attempt` twice" % (len(direct), [f["name"] for f in fields]))
    else:
        ck.ok(rid, key, detail=[f["name"] for f in fields])


def extensions_typemap(ck, F, rid):
    """Extensions is a map TypeId -> Box<dyn Any>. The formatted / JSON fields of a span live there between on_new_span,
    on_record and the event that prints them; they are found again only if insert, get, get_mut and remove all key on
    TypeId::of::<T>() for the *same* T as the value stored / asked for, and the public wrappers pass that T through."""
    X = "tracing_subscriber::registry::extensions::"
    INNER = {"insert": "insert", "get": "get", "get_mut": "get_mut", "remove": "remove"}
    for m, mapop in INNER.items():
        b = F.body(X + "ExtensionsInner::" + m)
        if not ck.anchor(rid, "ExtensionsInner::" + m, b):
            continue
        key = "ExtensionsInner::%s keys the map on TypeId::of::<T>() of its own T" % m
        problems = []
        tp = b.raw.get("tparams") or []
        ops = [(bb, t) for bb, t in b.calls() if "HashMap" in str(t["callee"].get("path")) and t["callee"].get("method") in ("insert", "get", "get_mut", "remove", "entry", "remove_entry", "get_key_value")]
        if len(tp) != 1:
            problems.append("type parameters %s" % tp)
        elif len(ops) != 1 or ops[0][1]["callee"].get("method") != mapop:
            problems.append("map operations %s (expected one %s)" % ([t["callee"].get("method") for _, t in ops], mapop))
        else:
            bb, t = ops[0]
            ko = b.origin(t["argv"][1])
            if not (ko[0] == "call" and ko[2]["callee"].get("path") == "core::any::TypeId::of" and ko[2]["callee"].get("targs") == tp):
                problems.append("the key is %s, not TypeId::of::<%s>()" % (ko[2]["callee"].get("full") if ko[0] == "call" else ko[0], tp[0]))
            if m == "insert":
                vo = b.origin(t["argv"][2])
                if not (vo[0] == "call" and "Box" in str(vo[2]["callee"].get("path")) and vo[2]["callee"].get("method") == "new" and b.origin(vo[2]["argv"][0]) == ("arg", 2, [])):
                    problems.append("the stored value is not Box::new(val)")
            # the answer is that map operation's result, downcast -- not dropped
            ro = [p.ret for p in __import__("rulekit.sym", fromlist=["PathEval"]).PathEval(b).run() if p.end == "return"]
            from rulekit.sym import show
            if not ro or not all(mapop + "(" in show(r) for r in ro):
                problems.append("returns %s" % [show(r)[:60] for r in ro])
        if problems:
            ck.bad(rid, key, where(b.raw["sp"]), "; ".join(problems) + ": a value filed under one type's id is not found under its own", fn=b.path)
        else:
            ck.ok(rid, key, fn=b.path)
    WRAP = {"ExtensionsMut::<'a>::replace": "insert", "ExtensionsMut::<'a>::get_mut": "get_mut", "ExtensionsMut::<'a>::remove": "remove", "Extensions::<'a>::get": "get"}
    for w, inner in WRAP.items():
        b = F.body(X + w)
        if not ck.anchor(rid, w, b):
            continue
        key = "%s is ExtensionsInner::%s::<T> on the guarded map" % (w.replace("::<'a>", ""), inner)
        tp = b.raw.get("tparams") or []
        calls = [t for bb, t in b.calls() if str(t["callee"].get("path", "")).startswith(X + "ExtensionsInner::")]
        from rulekit.sym import PathEval, show
        rets = [show(p.ret) for p in PathEval(b).run() if p.end == "return"]
        ok = len(calls) == 1 and calls[0]["callee"]["path"] == X + "ExtensionsInner::" + inner and calls[0]["callee"].get("targs") == tp and \
            rets and all(r.startswith(inner + "(") for r in rets)
        if ok and inner == "insert":
            ok = b.origin(calls[0]["argv"][1]) == ("arg", 2, [])
        if ok:
            ck.ok(rid, key, fn=b.path)
        else:
            ck.bad(rid, key, where(b.raw["sp"]), "calls %s with %s, returns %s" % ([c["callee"].get("path", "").rsplit("::", 1)[-1] for c in calls], [c["callee"].get("targs") for c in calls], rets), fn=b.path)
    b = F.body(X + "ExtensionsMut::<'a>::insert")
    if ck.anchor(rid, "ExtensionsMut::insert", b):
        calls = [t for bb, t in b.calls() if t["callee"].get("path") == X + "ExtensionsMut::<'a>::replace"]
        key = "ExtensionsMut::insert stores through replace::<T>(val)"
        if len(calls) == 1 and calls[0]["callee"].get("targs") == (b.raw.get("tparams") or []) and b.origin(calls[0]["argv"][1]) == ("arg", 2, []):
            ck.ok(rid, key, fn=b.path)
        else:
            ck.bad(rid, key, where(b.raw["sp"]), "replace calls: %d" % len(calls), fn=b.path)


def r1(ck, F):
    raw_sites = []
    for b in F.body_list:
        in_json = "fmt/format/json.rs" in b.span
        if not (in_json or b.crate == "tracing_serde"):
            continue
        for bb, t in b.calls():
            c = t["callee"]
            if c.get("method") in RAW and (c.get("trait") in (None, "core::fmt::Write") or "fmt::Write" in c.get("path", "") or "Formatter" in c.get("path", "")):
                raw_sites.append((b, bb, t))
    fe = F.impl_method(FE, "tracing_subscriber::fmt::format::Format<tracing_subscriber::fmt::format::json::Json,", "format_event")
    allowed = 0
    for b, bb, t in raw_sites:
        is_debug = b.path.endswith("core::fmt::Debug>::fmt") or "core::fmt::Display>::fmt" in b.path
        key = "%s: raw %s" % (b.path[-70:], t["callee"].get("method"))
        if is_debug:
            ck.ok("C14.R1", key, nontrivial=False, detail="Debug/Display impl, not record output")
        elif fe is not None and b is fe:
            allowed += 1
            ck.ok("C14.R1", key, fn=b.path, detail="the terminating newline (its uniqueness/position is C13.R3)")
        else:
            ck.bad("C14.R1", "raw write outside the serializer", where(t["sp"]),
                   "%s writes to the output directly with %s: content that bypasses serde_json is not escaped" % (b.path, t["callee"].get("method")), fn=b.path)
    if allowed != 1:
        ck.bad("C14.R1", "exactly one raw write in format_event", fe.path if fe else J, "%d raw writes in Json format_event (expected the single writeln)" % allowed)
    # format_event builds serde_json::Serializer::new(WriteAdaptor::new(writer)) and serialises one map
    if ck.anchor("C14.R1", "Json::format_event", fe):
        bodies = [fe] + F.closures_of(fe)
        ser_new = [(x, t) for x in bodies for bb, t in x.calls() if t["callee"].get("path", "").startswith("serde_json::ser::Serializer") and t["callee"].get("method") == "new"]
        ok = len(ser_new) == 1
        if ok:
            x, t = ser_new[0]
            a = x.origin(t["argv"][0])
            ok = a[0] == "call" and a[2]["callee"].get("path", "").endswith("WriteAdaptor::<'a>::new")
        maps = [t for x in bodies for bb, t in x.calls() if t["callee"].get("method") == "serialize_map"]
        ends = [t for x in bodies for bb, t in x.calls() if t["callee"].get("trait", "").endswith("SerializeMap") and t["callee"].get("method") == "end"]
        if ok and len(maps) == 1 and len(ends) == 1:
            ck.ok("C14.R1", "format_event: one serde_json Serializer over WriteAdaptor, one map per record", fn=fe.path)
        else:
            ck.bad("C14.R1", "format_event: one serde_json Serializer over WriteAdaptor, one map per record", where(fe.raw["sp"]),
                   "serializers %d, serialize_map %d, end %d" % (len(ser_new), len(maps), len(ends)), fn=fe.path)
    # WriteAdaptor::write forwards the whole buffer once and reports its length
    wa = F.impl_method("std::io::Write", "tracing_subscriber::fmt::writer::WriteAdaptor<", "write")
    if ck.anchor("C14.R1", "io::Write for WriteAdaptor", wa):
        ws = [t for bb, t in wa.calls() if t["callee"].get("method") == "write_str"]
        rets = [show(p.ret) for p in PathEval(wa).run() if p.end == "return" and show(p.ret).startswith("Result::Ok")]
        if len(ws) == 1 and rets and all("len(" in r for r in rets):
            ck.ok("C14.R1", "WriteAdaptor::write forwards the whole buffer once and reports its length", fn=wa.path)
        else:
            ck.bad("C14.R1", "WriteAdaptor::write forwards the whole buffer once and reports its length", where(wa.raw["sp"]), "write_str calls %d, Ok returns %s" % (len(ws), rets), fn=wa.path)
    # JsonVisitor::finish serialises every collected entry: the loop over `values` has no iteration that skips serialize_entry
    fin = F.impl_method("tracing_subscriber::field::VisitOutput<core::result::Result<(), core::fmt::Error>>", J + "JsonVisitor<", "finish") or \
        next((b for b in F.body_list if b.path.endswith(">::finish") and "json::JsonVisitor<" in b.path), None)
    if ck.anchor("C14.R1", "JsonVisitor::finish", fin):
        cl = [c for c in F.closures_of(fin) if any(t["callee"].get("method") == "serialize_entry" for bb, t in c.calls())]
        if len(cl) != 1:
            ck.bad("C14.R1", "finish: every collected field is serialised", where(fin.raw["sp"]), "expected one closure serialising the entries, found %d" % len(cl), fn=fin.path)
        else:
            n, probs = loop_body_always_calls(cl[0], lambda c: c[1].get("method") == "serialize_entry")
            if not n and not probs:
                # the loop written as `values.into_iter().try_for_each(|(k, v)| map.serialize_entry(k, &v))`: the per-item
                # closure serialises on every path, and the iterator it is driven by is the collection itself (no adaptor
                # that drops items in between)
                every = all(any(c[1].get("method") == "serialize_entry" for c in q.calls) for q in PathEval(cl[0]).run() if q.end == "return")
                driver_ok = False
                for x in [fin] + F.closures_of(fin):
                    for bb, t in x.calls():
                        if t["callee"].get("method") in ("try_for_each", "for_each") and len(t["argv"]) == 2:
                            recv = x.origin(t["argv"][0])
                            chain = []
                            while recv[0] == "call" and len(chain) < 6:
                                chain.append(recv[2]["callee"].get("method"))
                                recv = x.origin(recv[2]["argv"][0]) if recv[2]["argv"] else ("end",)
                            if chain and set(chain) <= {"into_iter", "iter", "iter_mut", "by_ref"}:
                                driver_ok = True
                if every and driver_ok:
                    n = 1
                else:
                    probs = ["the entries are serialised by a closure that %s" % ("skips some on a path" if not every else "is not driven by the collection's own iterator")]
            if n and not probs:
                ck.ok("C14.R1", "finish: every collected field is serialised (no entry is filtered out)", fn=cl[0].path)
            else:
                ck.bad("C14.R1", "finish: every collected field is serialised (no entry is filtered out)", where(cl[0].raw["sp"]),
                       "; ".join(probs) or "no loop over the collected values found", fn=cl[0].path)
    # tracing-serde visitors only use the serde API
    n = 0
    for i in F.impls:
        if i["crate"] != "tracing_serde" or i.get("trait") != "tracing_core::field::Visit":
            continue
        for m, path in i["methods"].items():
            b = F.body(path)
            sers = [t["callee"].get("method") for bb, t in b.calls() if t["callee"].get("trait", "").startswith("serde")]
            other = [t["callee"].get("method") for bb, t in b.calls() if t["callee"].get("method") in RAW]
            n += 1
            if other:
                ck.bad("C14.R1", "tracing-serde visitor writes raw text", where(b.raw["sp"]), "%s::%s uses %s" % (i["self_ty"], m, other), fn=path)
            # every visited value is handed to the serializer unless an earlier entry already failed: no value is filtered out
            for p in PathEval(b).run():
                if p.end != "return":
                    continue
                emitted = any(c[1].get("method") in ("serialize_entry", "serialize_field", "serialize_key", "serialize_value") for c in p.calls)
                failed_before = any(show(c[0]).startswith("is_ok(") and "state" in show(c[0]) and c[1] == 0 for c in p.conds) or \
                    any(show(c[0]).startswith("is_err(") and "state" in show(c[0]) and c[1] != 0 for c in p.conds)
                if not emitted and not failed_before:
                    conds = [(show(c[0])[:50], c[1]) for c in p.conds]
                    ck.bad("C14.R1", "%s::%s serialises every value it is given" % (i["self_ty"].split("<")[0].rsplit("::", 1)[-1], m), where(b.raw["sp"]),
                           "a path returns without serialising the value although no earlier entry failed (conditions %s): the field silently disappears from the record" % conds[-3:], fn=path)
    if n:
        ck.ok("C14.R1", "tracing-serde visitors (%d methods) emit values only through serde's serialize_* API" % n)
    # the JSON span-field visitor collects every value it is given (into the map that finish serialises)
    nj = 0
    for i in F.impls:
        if i.get("trait") != "tracing_core::field::Visit" or not i["self_ty"].startswith(J + "JsonVisitor"):
            continue
        for m, path in sorted(i["methods"].items()):
            b = F.body(path)
            if b is None:
                continue
            nj += 1
            for p in PathEval(b).run():
                if p.end != "return":
                    continue
                kept = any(c[1].get("method") == "insert" or (c[1].get("method") or "").startswith("record_") for c in p.calls)
                # by design: the bridge's own bookkeeping fields of a log record (`log.target`, `log.file`, ...) are metadata,
                # not data, and are skipped
                if not kept and any("starts_with(name(arg2), 'log.')" in show(c[0]) and c[1] != 0 for c in p.conds):
                    continue
                if not kept:
                    conds = [(show(c[0])[:50], c[1]) for c in p.conds]
                    ck.bad("C14.R1", "JsonVisitor::%s keeps every value it is given" % m, where(b.raw["sp"]),
                           "a path returns without inserting the value into the visitor's map (conditions %s)" % conds[-3:], fn=path)
    if nj:
        ck.ok("C14.R1", "JsonVisitor's %d record methods insert (or delegate) on every path" % nj)


def visitor_map_field(F):
    """name and type of the one map-typed field of JsonVisitor (whatever it is called), else (None, type list)"""
    adt = F.adts.get(J + "JsonVisitor")
    if not adt:
        return None, ""
    maps = [(f["name"], f["ty"]) for f in adt["variants"][0]["fields"] if "BTreeMap<" in f["ty"] or "HashMap<" in f["ty"] or "Map<" in f["ty"]]
    if len(maps) == 1:
        return maps[0]
    return None, ", ".join("%s: %s" % (f["name"], f["ty"][:40]) for f in adt["variants"][0]["fields"])


def r2(ck, F, rid="C14.R2"):
    VALUES = visitor_map_field(F)[0] or "values"
    b = F.impl_method("tracing_subscriber::fmt::format::FormatFields", J + "JsonFields", "add_fields")
    if not ck.anchor(rid, "JsonFields::add_fields", b):
        return
    parse = [(bb, t) for bb, t in b.calls() if t["callee"].get("path", "").startswith("serde_json::de::from_str")]
    recs = [(bb, t) for bb, t in b.calls() if t["callee"].get("method") == "record" and "Record" in t["callee"].get("path", "")]
    fin = [(bb, t) for bb, t in b.calls() if t["callee"].get("path", "").endswith("JsonVisitor::<'a>::finish")]
    ok = len(parse) == 1
    why = "expected one serde_json::from_str on the stored fields"
    if ok:
        pbb = parse[0][0]
        # the parsed map is assigned to v.values before fields.record(&mut v) on the merge path
        assigns = [(i, j, s) for i, j, s in b.stmts() if s["k"] == "assign" and any(isinstance(x, dict) and x.get("n") == VALUES for x in s["lhs"].get("p", []))]
        merge_recs = [r for r in recs if b.dominates(pbb, r[0])]
        # ... or inserted entry by entry: `for (k, v) in parsed { visitor.values.insert(k, v) }` / `.extend(parsed)`
        from rulekit.query import recv_fields
        fills = [bb for bb, t in b.calls() if t["callee"].get("method") in ("insert", "extend", "append") and VALUES in (recv_fields(b, t)[1] or [])]
        if not assigns and fills and merge_recs:
            if not all(b.dominates(pbb, f) and merge_recs[0][0] in b.reachable(f) for f in fills):
                ok, why = False, "the visitor is not seeded with the previously recorded fields before the new ones are recorded"
        elif not assigns or not merge_recs:
            ok, why = False, "the parsed object is not moved into the visitor's `values` map on the merge path"
        else:
            ai = assigns[0][0]
            src = b.origin(assigns[0][2]["rv"].get("use", {}))
            from_parse = src[0] == "call" and (src[1] == pbb or "branch" in str(src[2]["callee"].get("method")) or src[2]["callee"].get("method") in ("map_err", "branch"))
            if not (b.dominates(pbb, ai) and b.dominates(ai, merge_recs[0][0])):
                ok, why = False, "the visitor is not seeded with the previously recorded fields before the new ones are recorded"
    if ok:
        ck.ok(rid, "add_fields: stored object parsed and moved into the visitor before recording", fn=b.path)
    else:
        ck.bad(rid, "add_fields: stored object parsed and moved into the visitor before recording", where(b.raw["sp"]), why, fn=b.path)
    # current.fields replaced only after finish() succeeded
    repl = [(i, j, s) for i, j, s in b.stmts() if s["k"] == "assign" and not b.blocks[i].get("cleanup")
            and any(isinstance(x, dict) and x.get("n") == "fields" and "FormattedFields" in x.get("adt", "") for x in s["lhs"].get("p", []))]
    ok = len(repl) == 1
    if ok:
        g, _ = guards_of(b, repl[0][0])
        ok = any(t.startswith("discr(branch(finish(") and v == 0 for t, v in g)
    if ok:
        ck.ok(rid, "add_fields: the stored string is replaced only when re-serialisation succeeded", fn=b.path)
    else:
        ck.bad(rid, "add_fields: the stored string is replaced only when re-serialisation succeeded", where(b.raw["sp"]),
               "`current.fields = new` is not control-dependent on finish() returning Ok: a failed merge would lose or corrupt earlier fields", fn=b.path)
    # every re-parse of stored span fields uses owned keys: a field name that needs escaping cannot be deserialized into a
    # borrowed &str, so the parse (and with it the merge, or the span's fields in the output) would fail for such names
    nre = 0
    for x in F.body_list:
        if "fmt/format/json.rs" not in x.span:
            continue
        for bb, t in x.calls():
            c = t["callee"]
            if not c.get("path", "").startswith("serde_json::de::from_str"):
                continue
            nre += 1
            target = " ".join(c.get("targs", []))
            key = "%s: stored fields are re-parsed into a type with owned keys" % x.path[-60:]
            import re as _re
            if _re.search(r"Map<&('[a-z_]+ )?str\b", target):
                ck.bad(rid, key, where(t["sp"]), "serde_json::from_str::<%s>: borrowed &str keys cannot hold a field name that needs JSON escaping; the parse fails and "
                       "the fields recorded so far (or later) are lost" % target[:120], fn=x.path)
            else:
                ck.ok(rid, key, fn=x.path, detail=target[:100])
    if nre < 2:
        ck.bad(rid, "re-parse sites of stored span fields", J, "found %d serde_json::from_str sites in the JSON formatter (expected add_fields and SerializableSpan)" % nre)
    adt = F.adts.get(J + "JsonVisitor")
    if ck.anchor(rid, "JsonVisitor", adt):
        nm, ty = visitor_map_field(F)
        if nm:
            ck.ok(rid, "JsonVisitor collects fields in a map (unique keys)", detail="%s: %s" % (nm, ty[:80]))
        else:
            ck.bad(rid, "JsonVisitor collects fields in a map (unique keys)", adt["span"], "no single map-typed field (%s)" % ty)
    ss = F.impl_method("serde_core::ser::Serialize", J + "SerializableSpan<", "serialize") or F.impl_method("serde::ser::Serialize", J + "SerializableSpan<", "serialize")
    if ck.anchor(rid, "SerializableSpan::serialize", ss):
        names = [t["callee"].get("method") for bb, t in ss.calls()]
        has_parse = any(t["callee"].get("path", "").startswith("serde_json::de::from_str") for bb, t in ss.calls())
        ent = [bb for bb, t in ss.calls() if t["callee"].get("method") == "serialize_entry"]
        end = [bb for bb, t in ss.calls() if t["callee"].get("method") == "end" and t["callee"].get("trait", "").endswith("SerializeMap")]
        # every Ok path closes the map once; every path on which the span has stored fields re-parses them
        probs = []
        n_ok = 0
        for p in PathEval(ss).run():
            if p.end != "return":
                continue
            ms = [c[1].get("method") for c in p.calls]
            if "end" not in ms:
                continue            # an error return of `?`
            n_ok += 1
            if ms.count("end") != 1:
                probs.append("a path closes the map %d times" % ms.count("end"))
            absent = any(option_test(c)[1] is False and "get(" in show(c[0]) for c in p.conds)
            parsed = any((c[1].get("path") or "").startswith("serde_json::de::from_str") for c in p.calls)
            if not absent and not parsed:
                probs.append("a path with stored fields writes the span without re-parsing them")
            if "serialize_entry" not in ms:
                probs.append("a path writes no entry (not even the span's name)")
        if has_parse and ent and n_ok and not probs:
            ck.ok(rid, "span objects are re-parsed from the stored fields and emitted through serialize_entry", fn=ss.path)
        else:
            ck.bad(rid, "span objects are re-parsed from the stored fields and emitted through serialize_entry", where(ss.raw["sp"]), "; ".join(sorted(set(probs))) or "calls %s" % names[:12], fn=ss.path)
        # ... and a span this subscriber holds no stored fields for (created before the subscriber saw it: a reload swapped
        # the JSON subscriber in while the span was open) is written without them, as the text formatters do -- not a panic
        key = "a span without stored fields is written, not a panic"
        musts = [(bb, t) for bb, t in ss.calls() if t["callee"].get("method") in ("expect", "unwrap") and "Option" in str(t["callee"].get("path"))
                 and ss.origin(t["argv"][0])[0] == "call" and str(ss.origin(t["argv"][0])[2]["callee"].get("path", "")).endswith("Extensions::<'a>::get")]
        if musts:
            ck.bad(rid, key, where(musts[0][1]["sp"]), "SerializableSpan::serialize %ss the span's FormattedFields extension: every record emitted inside a span that was opened "
                   "before this subscriber was installed (reload, None -> Some) panics in the formatter and is lost" % musts[0][1]["callee"].get("method"), fn=ss.path)
        else:
            ck.ok(rid, key, fn=ss.path)


def r3(ck, F):
    sc = F.impl_method("serde_core::ser::Serialize", J + "SerializableContext<", "serialize") or F.impl_method("serde::ser::Serialize", J + "SerializableContext<", "serialize")
    if not ck.anchor("C14.R3", "SerializableContext::serialize", sc):
        return
    fr = [t for bb, t in sc.calls() if t["callee"].get("method") == "from_root"]
    scope = [t for bb, t in sc.calls() if t["callee"].get("method") == "scope"]
    rev = [t for bb, t in sc.calls() if t["callee"].get("method") == "rev"]
    if len(fr) == 1 and len(scope) == 1 and not rev:
        ck.ok("C14.R3", "span list iterates scope().from_root()", fn=sc.path)
    else:
        ck.bad("C14.R3", "span list iterates scope().from_root()", where(sc.raw["sp"]), "from_root %d, scope %d, rev %d" % (len(fr), len(scope), len(rev)), fn=sc.path)


def r4(ck, F):
    """`Span::record` may run on several threads for one span. The fmt subscriber keeps the span's formatted fields in its
    extensions; merging new values is read (stored text) - merge - store. It loses a concurrently recorded field unless
    the whole sequence happens under one acquisition of the extensions *write* lock."""
    b = F.impl_method("tracing_subscriber::subscribe::Subscribe", "tracing_subscriber::fmt::fmt_subscriber::Subscriber", "on_record")
    if not ck.anchor("C14.R4", "fmt Subscriber::on_record", b):
        return
    live = [(bb, t) for bb, t in b.calls() if not b.blocks[bb].get("cleanup")]
    locks = [(bb, t) for bb, t in live if t["callee"].get("path", "").startswith("tracing_subscriber::registry::SpanRef::") and t["callee"].get("method") in ("extensions", "extensions_mut")]
    key = "fmt Subscriber::on_record takes the span's extensions write lock once, for the whole update"
    if len(locks) == 1 and locks[0][1]["callee"]["method"] == "extensions_mut":
        ck.ok("C14.R4", key, fn=b.path)
    else:
        ck.bad("C14.R4", key, where(b.raw["sp"]), "lock acquisitions: %s -- with more than one (or a read lock first) two threads recording on the same span "
               "both merge into the same old text and the later store drops the other's field" % [t["callee"]["method"] for bb, t in locks], fn=b.path)
        return
    gbb = locks[0][0]

    def through_guard(op):
        o = b.origin(op)
        return o[0] == "call" and o[1] == gbb
    adds = [(bb, t) for bb, t in live if t["callee"].get("method") == "add_fields"]
    key = "fmt Subscriber::on_record merges into the stored fields in place, or stores the merge through the same guard"
    ok = bool(adds)
    why = "no add_fields call"
    for bb, t in adds:
        o = b.origin(t["argv"][1])
        inplace = o[0] == "call" and o[2]["callee"].get("method") in ("get_mut", "get_or_insert_with", "get_or_insert") and through_guard(o[2]["argv"][0])
        stored = any(u["callee"].get("method") in ("insert", "replace") and "ExtensionsMut" in u["callee"].get("path", "") and through_guard(u["argv"][0]) and b.dominates(bb, ub)
                     for ub, u in live)
        if not (inplace or stored):
            ok, why = False, "add_fields works on %s and its result is not stored through the write guard" % (str(o[2]["callee"].get("path")) if o[0] == "call" else o[0])
    if ok:
        ck.ok("C14.R4", key, fn=b.path)
    else:
        ck.bad("C14.R4", key, where(b.raw["sp"]), why, fn=b.path)


def r4b(ck, F):
    """Polarity of the two "is there something stored already" tests: fmt on_new_span formats and inserts the span's fields
    only when none are stored yet (a second insert of the same extension type panics; skipping the first loses the
    fields), and JsonFields::add_fields re-parses the stored text only when it is non-empty."""
    from rulekit.query import guards_of
    b = F.impl_method("tracing_subscriber::subscribe::Subscribe", "tracing_subscriber::fmt::fmt_subscriber::Subscriber", "on_new_span")
    if ck.anchor("C14.R4", "fmt Subscriber::on_new_span", b):
        key = "fmt on_new_span stores the formatted fields exactly when none are stored yet"
        ff = [bb for bb, t in b.calls() if t["callee"].get("method") == "format_fields"]
        ok = len(ff) == 1
        why = "%d format_fields calls" % len(ff)
        if ok:
            g, _ = guards_of(b, ff[0])
            absent = [v not in (0, False) for t, v in g if t.startswith("is_none(get_mut(")] + [v in (0, False) for t, v in g if t.startswith("is_some(get_mut(")]
            if not absent or not all(absent):
                ok, why = False, "format_fields runs under %s" % [(t[:40], v) for t, v in g]
        if ok:
            ck.ok("C14.R4", key, fn=b.path)
        else:
            ck.bad("C14.R4", key, where(b.raw["sp"]), why + ": the span's fields are formatted only when some are already stored (and then inserted twice) / never stored", fn=b.path)
    a = F.impl_method("tracing_subscriber::fmt::format::FormatFields", J + "JsonFields", "add_fields")
    if ck.anchor("C14.R4", "JsonFields::add_fields", a):
        key = "add_fields re-parses the stored text exactly when there is some"
        ps = [bb for bb, t in a.calls() if (t["callee"].get("path") or "").startswith("serde_json::de::from_str")]
        ok = len(ps) == 1
        why = "%d from_str calls" % len(ps)
        if ok:
            g, _ = guards_of(a, ps[0])
            emp = [v for t, v in g if t.startswith("is_empty(")]
            if not emp or any(v not in (0, False) for v in emp):
                ok, why = False, "from_str runs under %s" % [(t[:40], v) for t, v in g]
        if ok:
            ck.ok("C14.R4", key, fn=a.path)
        else:
            ck.bad("C14.R4", key, where(a.raw["sp"]), why + ": the merge path is taken for an empty store (parse error, fields lost) and skipped for a non-empty one (earlier fields overwritten)", fn=a.path)
        # ... and on either side the values being recorded are visited: every Ok return has passed `fields.record(&mut v)`
        key2 = "add_fields visits the recorded values on every successful path (empty store and merge alike)"
        bad = 0
        n = 0
        for pth in PathEval(a).run():
            if pth.end != "return" or not show(pth.ret).startswith("Result::Ok"):
                continue
            n += 1
            if not any(c[1].get("method") == "record" and "Record" in (c[1].get("path") or "") for c in pth.calls):
                bad += 1
        if n and not bad:
            ck.ok("C14.R4", key2, fn=a.path)
        else:
            ck.bad("C14.R4", key2, where(a.raw["sp"]), "%d of %d Ok paths return without visiting the new values: fields recorded after the span was created are lost" % (bad, n), fn=a.path)
    r = F.impl_method("tracing_subscriber::subscribe::Subscribe", "tracing_subscriber::fmt::fmt_subscriber::Subscriber", "on_record")
    if ck.anchor("C14.R4", "fmt Subscriber::on_record", r):
        # a span created without fields has nothing stored: the first record must then *store* what it formatted
        key3 = "fmt on_record stores the formatted values when the span had none stored"
        ins = [bb for bb, t in r.calls() if t["callee"].get("method") == "insert" and "Extensions" in (t["callee"].get("path") or "")]
        ff = [bb for bb, t in r.calls() if t["callee"].get("method") == "format_fields"]
        ok = bool(ff) and bool(ins) and all(any(i in r.reachable(f) for i in ins) for f in ff)
        if ok:
            # on the path where formatting succeeded the insert is reached
            for pth in PathEval(r).run():
                if pth.end != "return" or not any(c[1].get("method") == "format_fields" for c in pth.calls):
                    continue
                okf = [c[1] for c in pth.conds if show(c[0]).startswith("is_ok(format_fields(")] + [0 if c[1] else 1 for c in pth.conds if show(c[0]).startswith("is_err(format_fields(")]
                stored = any(c[1].get("method") == "insert" and "Extensions" in (c[1].get("path") or "") for c in pth.calls)
                if (not okf or okf[-1] != 0) and not stored:
                    ok = False
        if ok:
            ck.ok("C14.R4", key3, fn=r.path)
        else:
            ck.bad("C14.R4", key3, where(r.raw["sp"]), "values recorded on a span that was created without fields are formatted and then dropped: no later record of the span shows them", fn=r.path)


def r10_siblings(ck, F):
    """One line carries a span's fields (collected by JsonVisitor at creation / record time) and the event's own fields
    (serialised by tracing-serde's SerdeMapVisitor, or SerdeStructVisitor). A value kind that neither side handles goes
    through Visit's provided method -- the same text on both sides. A kind that only the event side overrides (say
    record_error, to append the source chain) makes the same error read differently as `fields.err` and `span.err`."""
    vis = {}
    for i in F.impls:
        if i.get("trait") == "tracing_core::field::Visit":
            for nm in ("JsonVisitor", "SerdeMapVisitor", "SerdeStructVisitor"):
                if nm in i["self_ty"]:
                    vis[nm] = set(i["methods"])
    if not ck.anchor("C14.R10", "JsonVisitor / SerdeMapVisitor Visit impls", vis.get("JsonVisitor") and vis.get("SerdeMapVisitor")):
        return
    for nm in ("SerdeMapVisitor", "SerdeStructVisitor"):
        if nm not in vis:
            continue
        extra = sorted(vis[nm] - vis["JsonVisitor"])
        key = "%s overrides only value kinds JsonVisitor handles too" % nm
        if extra:
            ck.bad("C14.R10", key, "tracing-serde/src/lib.rs", "%s overrides %s, which the span-field visitor leaves to the provided default: the same value is rendered differently in "
                   "the event's fields and in the `span` / `spans` entries of one line" % (nm, extra))
        else:
            ck.ok("C14.R10", key, detail=sorted(vis[nm]))
