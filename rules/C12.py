"""C12 — after a reload returns, every thread filters with the new value.

R1 must-pass-through in Handle::modify: upgrade -> write lock -> closure -> guard dropped -> rebuild_interest_cache -> Ok
R2 gone collector / poisoned lock => error, closure not run
R3 no stale copy: every trait method of reload::Subscriber takes the read lock in that call; degraded answers on poison
R4 (via C01.R5/R7) the rebuild re-evaluates every callsite and the max level
"""
from rulekit.query import rebuild_interest_path
from rulekit import Facts, where
from rulekit.sym import PathEval, show

RL = "tracing_subscriber::reload::"
REBUILD = {"tracing_core::callsite::inner::rebuild_interest_cache", "tracing_core::callsite::rebuild_interest_cache"}
SUBSCRIBE = "tracing_subscriber::subscribe::Subscribe"
FILTER = "tracing_subscriber::subscribe::Filter"


def run(ck):
    configs = ["default"] + (["parking_lot"] if ck.tier == "thorough" else [])
    ck.explanation = (
        "Must-pass-through rules over the MIR of reload::Handle::modify (all paths): a path returns Ok only after the weak "
        "handle upgraded, the write lock was taken, the user closure ran, the write guard was dropped and "
        "callsite::rebuild_interest_cache() was called, in that order (the guard must be released first or the rebuild's "
        "register_callsite would self-deadlock on the lock); a dead collector or poisoned lock returns Err without running "
        "the closure; every Subscribe/Filter method of reload::Subscriber takes the read lock within the call (no cached "
        "copy of the inner value exists in the struct); and, by C01.R5/R7, the rebuild re-evaluates every registered "
        "callsite and recomputes MAX_LEVEL. Atomicity of one emission w.r.t. a concurrent reload is not decided.")
    ck.assumptions += ["std::sync::RwLock / parking_lot semantics", "C01.R5 and C01.R7 hold (checked by the C01 check)"]
    ck.rule("C12.R1", "modify: Ok only after lock, closure, guard drop, then rebuild_interest_cache", floor=2)
    ck.rule("C12.R2", "collector gone / lock poisoned => Err and the closure is not run", floor=1)
    ck.rule("C12.R3", "reload::Subscriber methods lock per call; no field caches the inner value", floor=20)
    ck.rule("C12.R4", "the rebuild covers every callsite and the max level", floor=2)
    ck.rule("C12.R9", "concurrent reloads cannot leave log's max level stale: read-and-publish is serialised", floor=1)
    ck.rule("C12.R10", "what a reload replaces holds no per-span state of its own: a value swapped in judges spans that were opened before the reload", floor=5)
    ck.rule("C12.R11", "an EnvFilter edited in place is re-read by the rebuild: register_callsite refreshes the per-callsite span matcher on every registration (as C08.R11)", floor=1)
    ck.rule("C12.R12", "a callsite first hit while a reload is in progress ends up judged by the new value: only the thread that won the registration CAS registers, others answer `sometimes` (as C04.R4), and the cached interest is written only through set_interest (as C01.R7)", floor=5)
    ck.rule("C12.R16", "an EnvFilter edited in place through the handle takes effect: adding the first span-scoped directive switches the span-directive path on "
            "(has_dynamics set on every path that adds to `dynamics`; as C11.R14)", floor=1)
    ck.rule("C12.R15", "after a reload the stack combines interests and hints according to what the slot holds *now*: whether a position carries a per-subscriber "
            "filter is asked of the live value, not remembered from construction", floor=1)
    ck.rule("C12.R14", "what the reloaded filter answers the rebuild is not lost when per-subscriber filters' interests are combined: differing answers accumulate to "
            "`sometimes`, whichever came first (as C08.R3)", floor=1)
    ck.rule("C12.R13", "the questions the rebuild asks reach the reloadable layer: every wrapper on the way (Layered, Box, Arc, Option, Vec, Filtered) forwards register_callsite / enabled / max_level_hint (as C09.R1/R2)", floor=20)
    ck.rule("C12.R8", "a filter edited in place by modify keeps its cached max level an upper bound (DirectiveSet::add, as C08.R4): the rebuild publishes that hint", floor=1)
    ck.rule("C12.R7", "what a reload swaps in is what the stack consults: Layered re-derives a None layer's hint from the live value (as C08.R7)", floor=1)
    ck.rule("C12.R6", "the rebuild reaches every registered callsite: the lock-free list never loses a node (as C04.R3)", floor=5)
    ck.rule("C12.R5", "a first-hit registration is serialised with the rebuild (registry critical sections, as C04.R1)", floor=3)
    for cfg in configs:
        F = Facts(cfg)
        ck.configs.append(cfg)
        ck.tag = "" if cfg == "default" else "[%s]" % cfg
        r1_r2(ck, F)
        r3(ck, F)
        if cfg == "default":
            r4(ck, F)
            # ... in detail: every live dispatcher stays on the list and is asked again, whatever it answered last time
            from rules import C01
            C01.r5(ck, F, rid="C12.R4")
            # a callsite registering concurrently must either be on the list the rebuild walks or compute its interest
            # after the reload: both follow from `register` holding the dispatchers lock across interest + push
            from rules import C04
            C04.r1(ck, F, rid="C12.R5")
            # ... and the rebuild only reaches callsites that are still on the registry list (C04.R3's push/walk rule)
            C04.r3(ck, F, rid="C12.R6")
            C04.r4(ck, F, rid="C12.R12")
            from rules import C09 as _C09
            _C09.wrapper_rules(ck, F, rids={"R0": "C12.R13", "R1": "C12.R13", "R2": "C12.R13", "R3": "C12.R13"},
                               only={"register_callsite", "enabled", "event_enabled", "max_level_hint", "callsite_enabled"})
            from rules import C01 as _C01
            _C01.r7(ck, F, rid="C12.R12")
            # the new value must also be the one judged *above* the reload layer: Layered may not answer from a
            # construction-time snapshot of the layer it wraps (Some -> None reloads)
            from rules import C08
            C08.r7(ck, F, rid="C12.R7")
            C08.directive_add_rule(ck, Facts("release"), rid="C12.R8")
            r10(ck, F)
            C08.envfilter_matcher_refresh(ck, F, rid="C12.R11")
            # the new value's answer to the rebuild must survive being combined with its neighbours' answers
            C08.r3(ck, F, rid="C12.R14")
            psf_snapshot(ck, F)
            from rules import C11 as _C11
            _C11.has_dynamics_rule(ck, Facts("release"), rid="C12.R16")
    ck.tag = ""


def psf_snapshot(ck, F, rid="C12.R15"):
    """Layered::new computes has_subscriber_filter / inner_has_subscriber_filter once. pick_interest and pick_level_hint
    branch on those fields, so a reload::Subscriber<Box<dyn Subscribe>> (or Vec / Option of them) that is reloaded from a
    filtered value to an unfiltered one -- or to a global filter -- is still combined as `per-subscriber filtered`: the new
    value's own interest and hint are discarded."""
    L = "tracing_subscriber::subscribe::layered::Layered::<A, B, C>::"
    stale = []
    for m in ("pick_interest", "pick_level_hint"):
        b = F.body(L + m)
        if not ck.anchor(rid, "Layered::" + m, b):
            continue
        conds = {show(c[0]) for p in PathEval(b).run() for c in p.conds}
        flags = sorted(c for c in conds if c in ("arg1.has_subscriber_filter", "arg1.inner_has_subscriber_filter"))
        fresh = any(c.startswith("subscriber_has_psf(") for c in conds)
        if flags and not fresh:
            stale.append("%s branches on %s" % (m, ", ".join(f.split(".")[-1] for f in flags)))
    key = "Layered asks the live subscribers whether they are per-subscriber filtered"
    if stale:
        ck.bad(rid, key, "tracing-subscriber/src/subscribe/layered.rs", "; ".join(stale) + ": flags computed in Layered::new; a reload that changes the filtered/unfiltered "
               "shape of the slot is combined by the old shape -- the new unfiltered layer only ever sees what the old filter let through, a new global filter is never asked")
    else:
        ck.ok(rid, key)


def r1_r2(ck, F):
    b = F.body(RL + "Handle::<T>::modify")
    if not ck.anchor("C12.R1", "Handle::modify", b):
        return
    ok_paths = 0
    bad = []
    err_ok = True
    err_seen = set()
    for p in PathEval(b).run():
        if p.end != "return" or p.ret is None:
            continue
        is_ok = p.ret[0] == "agg" and p.ret[2] == "Ok"
        seq = []
        for c in p.calls:
            m = c[1].get("method")
            path = c[1].get("path", "")
            if m == "upgrade":
                seq.append("upgrade")
            elif m == "write" and ("RwLock" in path):
                seq.append("write")
            elif m == "call_once":
                seq.append("closure")
            elif path == "<drop>" and "RwLockWriteGuard" in str(c[1].get("drop_ty")):
                seq.append("unlock")
            elif path in REBUILD:
                seq.append("rebuild")
            elif path == "core::mem::drop" and "RwLockWriteGuard" in " ".join(c[1].get("targs", [])):
                seq.append("unlock")
        core = [x for x in seq if x in ("upgrade", "write", "closure", "unlock", "rebuild")]
        if is_ok:
            ok_paths += 1
            want = ["upgrade", "write", "closure", "unlock", "rebuild"]
            # tolerate a second (no-op) drop of the moved-out guard slot
            dedup = [x for i, x in enumerate(core) if not (x == "unlock" and "unlock" in core[:i])]
            if dedup != want:
                bad.append("an Ok path performs %s; required order %s" % (core, want))
        else:
            txt = show(p.ret)
            if "closure" in core or "rebuild" in core:
                err_ok = False
                bad.append("an error path runs the closure or the rebuild: %s -> %s" % (core, txt))
            if "CollectorGone" in txt or "from_residual" in txt:
                err_seen.add("gone")
            if "poisoned" in txt:
                err_seen.add("poisoned")
    if ok_paths and not [x for x in bad if x.startswith("an Ok")]:
        ck.ok("C12.R1", "modify: upgrade, write lock, closure, unlock, rebuild_interest_cache, Ok", fn=b.path, detail="%d Ok path(s)" % ok_paths)
    else:
        ck.bad("C12.R1", "modify: upgrade, write lock, closure, unlock, rebuild_interest_cache, Ok", where(b.raw["sp"]),
               "; ".join(bad) or "no path returns Ok", fn=b.path)
    # with the tracing-log bridge compiled in, `log`'s own max level is one more cached maximum in front of the new
    # filter (for records that arrive through LogTracer): every Ok path republishes it after the rebuild, unconditionally
    # (Dispatch::new elsewhere moves tracing's max level without touching log's, so "unchanged" proves nothing)
    sets = [bb for bb, t in b.calls() if t["callee"].get("path") == "log::set_max_level"]
    if sets:
        rebuilds = [bb for bb, t in b.calls() if t["callee"].get("path") in REBUILD]
        good = len(sets) == 1 and len(rebuilds) == 1 and b.dominates(rebuilds[0], sets[0])
        if good:
            for p in PathEval(b).run():
                if p.end == "return" and rebuilds[0] in p.blocks and sets[0] not in p.blocks:
                    good = False
        key = "modify: the log crate's max level is republished after every successful reload [%s]" % (ck.tag or "default")
        if good:
            ck.ok("C12.R1", key, fn=b.path)
        else:
            ck.bad("C12.R1", key, where(b.raw["sp"]), "log::set_max_level is skipped on some path that rebuilt the interest cache: log records the new filter "
                   "enables stay suppressed by a stale log::max_level()", fn=b.path)
    if sets:
        # read-current-then-publish is one step w.r.t. other reloads: on every path, at the call that reads
        # LevelFilter::current() for the publish and at the publish itself a guard of one process-wide (static) mutex is
        # held. Otherwise reload A may read the old maximum, reload B finish entirely, and A publish the old maximum last.
        key = "modify: reading tracing's max level and publishing it to log happen under one static lock [%s]" % (ck.tag or "default")
        why = []
        n = 0
        for p in PathEval(b).run():
            if p.end != "return" or sets[0] not in p.blocks:
                continue
            n += 1
            held = None          # value of the live guard
            read_under = pub_under = False
            for c in p.calls:
                path = c[1].get("path", "")
                args = [show(a) for a in c[2]] if len(c) > 2 else []
                if c[1].get("method") == "lock" and "Mutex" in path and args and __import__("re").match(r"^[A-Za-z_][\w:<>{}#, ]*::[A-Z_0-9]+$", args[0]):    # a static
                    held = "lock(%s" % args[0][:40]
                elif path == "<drop>" and "MutexGuard" in str(c[1].get("drop_ty")):
                    held = None
                elif path == "core::mem::drop" and "MutexGuard" in " ".join(c[1].get("targs", [])):
                    held = None
                elif path.endswith("LevelFilter::current"):
                    read_under = held is not None
                elif path == "log::set_max_level":
                    pub_under = held is not None and read_under
            if not pub_under:
                why.append("a path publishes log's max level %s" % ("without holding a static mutex" if not held and not read_under else "from a value read outside the lock"))
        if n and not why:
            ck.ok("C12.R9", key, fn=b.path, detail="%d path(s)" % n)
        else:
            ck.bad("C12.R9", key, where(b.raw["sp"]), "; ".join(sorted(set(why))) or "no publishing path", fn=b.path)
    if err_ok and err_seen == {"gone", "poisoned"}:
        ck.ok("C12.R2", "modify: dead collector -> CollectorGone, poisoned lock -> Poisoned, closure not run", fn=b.path)
    else:
        ck.bad("C12.R2", "modify: dead collector -> CollectorGone, poisoned lock -> Poisoned, closure not run", where(b.raw["sp"]),
               "error paths seen: %s; %s" % (sorted(err_seen), "; ".join(x for x in bad if x.startswith("an error"))), fn=b.path)
    rl = F.body(RL + "Handle::<T>::reload")
    if ck.anchor("C12.R1", "Handle::reload", rl):
        ps = [p for p in PathEval(rl).run() if p.end == "return"]
        ok = len(ps) == 1 and ps[0].ret[0] == "call" and ps[0].ret[1] == RL + "Handle::<T>::modify"
        cl = F.body(RL + "Handle::<T>::reload::{closure#0}")
        assigns = False
        if cl:
            for i, j, s in cl.stmts():
                if s["k"] == "assign" and s["lhs"].get("p") == ["*"] and s["lhs"]["l"] == 2:
                    assigns = True
            # the same store spelled core::mem::replace(v, new) / core::mem::swap(v, &mut new)
            for bb, t in cl.calls():
                if t["callee"].get("path") in ("core::mem::replace", "core::mem::swap", "core::mem::take") and t["argv"]:
                    o = cl.origin(t["argv"][0])
                    if o[0] == "arg" and o[1] == 2:
                        assigns = True
        if ok and assigns:
            ck.ok("C12.R1", "reload == modify(|v| *v = new)", fn=rl.path)
        else:
            ck.bad("C12.R1", "reload == modify(|v| *v = new)", where(rl.raw["sp"]), "reload does not go through modify with an assignment to the locked value")


def r3(ck, F, rid="C12.R3"):
    adt = F.adts.get(RL + "Subscriber")
    if ck.anchor(rid, "reload::Subscriber", adt):
        fields = [(f["name"], f["ty"]) for f in adt["variants"][0]["fields"]]
        if len(fields) == 1 and "RwLock<" in fields[0][1] and fields[0][1].startswith(("alloc::sync::Arc<", "std::sync::Arc<")):
            ck.ok(rid, "reload::Subscriber holds only Arc<RwLock<T>>", detail=fields)
        else:
            ck.bad(rid, "reload::Subscriber holds only Arc<RwLock<T>>", adt["span"], "fields %s: a cached copy of the inner value could go stale" % fields)
    degraded = {"register_callsite": "sometimes()", "callsite_enabled": "sometimes()", "max_level_hint": "Option::None{}"}
    for tr in (SUBSCRIBE, FILTER):
        for imp in [i for i in F.impls if i.get("trait") == tr and i["self_ty"].startswith(RL + "Subscriber<")]:
            for m, path in sorted(imp["methods"].items()):
                if m == "downcast_raw":
                    continue
                b = F.body(path)
                key = "%s::%s" % (tr.rsplit("::", 1)[1], m)
                locks = [bb for bb, t in b.calls() if t["callee"].get("method") in ("read", "write") and "RwLock" in t["callee"].get("path", "")]
                fwd = [bb for bb, t in b.calls() if t["callee"].get("trait") == tr and t["callee"].get("method") == m]
                problems = []
                if len(locks) != 1 or len(fwd) != 1 or not b.dominates(locks[0], fwd[0]):
                    problems.append("expected one lock acquisition dominating one forwarded call (locks %d, forwards %d)" % (len(locks), len(fwd)))
                if m in degraded:
                    for p in PathEval(b).run():
                        if p.end != "return" or fwd and fwd[0] in p.blocks:
                            continue
                        if show(p.ret) != degraded[m]:
                            problems.append("on a poisoned lock returns %s, expected %s (never a definitive answer)" % (show(p.ret), degraded[m]))
                if problems:
                    ck.bad(rid, key, where(b.raw["sp"]), "; ".join(problems), fn=path)
                else:
                    ck.ok(rid, key, fn=path)


def r4(ck, F):
    ric = F.body("tracing_core::callsite::inner::rebuild_interest_cache")
    if ck.anchor("C12.R4", "rebuild_interest_cache", ric):
        rb = [bb for bb, t in ric.calls() if t["callee"].get("path") == rebuild_interest_path(F)]
        if len(rb) == 1 and ric.postdominates(rb[0], 0):
            ck.ok("C12.R4", "rebuild_interest_cache runs rebuild_interest on every path", fn=ric.path)
        else:
            ck.bad("C12.R4", "rebuild_interest_cache runs rebuild_interest on every path", where(ric.raw["sp"]), "rebuild_interest not on every path")
    ri = F.body(rebuild_interest_path(F))
    if ck.anchor("C12.R4", "rebuild_interest", ri):
        names = [t["callee"].get("method") for bb, t in ri.calls()]
        if "for_each" in names and "set_max" in names:
            ck.ok("C12.R4", "rebuild_interest re-evaluates all callsites and sets the max level (details under C01.R5)", fn=ri.path)
        else:
            ck.bad("C12.R4", "rebuild_interest re-evaluates all callsites and sets the max level", where(ri.raw["sp"]), "calls: %s" % names)


def r10(ck, F):
    """Handle::reload replaces the whole value. Whatever the old value had learnt about spans that are still open is
    gone unless it lives outside the value (the registry's per-span extensions) or is re-derived by the rebuild (tables
    keyed by callsite: the rebuild calls register_callsite again). A table keyed by span id is neither: the new value
    has never seen on_new_span for those ids, so an event inside such a span is judged as if the span did not match."""
    seen = set()
    for im in F.impls:
        tr = im.get("trait") or ""
        if not (tr.startswith(SUBSCRIBE) or tr.startswith(FILTER)):
            continue
        sh = im.get("self_shape") or {}
        adt = sh.get("adt")
        if sh.get("ctor") != "adt" or not adt or not adt.startswith("tracing_subscriber::") or adt in seen:
            continue
        seen.add(adt)
        a = F.adts.get(adt)
        if not a:
            continue
        hits = []
        for v in a["variants"]:
            for f in v["fields"]:
                if "Map<tracing_core::span::Id" in f["ty"] or "Set<tracing_core::span::Id" in f["ty"]:
                    hits.append(f["name"])
        short = adt.split("::")[-1]
        if hits:
            for h in hits:
                ck.bad("C12.R10", "%s.%s: a table keyed by span id lives in the value a reload replaces" % (short, h), a["span"],
                       "after Handle::reload the new %s has no entry for spans opened earlier: events inside them are judged "
                       "without their span directives until the span is re-created" % short)
        else:
            ck.ok("C12.R10", "%s keeps no table keyed by span id" % short, fn=adt)
