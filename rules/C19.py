"""C19 — levels and level filters form one consistent total order; text round-trips.

The space is finite (5 levels, 6 filters). Every comparison body, conversion table and text table is
extracted from MIR as a decision table / normal form and compared with the oracle order
OFF < ERROR < WARN < INFO < DEBUG < TRACE.
"""
from rulekit import Facts, where
from rulekit.sym import PathEval, show

M = "tracing_core::metadata::"
LV = M + "Level"
LF = M + "LevelFilter"
NAMES = ["TRACE", "DEBUG", "INFO", "WARN", "ERROR"]           # most verbose first
VERBOSITY = {"OFF": 0, "ERROR": 1, "WARN": 2, "INFO": 3, "DEBUG": 4, "TRACE": 5}

# functions whose Level x LevelFilter comparisons are enable tests (census, R4)
ENABLE_TEST_SITES = [
    "tracing_subscriber::filter::filter_fn::FilterFn::<F>::is_below_max_level::{closure#0}",
    "tracing_subscriber::filter::filter_fn::is_below_max_level::{closure#0}",
    "tracing_subscriber::filter::level::<impl tracing_subscriber::subscribe::Subscribe<C> for tracing_core::metadata::LevelFilter>::register_callsite",
    "tracing_subscriber::filter::level::<impl tracing_subscriber::subscribe::Subscribe<C> for tracing_core::metadata::LevelFilter>::enabled",
    "tracing_subscriber::filter::subscriber_filters::<impl tracing_subscriber::subscribe::Filter<C> for tracing_core::metadata::LevelFilter>::enabled",
    "tracing_subscriber::filter::subscriber_filters::<impl tracing_subscriber::subscribe::Filter<C> for tracing_core::metadata::LevelFilter>::callsite_enabled",
    "tracing_subscriber::filter::env::EnvFilter::enabled",
    "tracing_subscriber::filter::directive::DirectiveSet::<tracing_subscriber::filter::directive::StaticDirective>::enabled",
    "tracing_subscriber::filter::directive::DirectiveSet::<tracing_subscriber::filter::directive::StaticDirective>::target_enabled",
    "<tracing_log::log_tracer::LogTracer as log::Log>::enabled",
]
# (self type, other type, method) of `level OP filter` that mean "enabled" (or its exact negation)
ALLOWED_MIXED = {(LV, LF, "le"), (LV, LF, "gt"), (LF, LV, "ge"), (LF, LV, "lt")}


RID = {"R1": "C19.R1", "R2": "C19.R2", "R4": "C19.R4"}


def order_rules(ck, F, rid):
    """R1 (encoding), R2 (all comparison bodies) and R4 (set_max/current inverse, enable tests mean level <= filter) under
    another property's rule id: every fast-path test `level <= max level` in the macros, the filters and the bridge is
    one of these comparisons."""
    global RID
    saved = RID
    RID = {"R1": rid, "R2": rid, "R4": rid}
    try:
        enc = r1_encoding(ck, F, "")
        r2_operators(ck, F, "")
        r4_published(ck, F, "", enc, census=True)
    finally:
        RID = saved


def run(ck):
    configs = ["default"] + (["nostd-core", "release"] if ck.tier == "thorough" else [])
    ck.explanation = (
        "Finite-domain table extraction from MIR: (R1) the integer encoding of levels/filters, (R2) all 24 "
        "comparison bodies normalised to op(enc(other), enc(self)) with the method's own operator, (R3) "
        "Display/as_str and FromStr tables are mutually inverse and accept nothing else, (R4) set_max/current "
        "are inverse and every Level x LevelFilter comparison at the enable-test sites means level <= filter. "
        "Together with R1 the normal forms fix the result of every operator on all 11x11 pairs, so the space "
        "is covered completely without evaluating anything.")
    ck.assumptions += ["core's integer comparison operators and usize::cmp are correct",
                       "derived PartialEq/Eq/Hash on Level/LevelFilter compare the representation (injective encoding)"]
    ck.rule("C19.R1", "integer encoding of levels/filters is strictly monotone; named consts match", floor=20)
    ck.rule("C19.R2", "comparison body == op(enc(other), enc(self)) for its own operator", floor=24)
    ck.rule("C19.R3", "Display/as_str and FromStr tables inverse; nothing else accepted", floor=30)
    ck.rule("C19.R5", "a LevelFilter used as a layer / per-layer filter enables `level <= self` and publishes itself as the max-level hint, OFF included (as C08.R4)", floor=4)
    ck.rule("C19.R6", "the digits mean one thing: #[instrument(level = <digit>)] produces the level that digit parses to", floor=1)
    ck.rule("C19.R7", "the published maximum is the collector's own hint whatever it is wrapped in: Box / Arc / Layered / ... forward max_level_hint and register_callsite (as C09.R1/R2)", floor=8)
    ck.rule("C19.R4", "set_max/current inverse; enable tests are level <= filter", floor=20)
    for cfg in configs:
        F = Facts(cfg)
        ck.configs.append(cfg)
        tag = "" if cfg == "default" else "[%s]" % cfg
        ck.tag = tag
        enc = r1_encoding(ck, F, tag)
        r2_operators(ck, F, tag)
        r3_text(ck, F, tag, enc)
        r4_published(ck, F, tag, enc, census=(cfg == "default"))
        if cfg == "default":
            from rules import C08
            C08.levelfilter_rule(ck, F, rid="C19.R5")
            r6_attribute_digits(ck)
            # "reads back as exactly the value that was set" also after the next re-evaluation: the rebuild asks every live
            # collector for its hint again (C01.R5, instantiated) -- none is dropped for what it said before
            from rules import C01
            C01.r5(ck, F, rid="C19.R4")
            C01.rebuild_unconditional(ck, rid="C19.R4")      # ... and publishes what it computed on every path, std and no_std
            C01.r6(ck, F, rid="C19.R4")                      # ... for every Dispatch there is
            from rules import C09 as _C09
            _C09.wrapper_rules(ck, F, rids={"R0": "C19.R7", "R1": "C19.R7", "R2": "C19.R7", "R3": "C19.R7"}, only={"max_level_hint"})
            _C09.dispatch_forwarding(ck, F, rid="C19.R7", only={"max_level_hint"})


# ------------------------------------------------------------------ R1
def r1_encoding(ck, F, tag):
    inner = F.adts.get(M + "LevelInner")
    if not ck.anchor(RID["R1"], "LevelInner", inner):
        return {}
    enc = {v["name"].upper(): v["discr"] for v in inner["variants"]}
    off = F.consts.get(LF + "::OFF_USIZE")
    if not ck.anchor(RID["R1"], "OFF_USIZE", off):
        return enc
    enc["OFF"] = off["val"]["int"]
    order = ["TRACE", "DEBUG", "INFO", "WARN", "ERROR", "OFF"]
    if set(enc) != set(order):
        ck.bad(RID["R1"], "variants", inner["span"], "LevelInner variants are %s, expected the five levels" % sorted(enc))
        return enc
    for a, b in zip(order, order[1:]):
        k = "enc(%s)<enc(%s)" % (a, b)
        if enc[a] < enc[b]:
            ck.ok(RID["R1"], k, detail="%d < %d" % (enc[a], enc[b]))
        else:
            ck.bad(RID["R1"], k, inner["span"], "encoding not strictly increasing from TRACE to OFF: %s=%d, %s=%d"
                   % (a, enc[a], b, enc[b]))
    # named constants
    for n in NAMES:
        c = F.consts.get("%s::%s" % (LV, n))
        u = F.consts.get("%s::%s_USIZE" % (LF, n))
        f = F.consts.get("%s::%s" % (LF, n))
        for what, cc in (("Level::" + n, c), ("LevelFilter::%s_USIZE" % n, u), ("LevelFilter::" + n, f)):
            if not ck.anchor(RID["R1"], what, cc):
                continue
            v = cc.get("val", {}).get("int")
            if v == enc[n]:
                ck.ok(RID["R1"], what, detail="= %d" % v)
            else:
                ck.bad(RID["R1"], what, cc["path"], "constant evaluates to %r, expected enc(%s)=%d" % (v, n, enc[n]))
    offc = F.consts.get(LF + "::OFF")
    if ck.anchor(RID["R1"], "LevelFilter::OFF", offc):
        v = offc.get("val", {}).get("int")
        if isinstance(v, str):
            v = int(v)
        if v is not None and v not in [enc[n] for n in NAMES]:
            ck.ok(RID["R1"], "LevelFilter::OFF distinct", detail="repr %s is none of the level encodings" % v)
        else:
            ck.bad(RID["R1"], "LevelFilter::OFF distinct", offc["path"], "OFF evaluates to %r" % (v,))
    # filter_as_usize table
    b = F.body(M + "filter_as_usize")
    if ck.anchor(RID["R1"], "filter_as_usize", b):
        rows = {}
        for p in PathEval(b).run():
            if p.end != "return":
                continue
            d = [c for c in p.conds if c[0] == ("discr", ("arg", 1))]
            if len(d) == 1:
                rows[d[0][1]] = p.ret
        ok = (rows.get(0) is not None and rows[0][0] == "const" and rows[0][2] == enc["OFF"]
              and is_level_enc(rows.get(1), ("field", ("downcast", ("arg", 1), "Some"), "0")))
        if ok:
            ck.ok(RID["R1"], "filter_as_usize table", fn=b.path,
                  detail={"None": show(rows[0]), "Some(l)": show(rows[1])})
        else:
            ck.bad(RID["R1"], "filter_as_usize table", where(b.raw["sp"]),
                   "expected None -> OFF_USIZE, Some(l) -> l as usize; got %s" % {k: show(v) for k, v in rows.items()})
    return enc


def is_level_enc(t, base):
    """t == (discr(base.0) as usize) where base is a Level-valued term"""
    return (t is not None and t[0] == "cast" and t[1] == "IntToInt" and t[2][0] == "discr"
            and t[2][1] == ("field", base, "0"))


def side(t):
    """Normalise an encoded operand: ('L', k) = enc of Level arg k, ('F', k) = enc of LevelFilter arg k."""
    if t is None:
        return None
    for k in (1, 2):
        if is_level_enc(t, ("arg", k)):
            return ("L", k)
        if t[0] == "call" and t[1] == M + "filter_as_usize" and t[2] == (("field", ("arg", k), "0"),):
            return ("F", k)
    return None


CMP_OPS = {"lt": "Lt", "le": "Le", "gt": "Gt", "ge": "Ge"}
MIRROR = {"Lt": "Gt", "Gt": "Lt", "Le": "Ge", "Ge": "Le"}
NEGATE = {"Lt": "Ge", "Ge": "Lt", "Gt": "Le", "Le": "Gt"}


def norm_cmp(t):
    """-> (op, lhs_side, rhs_side) with lhs = enc(arg2) if possible, or None"""
    if t is None:
        return None
    neg = False
    while t[0] == "un" and t[1] == "Not":
        neg = not neg
        t = t[2]
    if t[0] != "bin" or t[1] not in MIRROR and t[1] != "Eq":
        return None
    op, a, b = t[1], side(t[2]), side(t[3])
    if a is None or b is None:
        return None
    if neg:
        if op == "Eq":
            return None
        op = NEGATE[op]
    if a[1] == 1 and b[1] == 2:      # bring to (other, self) orientation
        a, b = b, a
        op = MIRROR.get(op, op)
    return (op, a, b)


def r2_operators(ck, F, tag):
    impls = []
    for A in (LV, LF):
        for B in (LV, LF):
            impls.append((A, B))
    kind = {LV: "L", LF: "F"}

    def body_of(A, B, trait, m):
        if A == B:
            p = "<%s as core::cmp::%s>::%s" % (A, trait, m)
        else:
            p = "<%s as core::cmp::%s<%s>>::%s" % (A, trait, B, m)
        return p, F.body(p)

    def ret_of(b):
        ps = [p for p in PathEval(b).run() if p.end == "return"]
        return ps[0].ret if len(ps) == 1 else None

    def is_cmp_call(t, A, B):
        # usize::cmp(enc(arg2), enc(arg1))
        if t is None or t[0] != "call" or not t[1].endswith("cmp::Ord::cmp") or len(t[2]) != 2:
            return False
        a, b = side(t[2][0]), side(t[2][1])
        return a == (kind[B], 2) and b == (kind[A], 1)

    for A, B in impls:
        for m, op in CMP_OPS.items():
            p, b = body_of(A, B, "PartialOrd", m)
            key = p.replace(M, "")
            if not ck.anchor(RID["R2"], p, b):
                continue
            n = norm_cmp(ret_of(b))
            want = (op, (kind[B], 2), (kind[A], 1))
            if n == want:
                ck.ok(RID["R2"], key, fn=p, detail="%s  ==>  %s(enc(other), enc(self))" % (show(ret_of(b)), op))
            else:
                ck.bad(RID["R2"], key, where(b.raw["sp"]),
                       "`%s` is %s, normal form %s; expected %s(enc(other), enc(self))" % (m, show(ret_of(b)), n, op), fn=p)
        # partial_cmp
        p, b = body_of(A, B, "PartialOrd", "partial_cmp")
        key = p.replace(M, "")
        if ck.anchor(RID["R2"], p, b):
            r = ret_of(b)
            ok = False
            if r and r[0] == "agg" and r[2] == "Some" and len(r[3]) == 1:
                inner = r[3][0]
                if is_cmp_call(inner, A, B):
                    ok = True
                elif A == B and inner[0] == "call" and inner[1].endswith("cmp::Ord::cmp") and inner[2] == (("arg", 1), ("arg", 2)):
                    ok = True   # delegation to Ord::cmp(self, other), itself checked below
            if ok:
                ck.ok(RID["R2"], key, fn=p, detail=show(r))
            else:
                ck.bad(RID["R2"], key, where(b.raw["sp"]), "partial_cmp is %s; expected Some(cmp(enc(other), enc(self)))" % show(r), fn=p)
        if A == B:
            p, b = body_of(A, A, "Ord", "cmp")
            key = p.replace(M, "")
            if ck.anchor(RID["R2"], p, b):
                r = ret_of(b)
                if is_cmp_call(r, A, A):
                    ck.ok(RID["R2"], key, fn=p, detail=show(r))
                else:
                    ck.bad(RID["R2"], key, where(b.raw["sp"]), "cmp is %s; expected usize::cmp(enc(other), enc(self))" % show(r), fn=p)
        else:
            p, b = body_of(A, B, "PartialEq", "eq")
            key = p.replace(M, "")
            if ck.anchor(RID["R2"], p, b):
                n = norm_cmp(ret_of(b))
                if n == ("Eq", (kind[B], 2), (kind[A], 1)):
                    ck.ok(RID["R2"], key, fn=p, detail=show(ret_of(b)))
                else:
                    ck.bad(RID["R2"], key, where(b.raw["sp"]), "eq is %s; expected enc(self) == enc(other)" % show(ret_of(b)), fn=p)
            # an explicit `ne` must be the negation of `eq` for every pair (the provided one is)
            pn, bn = body_of(A, B, "PartialEq", "ne")
            if bn is not None:
                keyn = pn.replace(M, "")
                r = ret_of(bn)
                ok = False
                if r is not None:
                    t = r
                    neg = False
                    while t[0] == "un" and t[1] == "Not":
                        neg = not neg
                        t = t[2]
                    if t[0] == "bin" and t[1] == "Ne" and not neg:
                        a, b2 = side(t[2]), side(t[3])
                        ok = a is not None and b2 is not None and {a, b2} == {(kind[A], 1), (kind[B], 2)}
                    elif neg and norm_cmp(t) == ("Eq", (kind[B], 2), (kind[A], 1)):
                        ok = True
                    elif neg and t[0] == "call" and t[1].endswith("PartialEq::eq") and set(t[2]) == {("arg", 1), ("arg", 2)}:
                        ok = True
                if ok:
                    ck.ok(RID["R2"], keyn, fn=pn, detail=show(r))
                else:
                    ck.bad(RID["R2"], keyn, where(bn.raw["sp"]), "ne is %s; expected enc(self) != enc(other) (the negation of eq for every pair, OFF included)" % (show(r) if r else "path-dependent"), fn=pn)


# ------------------------------------------------------------------ R3
def const_name(t):
    """'ERROR' for the constant Level::ERROR / LevelFilter::ERROR"""
    if t and t[0] == "const" and t[3]:
        return t[3].rsplit("::", 1)[1], t[3].rsplit("::", 1)[0]
    return None, None


def disc_rows(b, discr_terms):
    """switch-on-discriminant tables: {discr value tuple: path}"""
    rows = {}
    for p in PathEval(b).run():
        if p.end != "return":
            continue
        key = tuple(c[1] for c in p.conds if c[0] in discr_terms)
        rows[key] = p
    return rows


def r3_text(ck, F, tag, enc):
    if not enc:
        return
    by_enc = {v: k for k, v in enc.items()}
    # --- printing tables
    printed = {}   # (type, NAME) -> text
    b = F.body(LV + "::as_str")
    D1 = ("discr", ("field", ("arg", 1), "0"))
    if ck.anchor("C19.R3", "Level::as_str", b):
        for key, p in disc_rows(b, {D1}).items():
            if len(key) == 1 and p.ret[0] == "const" and isinstance(p.ret[2], str):
                printed[(LV, by_enc.get(key[0]))] = ("as_str", p.ret[2])
    b = F.body("<%s as core::fmt::Display>::fmt" % LV)
    disp = {}
    if ck.anchor("C19.R3", "Display for Level", b):
        for key, p in disc_rows(b, {D1}).items():
            r = p.ret
            if len(key) == 1 and r[0] == "call" and r[1].endswith("Formatter::<'a>::pad") and r[2][1][0] == "const":
                disp[(LV, by_enc.get(key[0]))] = r[2][1][2]
        if not disp:
            # Display delegating to the table it must agree with: f.pad(self.as_str())
            ps = [p for p in PathEval(b).run() if p.end == "return"]
            if len(ps) == 1 and ps[0].ret[0] == "call" and ps[0].ret[1].endswith("Formatter::<'a>::pad") and show(ps[0].ret[2][1]).startswith("as_str(") \
                    and "arg1" in show(ps[0].ret[2][1]):
                for (ty_, n_), (how, text) in printed.items():
                    if ty_ == LV:
                        disp[(LV, n_)] = text
    b = F.body("<%s as core::fmt::Display>::fmt" % LF)
    D2 = ("discr", ("field", ("downcast", ("field", ("arg", 1), "0"), "Some"), "0"))
    D2b = ("discr", ("field", ("field", ("downcast", ("field", ("arg", 1), "0"), "Some"), "0"), "0"))
    if ck.anchor("C19.R3", "Display for LevelFilter", b):
        for p in PathEval(b).run():
            if p.end != "return":
                continue
            r = p.ret
            if not (r[0] == "call" and r[1].endswith("Formatter::<'a>::pad") and r[2][1][0] == "const"):
                continue
            conds = [(show(c[0]), c[1]) for c in p.conds]
            if len(p.conds) == 1 and p.conds[0][1] == 0:
                disp[(LF, "OFF")] = r[2][1][2]
            elif len(p.conds) == 2 and p.conds[0][1] == 1:
                disp[(LF, by_enc.get(p.conds[1][1]))] = r[2][1][2]
    for n in NAMES:
        k = "Level::%s prints" % (n)
        a = printed.get((LV, n), (None, None))[1]
        d = disp.get((LV, n))
        if a == n and d == n:
            ck.ok("C19.R3", k, detail="as_str=%r Display=%r" % (a, d))
        else:
            ck.bad("C19.R3", k, LV, "as_str=%r Display=%r, expected %r for both" % (a, d, n))
    for n in NAMES + ["OFF"]:
        k = "LevelFilter::%s prints" % (n)
        d = disp.get((LF, n))
        if d is not None and d.upper() == n:
            ck.ok("C19.R3", k, detail="Display=%r" % d)
        else:
            ck.bad("C19.R3", k, LF, "Display=%r, expected %r in some letter case" % (d, n))
    # --- parsing tables
    def extract(ty):
        top = F.body("<%s as core::str::traits::FromStr>::from_str" % ty)
        if top is None:
            return None, {}, {}, []
        got_digits, got_names, other_accept = {}, {}, []
        # helper functions handed to the combinators as function values (`.and_then(level_from_number)`) play the closures' role
        fn_items = []
        for x in [top] + F.closures_of(top):
            for bb, t in x.calls():
                for a in t["argv"]:
                    fnp = (a.get("const") or {}).get("fn")
                    hb = F.body(fnp) if fnp else None
                    if hb is not None and hb.crate == top.crate and hb.argc == 1 and hb not in fn_items and "into_level" not in fnp:
                        fn_items.append(hb)
        for cb in [top] + F.closures_of(top) + fn_items:
            for p in PathEval(cb).run():
                if p.end != "return":
                    continue
                r = p.ret
                val = None
                if r[0] == "agg" and r[2] in ("Ok", "Some") and r[3]:
                    val, vty = const_name(r[3][0])
                    if vty != ty:
                        val = None
                    if val is None and r[3][0] == ("arg", 2) and cb is not top:
                        continue        # a pass-through stage (`.and_then(|n| if .. { Ok(n) } ..)`): decides nothing by itself
                    if val is None:
                        other_accept.append(show(r))
                        continue
                else:
                    continue
                # integer switches (digits): any explicit arm selects; boolean tests: the true edge selects
                def is_digit_term(t):
                    # the parsed number: the digit closure's parameter, or (in the function itself) the payload of
                    # `s.parse::<usize>()` / `usize::from_str(s)`
                    if t == ("arg", 2) and cb is not top and cb not in fn_items:
                        return True
                    if t == ("arg", 1) and cb in fn_items:
                        return True
                    txt = show(t)
                    return cb is top and t[0] in ("field", "downcast") and ("from_str(" in txt or "parse(" in txt)
                sel = []
                for c in p.conds:
                    if is_digit_term(c[0]):
                        if c[1] is not None:
                            sel.append(c)
                    elif c[0][0] == "discr" and cb is top:
                        continue            # Result/Option plumbing around the two tables
                    elif c[1] != 0 and c[0][0] == "bin" and c[0][1] == "Eq" and "len(arg1)" in show(c[0]) and any(
                            isinstance(a, tuple) and a[0] == "const" and a[2] == 1 for a in c[0][2:4]):
                        continue            # the one-character gate in front of the digit table, written inline
                    elif c[1] != 0:
                        sel.append(c)
                if len(sel) != 1:
                    other_accept.append("%s under %s" % (val, [(show(c[0]), c[1]) for c in p.conds]))
                    continue
                c = sel[0]
                ct = c[0]
                if is_digit_term(ct) and isinstance(c[1], int):
                    got_digits[c[1]] = val
                elif ct[0] == "call" and ct[1] == "core::str::<impl str>::eq_ignore_ascii_case" and ct[2][1][0] == "const":
                    got_names[("nocase", ct[2][1][2])] = val
                elif ct[0] == "call" and ct[1].endswith("PartialEq::eq") and ct[2][1][0] == "const":
                    got_names[("exact", ct[2][1][2])] = val
                else:
                    other_accept.append("%s under %s" % (val, show(ct)))
        return top, got_digits, got_names, other_accept

    filter_tables = extract(LF)
    for ty, names, digits in ((LV, NAMES, {1: "ERROR", 2: "WARN", 3: "INFO", 4: "DEBUG", 5: "TRACE"}),
                              (LF, NAMES + ["OFF"], {0: "OFF", 1: "ERROR", 2: "WARN", 3: "INFO", 4: "DEBUG", 5: "TRACE"})):
        short = ty.rsplit("::", 1)[1]
        top, got_digits, got_names, other_accept = extract(ty) if ty == LV else filter_tables
        if not ck.anchor("C19.R3", "FromStr for " + short, top):
            continue
        if ty == LV and not tag:
            ck._c19_level_digits = lambda: dict(got_digits)
        delegated = False
        if ty == LV and not got_digits and not got_names:
            # accepted idiom: Level::from_str delegating to LevelFilter::from_str and keeping the Some(level) results
            deleg = [t for x in [top] + F.closures_of(top) for bb, t in x.calls()
                     if t["callee"].get("resolved", t["callee"].get("path")) == "<%s as core::str::traits::FromStr>::from_str" % LF
                     or (t["callee"].get("trait") == "core::str::traits::FromStr" and t["callee"].get("self_ty") == LF)
                     or (t["callee"].get("method") == "parse" and LF in " ".join(t["callee"].get("targs", [])))]
            into = [t for x in [top] + F.closures_of(top) for bb, t in x.calls() if t["callee"].get("path") == LF + "::into_level"]
            # ... or passed as a function value: `.and_then(LevelFilter::into_level)`
            for x in [top] + F.closures_of(top):
                for bb, t in x.calls():
                    for a in t["argv"]:
                        if (a.get("const") or {}).get("fn") == LF + "::into_level":
                            into.append(t)
            if deleg and into:
                delegated = True
                _, fd, fn_, fo = filter_tables
                got_digits = {k: v for k, v in fd.items() if v != "OFF"}
                got_names = {k: v for k, v in fn_.items() if v != "OFF"}
                other_accept = list(fo)
                ck.note("FromStr for Level delegates to LevelFilter::from_str + into_level: its table is derived from the filter's")
        # what the tables are looked up with is the input itself: a trimmed, sliced or re-cased copy would make the parser
        # accept spellings outside the documented set ("anything else is rejected")
        subj_bad = []
        nsubj = 0
        if not delegated:
            for x in [top] + F.closures_of(top):
                for bb, t in x.calls():
                    c = t["callee"]
                    pth = c.get("path") or ""
                    is_test = (pth.startswith("core::str::<impl str>::") or (c.get("trait") == "core::str::traits::FromStr")
                               or (pth.endswith("PartialEq::eq") and len(t["argv"]) == 2 and (t["argv"][1].get("const") or {}).get("ty") == "&str"))
                    if not is_test or not t["argv"]:
                        continue
                    nsubj += 1
                    o = x.origin(t["argv"][0])
                    good = False
                    if x is top:
                        good = o[0] == "arg" and o[1] == 1 and not o[2]
                    elif o[0] == "arg" and o[1] == 1 and len(o[2]) == 1 and "f" in o[2][0]:
                        for i, j, st in top.stmts():
                            a = st.get("rv", {}).get("agg") if st["k"] == "assign" else None
                            if a and a.get("closure") == x.path and o[2][0]["f"] < len(st["rv"]["ops"]):
                                oo = top.origin(st["rv"]["ops"][o[2][0]["f"]])
                                good = oo[0] == "arg" and oo[1] == 1 and not oo[2]
                    if not good:
                        subj_bad.append("%s at %s" % (pth.rsplit("::", 1)[-1], where(t["sp"])))
        # the numeric spellings are the single digits: usize::from_str alone also takes a sign and leading zeros ("+3", "003",
        # "00"), so the numeric path must be conditioned on the input being one character long
        if not delegated and got_digits:
            one_char = False
            for x in [top] + F.closures_of(top):
                for p in PathEval(x).run():
                    for c in p.conds:
                        t = show(c[0])
                        if ("len(" in t) and (t.startswith("eq(") or t.startswith("Eq(") or " Eq " in t or t.startswith("bin(")) and ("1" in t):
                            one_char = True
                        if c[0][0] == "bin" and c[0][1] == "Eq" and "len(" in t:
                            one_char = True
                    r_ = p.ret      # `.filter(|_| s.len() == 1)`: the closure *returns* the test
                    if p.end == "return" and r_ and r_[0] == "bin" and r_[1] == "Eq" and "len(" in show(r_) and any(isinstance(a, tuple) and a[0] == "const" and a[2] == 1 for a in r_[2:4]):
                        one_char = True
            kd = "%s: a numeric spelling is exactly one digit" % short
            if one_char:
                ck.ok("C19.R3", kd, fn=top.path)
            else:
                ck.bad("C19.R3", kd, where(top.raw["sp"]), "the digits are recognised by parsing the whole input as usize with no length test: `+3`, `003` (and `00` for the filter) "
                       "are accepted although only the digits themselves are documented", fn=top.path)
        k = "%s: every text test and number parse reads the input string itself" % short
        if subj_bad:
            ck.bad("C19.R3", k, where(top.raw["sp"]), "the subject of %s is derived from the input (trimmed / sliced / converted) rather than the input: "
                   "spellings outside the documented set are accepted" % "; ".join(subj_bad), fn=top.path)
        elif nsubj:
            ck.ok("C19.R3", k, fn=top.path, detail=nsubj)
        # the numeric closure must be fed by `usize::from_str(s)` of the whole input and the name closure by s
        for d, n in digits.items():
            k = "%s parses %d" % (short, d)
            if got_digits.get(d) == n:
                ck.ok("C19.R3", k, detail="%d -> %s" % (d, n))
            else:
                ck.bad("C19.R3", k, where(top.raw["sp"]), "digit %d parses to %s, documented %s" % (d, got_digits.get(d), n))
        for d in set(got_digits) - set(digits):
            ck.bad("C19.R3", "%s parses %d" % (short, d), where(top.raw["sp"]), "undocumented digit %d accepted as %s" % (d, got_digits[d]))
        for n in names:
            k = "%s parses name %s" % (short, n)
            hits = [(lit, v) for (how, lit), v in got_names.items() if how == "nocase" and lit.upper() == n]
            if hits and all(v == n for _, v in hits):
                ck.ok("C19.R3", k, detail="eq_ignore_ascii_case(%r) -> %s" % (hits[0][0], n))
            else:
                ck.bad("C19.R3", k, where(top.raw["sp"]), "name %s is not accepted case-insensitively as itself (%s)" % (n, hits))
        for (how, lit), v in got_names.items():
            if how == "nocase" and lit.upper() in names and v == lit.upper():
                continue
            ck.bad("C19.R3", "%s accepts %r" % (short, lit), where(top.raw["sp"]),
                   "input %r (%s match) is accepted as %s although it is neither a level name nor a documented digit" % (lit, how, v))
        for o in other_accept:
            ck.bad("C19.R3", "%s accepts other" % (short), where(top.raw["sp"]), "unrecognised accepting row: %s" % o)


# ------------------------------------------------------------------ R4
def r4_published(ck, F, tag, enc, census):
    if not enc:
        return
    by_enc = {v: k for k, v in enc.items()}
    cur = F.body(LF + "::current")
    setm = F.body(LF + "::set_max")
    if ck.anchor(RID["R4"], "LevelFilter::current", cur):
        rows = {}
        loads = set()
        for p in PathEval(cur).run():
            if p.end != "return":
                continue
            c = p.conds[-1] if p.conds else None
            if c and c[0][0] == "call" and c[0][1].endswith("::load") and c[0][2][0][2] == ("static", M + "MAX_LEVEL"):
                loads.add(c[0][3])
                n, ty = const_name(p.ret)
                rows[c[1]] = n if ty == LF else None
        for n, v in enc.items():
            k = "current(): %d -> %s" % (v, n)
            if rows.get(v) == n:
                ck.ok(RID["R4"], k)
            else:
                ck.bad(RID["R4"], k, where(cur.raw["sp"]), "MAX_LEVEL == %d reads back as %s, expected %s" % (v, rows.get(v), n))
        extra = {k: v for k, v in rows.items() if k not in enc.values()}
        if extra:
            ck.bad(RID["R4"], "current(): extra rows", where(cur.raw["sp"]), "rows for unknown encodings: %s" % extra)
    if ck.anchor(RID["R4"], "LevelFilter::set_max", setm):
        rows = {}
        for p in PathEval(setm).run():
            if p.end != "return":
                continue
            sw = [c for c in p.calls if c[1].get("path", "").endswith("::swap") or c[1].get("path", "").endswith("::store")]
            if len(sw) != 1 or sw[0][2][0][2] != ("static", M + "MAX_LEVEL"):
                ck.bad(RID["R4"], "set_max writes MAX_LEVEL once", where(setm.raw["sp"]), "expected exactly one swap/store to MAX_LEVEL per path")
                continue
            d = [c for c in p.conds if c[0] == ("discr", ("field", ("arg", 1), "0"))]
            if len(d) == 1:
                # `match` gives arms 0/1; `if let Some(..) = level {..} else {..}` gives arm 1 and an otherwise edge
                rows[1 if d[0][1] == 1 else 0] = sw[0][2][1]
        v_none, v_some = rows.get(0), rows.get(1)
        if not rows:
            # the encoding delegated to the module's own helper: set_max stores filter_as_usize(&self.0); take the table
            # from that function instead
            ps = [p for p in PathEval(setm).run() if p.end == "return"]
            sw = [c for p in ps for c in p.calls if c[1].get("path", "").endswith("::swap") or c[1].get("path", "").endswith("::store")]
            fa = F.body(M + "filter_as_usize")
            if len(ps) == 1 and len(sw) == 1 and fa is not None and show(sw[0][2][1]).startswith("filter_as_usize(") and "arg1" in show(sw[0][2][1]):
                for q in PathEval(fa).run():
                    if q.end != "return":
                        continue
                    d = [c for c in q.conds if c[0][0] == "discr"]
                    if len(d) == 1:
                        rows[d[0][1]] = q.ret
                v_none, v_some = rows.get(0), rows.get(1)
        ok_none = v_none is not None and v_none[0] == "const" and v_none[2] == enc["OFF"]
        ok_some = v_some is not None and v_some[0] == "cast" and v_some[2][0] == "discr"
        if ok_none:
            ck.ok(RID["R4"], "set_max(OFF) stores OFF_USIZE", detail=show(v_none))
        else:
            ck.bad(RID["R4"], "set_max(OFF) stores OFF_USIZE", where(setm.raw["sp"]), "stores %s" % show(v_none))
        if ok_some:
            ck.ok(RID["R4"], "set_max(level) stores its discriminant", detail=show(v_some))
        else:
            ck.bad(RID["R4"], "set_max(level) stores its discriminant", where(setm.raw["sp"]), "stores %s" % show(v_some))
    if not census:
        return
    # census of mixed Level x LevelFilter comparisons at the enable-test sites
    seen_sites = set()
    for b in F.body_list:
        if b.path.startswith("<" + M):
            continue
        for bb, t in b.calls():
            c = t["callee"]
            if c.get("trait") != "core::cmp::PartialOrd" or c.get("method") not in CMP_OPS:
                continue
            ta = [x.lstrip("&") for x in c["targs"]]
            if len(ta) != 2 or set(ta) != {LV, LF}:
                continue
            sig = (ta[0], ta[1], c["method"])
            # a comparison inside a closure of a census function (e.g. `.map_or(false, |d| d.level >= level)`) belongs to it
            site = b.path
            while site not in ENABLE_TEST_SITES and "::{closure" in site:
                site = site.rsplit("::{closure", 1)[0]
            key = "%s: %s.%s(%s)" % (site, ta[0].rsplit("::", 1)[1], c["method"], ta[1].rsplit("::", 1)[1])
            if site in ENABLE_TEST_SITES:
                seen_sites.add(site)
                if sig in ALLOWED_MIXED:
                    ck.ok(RID["R4"], key, fn=b.path, detail="means level <= filter (or its negation)")
                else:
                    ck.bad(RID["R4"], key, where(t["sp"]),
                           "enable test compares with `%s`: this is not `level <= filter` nor its negation" % c["method"], fn=b.path)
            else:
                if sig not in ALLOWED_MIXED:
                    ck.note("mixed comparison outside the enable-test table (not armed): %s at %s" % (key, where(t["sp"])))
    for s in ENABLE_TEST_SITES:
        if s not in seen_sites:
            ck.anchor(RID["R4"], s, None)


def r6_attribute_digits(ck):
    """The attribute macro is the third reader of a level's numeric spelling (after Level::from_str and
    LevelFilter::from_str / directives). Its table is not visible as MIR (proc macro), its output is: the level in the
    CTFE-decoded metadata of the span callsite `#[instrument(level = d)] fn digit<d>` expands to, for d = 1..5."""
    from rules import C17
    FX = Facts("fx_instrument")
    ck.configs.append("fx_instrument")
    core = getattr(ck, "_c19_level_digits", lambda: {})()
    key = "#[instrument(level = <digit>)] follows the digit scale of Level::from_str"
    got = {}
    for d in range(1, 6):
        b = FX.body("fx_instrument::digit%d" % d)
        if not ck.anchor("C19.R6", "fixture digit%d" % d, b):
            return
        cs = C17.callsites_in(FX, [b] + FX.closures_of(b))
        spans = [C17.meta_summary(m) for m in cs.values() if m is not None]
        spans = [m for m in spans if m["span"]]
        if len(spans) != 1:
            ck.bad("C19.R6", key, where(b.raw["sp"]), "fixture digit%d expands to %d span callsites" % (d, len(spans)))
            return
        got[d] = spans[0]["level"]
    if len(core) < 5:
        ck.bad("C19.R6", key, "tracing-core/src/metadata.rs", "no digit table could be extracted from Level::from_str (%s)" % core)
        return
    diff = ["%d -> %s (Level::from_str: %s)" % (d, got[d], core.get(d)) for d in sorted(got) if got[d] != core.get(d)]
    if diff:
        ck.bad("C19.R6", key, "tracing-attributes/src/attr.rs (impl Parse for Level)", "the attribute reads the digits on the inverse scale: " + ", ".join(diff))
    else:
        ck.ok("C19.R6", key, detail=got)
