"""Shared analysis of macro expansions in the fixture crates (used by C01, C03, C10, C18)."""
import re

from rulekit import facts as _facts
from rulekit.sym import PathEval, show

LE = "<tracing_core::metadata::Level as core::cmp::PartialOrd<tracing_core::metadata::LevelFilter>>::le"
GE_REV = "<tracing_core::metadata::LevelFilter as core::cmp::PartialOrd<tracing_core::metadata::Level>>::ge"
MS = "tracing::__macro_support::MacroCallsite"
DELIVER_EVENT = {"tracing_core::event::Event::<'a>::dispatch", "tracing_core::event::Event::<'a>::child_of"}
DELIVER_SPAN = {"tracing::span::Span::new", "tracing::span::Span::child_of", "tracing::span::Span::new_root"}
LEVEL_ENC = {"TRACE": 0, "DEBUG": 1, "INFO": 2, "WARN": 3, "ERROR": 4}


def terminal_arms():
    """Lines of tracing/src/macros.rs that define a `static __CALLSITE` (one per terminal macro arm)."""
    import os
    p = os.path.join(_facts.REPO, "tracing/src/macros.rs")
    out = []
    cur = None
    with open(p) as fh:
        for i, line in enumerate(fh, 1):
            m = re.match(r"\s*macro_rules!\s+(\w+)", line)
            if m:
                cur = m.group(1)
            if re.search(r"\bstatic\s+__CALLSITE\s*:", line) and not line.lstrip().startswith("//") and cur in ("span", "event", "enabled"):
                out.append(i)
    return out


def callsite_of(FX, body):
    """(static path, decoded MacroCallsite, decoded Metadata, def-site line) of the fixture function's callsite."""
    p = body.path + "::__CALLSITE"
    c = FX.consts.get(p)
    m = FX.consts.get(p + "::__META")
    if not c or not m:
        return None
    return p, c, m, c.get("line")


def promoted_consts(body, idx):
    for pr in body.raw.get("promoted", []):
        if pr["idx"] == idx:
            return pr["consts"]
    return []


def level_of_term(body, t):
    """Decode a `&Level` constant term -> encoded int, or None."""
    if t is None or t[0] != "const":
        return None
    v = t[2]
    if isinstance(v, tuple) and v and v[0] == "promoted":
        cs = promoted_consts(body, v[1])
        if len(cs) == 1 and cs[0].get("ty") == "tracing_core::metadata::Level":
            return cs[0].get("int")
        return None
    if isinstance(v, int):
        return v
    return None


def is_static_max(body, t):
    if t is None or t[0] != "const":
        return False
    v = t[2]
    if isinstance(v, tuple) and v and v[0] == "promoted":
        cs = promoted_consts(body, v[1])
        return len(cs) == 1 and cs[0].get("def") == "tracing::level_filters::STATIC_MAX_LEVEL"
    return t[3] == "tracing::level_filters::STATIC_MAX_LEVEL"


def static_of_term(t):
    if t and t[0] == "const" and isinstance(t[2], tuple) and t[2] and t[2][0] == "static":
        return t[2][1]
    return None


def delivery_sites(FX, body, kind):
    """Blocks of `body` at which the emission is handed over (directly or through the expansion's closure)."""
    out = []
    if kind == "span":
        for bb, t in body.calls():
            if t["callee"].get("path") in DELIVER_SPAN:
                out.append((bb, t["callee"]["path"].rsplit("::", 1)[1]))
        return out
    if kind == "enabled":
        for bb, t in body.calls():
            if t["callee"].get("path") == "tracing_core::dispatch::get_default":
                out.append((bb, "get_default(enabled)"))
        return out
    # events: closure in the expansion calls Event::dispatch / child_of
    clos = {}
    for c in FX.closures_of(body):
        for bb, t in c.calls():
            if t["callee"].get("path") in DELIVER_EVENT:
                clos[c.path] = t["callee"]["path"].rsplit("::", 1)[1]
    for bb, t in body.calls():
        c = t["callee"]
        if c.get("method") in ("call", "call_once", "call_mut") and c.get("trait", "").startswith("core::ops::function::Fn"):
            # which closure is being called: slice the receiver back to its closure aggregate
            o = body.origin(t["argv"][0])
            if o[0] == "agg" and o[1]["agg"].get("closure") in clos:
                out.append((bb, clos[o[1]["agg"]["closure"]]))
            elif o[0] == "const" and o[1].get("closure") in clos:   # capture-less closure: a ZST constant
                out.append((bb, clos[o[1]["closure"]]))
        if c.get("path") in DELIVER_EVENT:
            out.append((bb, c["path"].rsplit("::", 1)[1]))
    return out


def rpath(body, term):
    """resolved callee path of a ('call', declared, args, bb) term"""
    c = body.term(term[3])["callee"]
    return c.get("resolved") or c.get("path")


def classify_guard(body, cond, cs_static):
    """-> (kind, detail) where kind in G1..G4 or None"""
    term, val = cond[0], cond[1]
    flip = False
    while term[0] == "un" and term[1] == "Not":
        term = term[2]
        flip = not flip
    if flip:
        # value of `!x` is non-zero  <=>  x is zero
        val = 0 if (val is None or val != 0) else 1
    if term[0] != "call":
        return None, show(term)
    path = rpath(body, term)
    m = re.match(r"<tracing_core::metadata::(Level|LevelFilter) as core::cmp::PartialOrd<tracing_core::metadata::(Level|LevelFilter)>>::(le|lt|ge|gt)$", path or "")
    if m and len(term[2]) == 2 and m.group(1) != m.group(2):
        # normalise to "level <= filter is <truth>"; strict forms are not the enable test
        meth = m.group(3)
        taken = val != 0
        if m.group(1) == "Level":
            lvl_t, flt_t = term[2]
            truth = {"le": taken, "gt": not taken}.get(meth)
        else:
            flt_t, lvl_t = term[2]
            truth = {"ge": taken, "lt": not taken}.get(meth)
        if truth is None:
            return None, "%s(%s, %s)" % (meth, show(term[2][0]), show(term[2][1]))
        lvl = level_of_term(body, lvl_t)
        if is_static_max(body, flt_t):
            return "G1", (lvl, truth)
        if flt_t[0] == "call" and rpath(body, flt_t) == "tracing_core::metadata::LevelFilter::current":
            return "G2", (lvl, truth)
        return None, "level <= %s" % show(flt_t)
    if path == "tracing_core::collect::Interest::is_never":
        a = term[2][0]
        if a[0] == "call" and rpath(body, a) == MS + "::interest" and static_of_term(a[2][0]) == cs_static:
            return "G3", (a[3], val == 0)
        return None, "is_never(%s)" % show(a)
    if path == MS + "::is_enabled":
        a0, a1 = term[2]
        if static_of_term(a0) == cs_static and a1[0] == "call" and rpath(body, a1) == MS + "::interest" and static_of_term(a1[2][0]) == cs_static:
            return "G4", (a1[3], val != 0)
        return None, "is_enabled(%s, %s)" % (show(a0), show(a1))
    return None, show(term)


def guard_shape(FX, body, exp):
    """Decide C01.R1 for one fixture function. Returns dict(ok, why, why_key, arm, detail)."""
    cs = callsite_of(FX, body)
    if not cs:
        return dict(ok=False, why="no __CALLSITE static found for the fixture function", why_key="no-callsite", arm=None)
    cs_static, cs_val, meta, arm = cs
    meta_level = meta["val"]["f"]["level"].get("bits")
    res = dict(arm=arm)
    want_level = LEVEL_ENC[exp["level"]]
    if meta_level != want_level:
        return dict(res, ok=False, why="callsite metadata level is %s, invocation says %s" % (meta_level, exp["level"]), why_key="meta-level")
    sites = delivery_sites(FX, body, exp["kind"])
    if len(sites) != 1:
        return dict(res, ok=False, why="expected exactly one delivery site in the expansion, found %s" % sites, why_key="delivery-count")
    dbb, what = sites[0]
    ev = PathEval(body)
    paths = [p for p in ev.run() if p.end in ("return", "diverge")]
    if ev.truncated:
        return dict(res, ok=False, why="path enumeration truncated", why_key="truncated")
    saw_delivery = 0
    for p in paths:
        # conditions in order, ignoring constant-folded ones (drop flags, `enabled` bool merges)
        conds = [c for c in p.conds if c[0][0] != "const"]
        if dbb in p.blocks:
            saw_delivery += 1
            idx = p.blocks.index(dbb)
            # only the conditions decided before the delivery block
            before = []
            ci = 0
            for bb in p.blocks[:idx]:
                if body.blocks[bb]["term"]["k"] == "switch":
                    c = p.conds[ci]
                    ci += 1
                    if c[0][0] != "const":
                        before.append(c)
            kinds = []
            for c in before:
                k, d = classify_guard(body, c, cs_static)
                kinds.append((k, d))
            names = [k for k, _ in kinds]
            if names != ["G1", "G2", "G3", "G4"]:
                extra = [d for k, d in kinds if k is None]
                return dict(res, ok=False, why_key="guard-sequence",
                            why="the delivery (%s) is guarded by %s; expected exactly [level<=STATIC_MAX, level<=current(), !interest.is_never(), is_enabled(interest)]%s"
                                % (what, names, (" — unrecognised condition(s): %s" % extra) if extra else ""), detail=str(kinds))
            (l1, t1), (l2, t2), (i3, t3), (i4, t4) = [d for _, d in kinds]
            if not (t1 and t2 and t3 and t4):
                return dict(res, ok=False, why_key="guard-polarity", why="the delivery is reached on a false edge of its guard: %s" % kinds, detail=str(kinds))
            if l1 != meta_level or l2 != meta_level:
                return dict(res, ok=False, why_key="guard-level",
                            why="the level compared (%s, %s) is not the callsite's metadata level %s" % (l1, l2, meta_level), detail=str(kinds))
            if i3 != i4:
                return dict(res, ok=False, why_key="guard-interest", why="is_enabled is not given the interest that was tested for never", detail=str(kinds))
        else:
            # a path that avoids the delivery must have failed one of the four guards
            ks = [classify_guard(body, c, cs_static) for c in conds]
            gs = {k: d for k, d in ks if k}
            all_true = all(k in gs for k in ("G1", "G2", "G3", "G4")) and all(gs[k][1] for k in ("G1", "G2", "G3", "G4"))
            if all_true and p.end == "return":
                return dict(res, ok=False, why_key="suppressed",
                            why="a path passes all four guards yet never reaches the delivery (%s): an extra condition suppresses it" % what,
                            detail=str([(show(c[0]), c[1]) for c in conds]))
    if not saw_delivery:
        return dict(res, ok=False, why_key="unreachable", why="no path reaches the delivery site")
    return dict(res, ok=True, detail="delivery=%s level=%s callsite=%s" % (what, exp["level"], cs_static.rsplit("::", 2)[1]))


def valueset_arms():
    """Lines of tracing/src/macros.rs inside `macro_rules! valueset` that build a (key, value) pair: one per field-form arm."""
    import os
    p = os.path.join(_facts.REPO, "tracing/src/macros.rs")
    out = []
    cur = None
    with open(p) as fh:
        for i, line in enumerate(fh, 1):
            m = re.match(r"\s*macro_rules!\s+(\w+)", line)
            if m:
                cur = m.group(1)
            if cur == "valueset" and "(&$next," in line and not line.lstrip().startswith("//"):
                out.append(i)
    return out


def valueset_lines_used(FX, body):
    """def-site lines (in macros.rs) of the (key, value) tuples built in this fixture function"""
    out = set()
    for i, j, s in body.stmts():
        rv = s.get("rv", {})
        sp = s.get("sp", {})
        if "agg" in rv and rv["agg"].get("tuple") and sp.get("exp") and sp.get("f", "").endswith("tracing/src/macros.rs"):
            out.add(sp["l"])
    return out
