"""C09 — every layer sees every notification exactly once; wrappers are transparent.

Decides the structural clause: every pass-through wrapper impl of Collect / Subscribe / Filter
overrides every defaulted trait method (R1) and each override forwards to the same-named method of
the wrapped value(s), once, with its arguments passed through positionally (R2), in the documented
order for Layered (R3); Dispatch::event delivers iff event_enabled (R4).
"""
from rulekit import Facts, where, proj_names

COLLECT = "tracing_core::collect::Collect"
SUBSCRIBE = "tracing_subscriber::subscribe::Subscribe"
FILTER = "tracing_subscriber::subscribe::Filter"
TRAITS = [COLLECT, SUBSCRIBE, FILTER]

# (trait, method) -> reason.  Methods that are not notifications to forward.
GLOBAL_EXEMPT = {
    (SUBSCRIBE, "and_then"): "by-value constructor, not a notification",
    (SUBSCRIBE, "with_collector"): "by-value constructor, not a notification",
    (SUBSCRIBE, "with_filter"): "by-value constructor, not a notification",
    (SUBSCRIBE, "boxed"): "by-value constructor, not a notification",
}

# Collect-method -> Subscribe-method notified by Layered
COLLECT_TO_SUBSCRIBE = {
    "register_callsite": "register_callsite", "enabled": "enabled", "max_level_hint": "max_level_hint",
    "new_span": "on_new_span", "record": "on_record", "record_follows_from": "on_follows_from",
    "event_enabled": "event_enabled", "event": "on_event", "enter": "on_enter", "exit": "on_exit",
    "try_close": "on_close", "clone_span": "on_id_change", "on_register_dispatch": "on_register_dispatch",
    "downcast_raw": "downcast_raw",
}
# the span/event notifications and the dispatcher registration: inner collector first, then the layer
INNER_FIRST = {"on_register_dispatch", "new_span", "record", "record_follows_from", "event", "enter", "exit", "try_close", "clone_span",
               "on_new_span", "on_record", "on_follows_from", "on_event", "on_enter", "on_exit", "on_close",
               "on_id_change"}
OUTER_FIRST_VETO = {"enabled", "event_enabled"}

# (self type head, trait, method) -> reason: overrides that by design do not simply forward
SHAPE_EXEMPT = {
    ("tracing_subscriber::reload::Subscriber", SUBSCRIBE, "downcast_raw"): "a pointer into the lock would dangle; documented to return None for the inner type",
    ("tracing_subscriber::filter::subscriber_filters::Filtered", SUBSCRIBE, "max_level_hint"): "per-subscriber filter design: the hint is the filter's",
    ("tracing_subscriber::filter::subscriber_filters::combinator::Not", FILTER, "max_level_hint"): "documented: negation has no hint",
    ("tracing_subscriber::filter::subscriber_filters::combinator::Not", FILTER, "event_enabled"): "documented constant",
    ("tracing_subscriber::subscribe::layered::Layered", COLLECT, "drop_span"): "calls try_close",
    ("tracing_subscriber::field::debug::Alt", "tracing_core::field::Visit", "record_debug"): "its purpose: re-renders the value with {:#?} before handing it on",
    ("tracing_subscriber::field::display::Messages", "tracing_core::field::Visit", "record_str"): "its purpose: the `message` field is handed on as Display text through record_debug",
}


def head(ty):
    """`a::b::T<X, Y>` -> `a::b::T`"""
    depth = 0
    for i, ch in enumerate(ty):
        if ch == "<" and i > 0:
            return ty[:i]
    return ty


def run(ck):
    F = Facts("default")
    ck.configs.append("default")
    ck.explanation = (
        "Static forwarding analysis over the type-checked program (rustc MIR, all impls of Collect/Subscribe/"
        "Filter in the workspace): a wrapper impl is one whose method bodies call the same trait on a wrapped "
        "value. R1: every defaulted trait method is overridden in every wrapper (a missing override silently "
        "swallows that notification). R2: every override contains the forwarding call(s) to the same-named "
        "method on each wrapped value, the right number of call sites, arguments passed through positionally. "
        "R3: Layered notifies the inner collector before the layer for span/event notifications and asks the "
        "layer first for enabled/event_enabled. R4: Dispatch::event calls event iff event_enabled. "
        "This decides the code-shape clause of C09, not the run-time delivery counts.")
    ck.assumptions += [
        "calls through `dyn` are an analysis boundary: user-written layers are assumed to be arbitrary",
        "rustc nightly type checker / MIR builder; factgen serialisation",
    ]
    ck.rule("C09.R1", "wrapper impl overrides every defaulted trait method", floor=150)
    ck.rule("C09.R2", "override forwards to the same-named method on each wrapped value, args positional", floor=150)
    ck.rule("C09.R3", "Layered ordering: inner first for notifications, outer first for vetoes", floor=16)
    ck.rule("C09.R4", "Dispatch::event delivers iff event_enabled", floor=1)
    ck.rule("C09.R0", "wrapper impls discovered", floor=18)
    ck.rule("C09.R12", "a collector wrapper that looks spans up in the wrapped collector also lets per-layer filters register with it (register_filter forwarded)", floor=3)
    ck.rule("C09.R11", "an empty Vec of layers is recognised as an absent layer (it answers the none-layer marker exactly when it holds nothing)", floor=2)
    ck.rule("C09.R10", "a close reaches every layer: the registry releases its own references through the owning stack, never by closing itself (as C05.R5)", floor=2)
    ck.rule("C09.R9", "a type that is both a Subscribe and a per-subscriber Filter implements the same hooks in both roles, through the same methods of its own", floor=20)
    ck.rule("C09.R8", "dispatcher registration is announced exactly once: who may call on_register_dispatch (std and no_std)", floor=2)
    ck.rule("C09.R7", "a None layer is transparent for the max-level hint, also after it was swapped in by a reload (as C08.R7)", floor=1)
    ck.rule("C09.R6", "reload::Subscriber takes its lock with a blocking read on every call and forwards under it (as C12.R3)", floor=20)
    ck.rule("C09.R13", "a veto reaches every layer of a Vec: the Vec's published interest never promises more than its `enabled` (= all elements) will allow (as C08.R6)", floor=3)
    ck.rule("C09.R14", "no layer misses a notification because of per-filter state left over from an earlier emission (bitmap typestate, as C07.R5)", floor=100)
    ck.rule("C09.R14s", "effect summaries behind C09.R14 (as C07.R5s)", floor=9)
    ck.rule("C09.R18", "Box and Arc around the registry are transparent to the stack built on them: Layered recognises the Registry behind either (as C08.R12)", floor=2)
    ck.rule("C09.R17", "`is this composite an absent (None) subscriber?` is answered by the conjunction of its parts: a tree, a stack or a Vec holding one real "
            "subscriber next to a None is present (its hint, interest and per-subscriber-filter status count)", floor=3)
    ck.rule("C09.R16", "an absent optional layer is absent: with None, enabled / event_enabled answer true and register_callsite answers always, so it vetoes "
            "nothing the rest of the stack wants (its hint OFF is corrected at composition, C08.R6)", floor=3)
    ck.rule("C09.R15", "stack construction wires what the call says: and_then / with_collector / with_filter / boxed build their wrapper from (new layer, what it goes on top of) in that order, and with_collector lets the layer see the collector first (on_subscribe)", floor=4)
    ck.rule("C09.R5", "Layered::pick_interest asks the inner value on every path except the outer `never` veto", floor=1)

    wrapper_rules(ck, F)

    check_dispatch_event(ck, F)
    dispatch_forwarding(ck, F)
    check_pick_interest(ck, F)
    layered_drop_span(ck, F)
    composition_constructors(ck, F)
    option_none_neutral(ck, F)
    none_marker_conjunction(ck, F)
    from rules import C08 as _C08b
    _C08b.inner_is_registry_rule(ck, F, rid="C09.R18")
    from rules import C07 as _C07
    _C07.r5(ck, Facts("release"), rid="C09.R14")
    from rules import C08 as _C08
    _C08.r6(ck, F, rid="C09.R13")
    role_agreement(ck, F)
    # reload::Subscriber forwards only after taking its lock: a non-blocking try_read that gives up while a reload is in
    # progress silently drops the notification for the wrapped layer (C12.R3's per-call blocking lock rule, instantiated)
    from rules import C12
    C12.r3(ck, F, rid="C09.R6")
    # a None layer must be as good as an absent one also for the level hint, evaluated on the live layers (C08.R7)
    from rules import C08
    C08.r7(ck, F, rid="C09.R7")
    # on_close is produced by Layered::try_close only: a reference the registry drops by calling itself closes the span
    # without telling any layer (C05.R5, instantiated; its two recorded findings apply to this property as well)
    from rules import C05
    C05.r5(ck, F, rid="C09.R10")
    empty_vec_is_absent(ck, F)
    lookup_wrappers_register_filters(ck, F)
    # a dispatcher's registration is announced once: by the callsite registry when the Dispatch is created, and by nobody else
    # (wrappers forwarding the same call to their wrapped value excepted)
    for cfgname, FF in (("", F), ("[nostd-core]", Facts("nostd-core"))):
        if cfgname:
            ck.configs.append("nostd-core")
        sites = []
        for x, bb, t in FF.callers().get(COLLECT + "::on_register_dispatch", []):
            fwd = x.trait == COLLECT and x.name == "on_register_dispatch"
            sites.append((x.path, fwd))
        origin = sorted(p for p, fwd in sites if not fwd)
        want = ["tracing_core::callsite::inner::register_dispatch"]
        key = "on_register_dispatch originates exactly in callsite::register_dispatch" + cfgname
        if origin == want:
            ck.ok("C09.R8", key, detail="%d forwarding sites in wrappers" % sum(1 for p, f in sites if f))
        elif not origin:
            ck.bad("C09.R8", key, "tracing_core::callsite", "in this build configuration nothing ever calls Collect::on_register_dispatch: no collector (and no layer behind one) is told about its Dispatch")
        else:
            ck.bad("C09.R8", key, str(origin),
                   "Collect::on_register_dispatch is invoked (not merely forwarded) from %s: every layer of a stack installed that way is told about the same dispatcher more than once" % origin)


def lookup_wrappers_register_filters(ck, F, rid="C09.R12"):
    """`.with(layer.with_filter(f))` asks the collector below for a filter id (LookupSpan::register_filter). The trait's
    default panics ("does not currently support filters"), so a wrapper whose span_data forwards to a wrapped collector
    (Box, Arc, Layered, fmt::Collector) must forward register_filter too, or the wrapped stack stops accepting filtered
    layers -- wrapping would change what can be observed."""
    LS = "tracing_subscriber::registry::LookupSpan"
    n = 0
    for imp in F.impls_of(LS):
        sd = imp["methods"].get("span_data")
        b = F.body(sd) if sd else None
        if b is None:
            continue
        fwd = [t for bb, t in b.calls() if t["callee"].get("trait") == LS and t["callee"].get("method") == "span_data"]
        if not fwd:
            continue        # a real store (the Registry), not a wrapper
        n += 1
        key = "LookupSpan for %s forwards register_filter" % imp["self_ty"]
        rf = imp["methods"].get("register_filter")
        rb = F.body(rf) if rf else None
        if rb is not None and any(t["callee"].get("trait") == LS and t["callee"].get("method") == "register_filter" for bb, t in rb.calls()):
            ck.ok(rid, key, fn=rf)
        else:
            ck.bad(rid, key, imp["span"], "span_data is forwarded to the wrapped collector but register_filter is not: adding a per-layer-filtered layer on top of this "
                   "wrapper panics in the trait's default, although the same stack without the wrapper accepts it")
    if n < 3:
        ck.bad(rid, "LookupSpan wrappers found", LS, "only %d forwarding impls of LookupSpan seen (expected Box, Arc, Layered, fmt::Collector)" % n)


def empty_vec_is_absent(ck, F, rid="C09.R11"):
    """`Vec<S>::max_level_hint` is Some(OFF) for an empty vector ("nothing here wants anything"). Layered only keeps such a
    hint from disabling the layers around it for values that answer the crate-private none-layer marker in downcast_raw
    (Option::None does). So Vec::downcast_raw must hand out that marker when -- and only when -- the vector is empty."""
    from rulekit.sym import PathEval, show
    b = F.impl_method(SUBSCRIBE, "alloc::vec::Vec<S>", "downcast_raw")
    hint = F.impl_method(SUBSCRIBE, "alloc::vec::Vec<S>", "max_level_hint")
    if not (ck.anchor(rid, "Vec<S>::downcast_raw", b) and ck.anchor(rid, "Vec<S>::max_level_hint", hint)):
        return
    # does an empty vector report a hint at all? (if it reported None there would be nothing to neutralise)
    off_when_empty = any(p.end == "return" and "OFF" in show(p.ret) for p in PathEval(hint).run())
    marker_paths, bad = [], []
    for p in PathEval(b).run():
        if p.end != "return" or "NONE_LAYER_MARKER" not in show(p.ret):
            continue
        asks_marker = asks_empty = False
        for c in p.conds:
            t, v = c[0], c[1]
            if t[0] == "call" and t[1].endswith("PartialEq::eq") and v != 0:
                for a in t[2]:
                    if a[0] == "call" and a[1] == "core::any::TypeId::of" and "NoneLayerMarker" in " ".join(b.term(a[3])["callee"].get("targs", [])):
                        asks_marker = True
            if t[0] == "call" and t[1].rsplit("::", 1)[-1] in ("is_empty", "all") and v != 0:
                asks_empty = True
            # the same as a loop: the marker is answered when the iteration over the elements is exhausted (no element left
            # that is present; an empty Vec is exhausted at once)
            if t[0] == "discr" and show(t).startswith("discr(next(") and v == 0:
                asks_empty = True
            if t[0] == "bin" and t[1] in ("Eq",) and "len(" in show(t) and v != 0:
                asks_empty = True
        marker_paths.append(p)
        if not (asks_marker and asks_empty):
            bad.append([(show(c[0])[:60], c[1]) for c in p.conds])
    key = "Vec<S>::downcast_raw answers the none-layer marker when the vector is empty"
    if not off_when_empty:
        ck.ok(rid, key, fn=b.path, detail="an empty Vec reports no OFF hint: nothing to neutralise")
    elif marker_paths:
        ck.ok(rid, key, fn=b.path)
    else:
        ck.bad(rid, key, where(b.raw["sp"]), "an empty Vec reports max_level_hint = Some(OFF) and is not recognised as an absent layer: placed above or below a layer "
               "without a hint, Layered::pick_level_hint returns Some(OFF) for the stack and every span and event is disabled", fn=b.path)
    key = "Vec<S>::downcast_raw answers the none-layer marker only when asked for it and only when empty"
    if bad:
        ck.bad(rid, key, where(b.raw["sp"]), "the marker is returned under %s" % bad[:2], fn=b.path)
    else:
        ck.ok(rid, key, fn=b.path)


RIDS = {"R0": "C09.R0", "R1": "C09.R1", "R2": "C09.R2", "R3": "C09.R3"}


FILTER_TWIN = {"register_callsite": "callsite_enabled"}     # Subscribe hook -> its name in the Filter trait


def role_agreement(ck, F, rid="C09.R9", only=None):
    """Sibling agreement between `impl Subscribe<C> for T` and `impl Filter<C> for T` (EnvFilter, Targets, LevelFilter,
    FilterFn, DynFilterFn, reload::Subscriber): a hook that exists in both traits is overridden in both impls or in
    neither -- the traits' defaults do nothing, so a hook implemented in one role only makes the type behave differently
    as a global filter and as a per-subscriber filter -- and both overrides reach the same inherent methods of T."""
    S, FI = "tracing_subscriber::subscribe::Subscribe", "tracing_subscriber::subscribe::Filter"
    sub = {i["self_ty"]: i for i in F.impls_of(S)}
    fil = {i["self_ty"]: i for i in F.impls_of(FI)}
    ftrait = F.traits.get(FI)
    if not ck.anchor(rid, "trait Filter", ftrait):
        return
    fnames = {m["name"] for m in ftrait["methods"]}

    def own(b, ty):
        base = ty.split("<")[0]
        out = set()
        for x in [b] + F.closures_of(b):
            for bb, t in x.calls():
                c = t["callee"]
                p = c.get("resolved") or c.get("path") or ""
                if p.startswith(base + "::") and not c.get("trait"):
                    out.add(p.rsplit("::", 1)[1])
                elif c.get("trait") in (S, FI):
                    out.add("<inner>::" + FILTER_TWIN.get(c.get("method"), c.get("method") or "?"))
        return out
    for ty in sorted(set(sub) & set(fil)):
        if only and not any(o in ty for o in only):
            continue
        sm, fm = sub[ty]["methods"], fil[ty]["methods"]
        for m in sorted(fnames):
            sname = next((k for k in sm if FILTER_TWIN.get(k, k) == m), None)
            if sname is None and m not in fm:
                continue
            key = "%s: %s as a layer and as a per-subscriber filter" % (ty.rsplit("::", 1)[-1].split("<")[0], m)
            if sname is None or m not in fm:
                have = fm.get(m) or sm.get(sname)
                b = F.body(have)
                ck.bad(rid, key, where(b.raw["sp"]) if b else ty, "implemented only in the %s role; the other trait's default does nothing"
                       % ("Filter" if sname is None else "Subscribe"), fn=have)
                continue
            a, b = F.body(sm[sname]), F.body(fm[m])
            if not (ck.anchor(rid, sm[sname], a) and ck.anchor(rid, fm[m], b)):
                continue
            oa, ob = own(a, ty), own(b, ty)
            if oa == ob:
                ck.ok(rid, key, fn=b.path, detail=sorted(oa))
            else:
                ck.bad(rid, key, where(b.raw["sp"]), "Subscribe::%s goes through %s but Filter::%s through %s" % (sname, sorted(oa), m, sorted(ob)), fn=b.path)


def wrapper_rules(ck, F, rids=None, traits=None, only=None):
    """R0/R1/R2 over the wrapper impls of `traits` (default: all three), optionally restricted to the methods in `only`;
    `rids` lets another property instantiate the same rules under its own rule id."""
    global RIDS
    saved = RIDS
    RIDS = dict(saved, **(rids or {}))
    try:
        _wrapper_rules(ck, F, traits or TRAITS, only)
    finally:
        RIDS = saved


def _wrapper_rules(ck, F, TRAITS, only):
    wrappers = []
    for tr in TRAITS:
        t = F.traits.get(tr)
        if not ck.anchor(RIDS["R0"], tr, t):
            continue
        for imp in F.impls_of(tr):
            fwd = forwarding_methods(F, imp, tr)
            if len(fwd) >= 2:
                wrappers.append((tr, imp, fwd))
                ck.ok(RIDS["R0"], "%s for %s" % (short(tr), imp["self_ty"]), nontrivial=False)

    for tr, imp, fwd in wrappers:
        t = F.traits[tr]
        hd = head(imp["self_ty"])
        iname = "%s for %s" % (short(tr), imp["self_ty"])
        for m in t["methods"]:
            name = m["name"]
            if (tr, name) in GLOBAL_EXEMPT or (only is not None and name not in only):
                continue
            if m["has_default"]:
                if name in imp["methods"]:
                    ck.ok(RIDS["R1"], "%s::%s" % (iname, name), fn=imp["methods"][name])
                else:
                    ck.bad(RIDS["R1"], "%s::%s" % (iname, name), imp["span"],
                           "wrapper does not override defaulted method `%s`: the wrapped value never sees it" % name)
            if name not in imp["methods"]:
                continue
            if name == "downcast_raw":
                check_downcast(ck, F, tr, imp, iname)      # about type identity, not a notification
                continue
            if (hd, tr, name) in SHAPE_EXEMPT:
                continue
            check_forwarding(ck, F, tr, imp, iname, m)



def check_downcast(ck, F, tr, imp, iname):
    """downcast_raw: a pointer to the wrapper itself (or to the crate's none-layer marker) is handed out exactly for the
    TypeId it stands for; every other id goes on to the wrapped value(s)."""
    from rulekit.sym import PathEval, show
    name = "downcast_raw"
    path = imp["methods"][name]
    top = F.body(path)
    key = "%s::%s" % (iname, name)
    hd = head(imp["self_ty"])
    if top is None:
        return
    problems = []

    def asked_for(pth):
        out = []
        for c in pth.conds:
            t = c[0]
            if t[0] == "call" and t[1].endswith("PartialEq::eq") and c[1] != 0:
                for a in t[2]:
                    if a[0] == "call" and a[1] == "core::any::TypeId::of":
                        out += top.term(a[3])["callee"].get("targs", [])
        return out
    gave_self = False
    for pth in PathEval(top).run():
        if pth.end != "return" or pth.ret is None:
            continue
        r = show(pth.ret)
        if "cast(from(arg1))" in r:
            gave_self = True
            if not any(x in ("Self", imp["self_ty"]) or x.split("<")[0] == imp["self_ty"].split("<")[0] for x in asked_for(pth)):
                problems.append("a pointer to the wrapper is returned on a path that did not establish id == TypeId::of::<Self>() (asked for: %s)" % asked_for(pth))
        elif "NONE_LAYER_MARKER" in r:
            if not any("NoneLayerMarker" in x for x in asked_for(pth)):
                problems.append("the none-layer marker is returned on a path that did not establish id == TypeId::of::<NoneLayerMarker>()")
    if hd == "tracing_subscriber::reload::Subscriber":
        # a pointer into the lock would dangle: only the never-dereferenced none-layer marker may be looked up inside
        psf_forwarded = False
        for pth in PathEval(top).run():
            if pth.end != "return" or not any(c[1].get("method") == "downcast_raw" for c in pth.calls):
                continue
            psf = any(show(c[0]).startswith("is_psf_downcast_marker(") and c[1] != 0 for c in pth.conds)
            psf_forwarded = psf_forwarded or psf
            if not psf and not any("NoneLayerMarker" in x for x in asked_for(pth)):
                problems.append("the wrapped value is asked for a pointer on a path that established neither id == TypeId::of::<NoneLayerMarker>() nor the per-layer-filter marker")
        # ... and the per-layer-filter marker must get through: the Layered around a reloadable Filtered layer has to know
        # that the layer's hint and interest are its own business, or it publishes them for the whole stack
        has_psf_code = any(b_.path.endswith("subscriber_filters::is_psf_downcast_marker") for b_ in F.body_list)
        if has_psf_code and not psf_forwarded:
            problems.append("the per-layer-filter marker is not forwarded to the wrapped value: a reloadable filtered layer's max level hint is taken for a global one "
                            "and its unfiltered neighbours lose the events above it")
    if problems:
        ck.bad(RIDS["R2"], key, where(top.raw["sp"]), "; ".join(sorted(set(problems))), fn=path)
    else:
        ck.ok(RIDS["R2"], key, fn=path, detail="self pointer only for TypeId::of::<Self>()")


def short(tr):
    return tr.rsplit("::", 1)[1]


def bodies_of(F, path):
    b = F.body(path)
    if b is None:
        return []
    return [b] + F.closures_of(b)


def forwarding_methods(F, imp, tr):
    out = set()
    for name, path in imp["methods"].items():
        for b in bodies_of(F, path):
            for bb, t in b.calls():
                c = t["callee"]
                if c.get("trait") == tr and c.get("method") == name and c.get("self_ty") != imp["self_ty"]:
                    out.add(name)
    return out


def receiver_key(body, t):
    """Which wrapped value a forwarding call is made on: field path of self, closure param, ..."""
    if not t["argv"]:
        return "?"
    o = body.origin(t["argv"][0])
    if o[0] == "arg":
        names = [n for n in proj_names(o[2]) if not n.startswith("as ")]
        if o[1] == 1 and body.kind == "method":
            return "self" + "".join("." + n for n in names)
        if body.kind == "closure" and o[1] == 1:
            # captured variable (edition 2018: whole `self` is captured)
            if names and names[0] == "self":
                return ".".join(names)
            return "captured " + ".".join(names) if names else "closure-env"
        return "param%d" % o[1] + "".join("." + n for n in names)
    if o[0] == "call":
        c = o[2]["callee"]
        return "call:" + (c.get("method") or c.get("path", "?"))
    return o[0]


def param_names(body):
    names = {}
    for v in body.raw.get("vars", []):
        pl = v.get("place")
        if pl and "p" not in pl and 1 <= pl["l"] <= body.argc:
            names[pl["l"]] = v["name"]
    return names


def arg_source(F, body, op, depth=0):
    """Set of outer-method parameter names an operand derives from (through refs, clones, with_filter...)."""
    if "const" in op:
        return {"<const>"}
    o = body.origin(op)
    kind = o[0]
    if kind == "arg":
        if body.kind in ("closure", "coroutine") and o[1] == 1:
            names = [n for n in proj_names(o[2]) if not n.startswith("as ")]
            return {names[0]} if names else {"<env>"}
        if body.kind in ("closure", "coroutine"):
            return {"<closure-param%d>" % o[1]}
        return {param_names(body).get(o[1], "_%d" % o[1])}
    if kind == "call" and depth < 6:
        out = set()
        for a in o[2]["argv"]:
            out |= arg_source(F, body, a, depth + 1)
        return out or {"<call>"}
    if kind == "multi":
        # e.g. `id` assigned on several paths: union of sources of all defs
        out = set()
        for d in body.defs().get(o[1], []):
            if d[0] == "stmt":
                rv = d[3]
                for key in ("use",):
                    if key in rv:
                        out |= arg_source(F, body, rv[key], depth + 1)
                if "ref" in rv:
                    out |= arg_source(F, body, {"copy": rv["ref"]}, depth + 1)
            elif d[0] == "call" and depth < 6:
                for a in d[2]["argv"]:
                    out |= arg_source(F, body, a, depth + 1)
        return out or {"<multi>"}
    return {"<%s>" % kind}


LAYERED_UNCONDITIONAL = {"on_register_dispatch", "on_subscribe", "on_new_span", "on_record", "on_follows_from", "on_event", "on_enter", "on_exit",
                         "on_close", "on_id_change", "new_span", "record", "record_follows_from", "event", "enter", "exit", "clone_span"}


def check_forwarding(ck, F, tr, imp, iname, m):
    name = m["name"]
    path = imp["methods"][name]
    top = F.body(path)
    key = "%s::%s" % (iname, name)
    if top is None:
        ck.bad(RIDS["R2"], key, imp["span"], "no MIR body for override")
        return
    hd = head(imp["self_ty"])
    bodies = bodies_of(F, path)
    # forwarding calls: same trait + same name; for Collect-on-Layered also the Subscribe notification;
    # for Subscribe-on-Filtered also the Filter hook of the same name.
    want = {(tr, name)}
    if tr == COLLECT and hd.endswith("::Layered") and name in COLLECT_TO_SUBSCRIBE:
        want.add((SUBSCRIBE, COLLECT_TO_SUBSCRIBE[name]))
    fwd = []
    for b in bodies:
        for bb, t in b.calls():
            c = t["callee"]
            if (c.get("trait"), c.get("method")) in want and c.get("self_ty") != imp["self_ty"]:
                fwd.append((b, bb, t))
    if not fwd:
        ck.bad(RIDS["R2"], key, where(top.raw["sp"]),
               "override of `%s` contains no call to `%s` on a wrapped value" % (name, name), fn=path)
        return
    # group by receiver
    by_recv = {}
    for b, bb, t in fwd:
        by_recv.setdefault((t["callee"]["trait"], receiver_key(b, t)), []).append((b, bb, t))
    problems = []
    # exactly one call site per wrapped value
    for (ctr, recv), sites in by_recv.items():
        if len(sites) != 1:
            problems.append("%d call sites of `%s` on %s (expected exactly 1)" % (len(sites), sites[0][2]["callee"]["method"], recv))
    # wrappers around two values must forward to both
    if tr == COLLECT and hd.endswith("::Layered") and name in COLLECT_TO_SUBSCRIBE and name != "current_span":
        recvs = {r for (_, r) in by_recv}
        for need in ("self.inner", "self.subscriber"):
            if need not in recvs:
                problems.append("no forwarding call on %s" % need)
    if tr == SUBSCRIBE and hd.endswith("::Layered"):
        recvs = {r for (_, r) in by_recv}
        for need in ("self.inner", "self.subscriber"):
            if need not in recvs:
                problems.append("no forwarding call on %s" % need)
    if tr == FILTER and (hd.endswith("::And") or hd.endswith("::Or")):
        recvs = {r for (_, r) in by_recv}
        for need in ("self.a", "self.b"):
            if need not in recvs:
                problems.append("no forwarding call on %s" % need)
    # positional pass-through of arguments
    pnames = param_names(top)
    for b, bb, t in fwd:
        c = t["callee"]
        same_sig = (c["trait"] == tr)
        argv = t["argv"]
        for k in range(1, len(argv)):
            src = arg_source(F, b, argv[k])
            if same_sig:
                expect = pnames.get(k + 1)
            else:
                # Collect -> Subscribe: same leading params, plus a trailing ctx built from self
                expect = pnames.get(k + 1)
                if expect is None:
                    continue
            if expect is None:
                continue
            if name == "clone_span" and c["trait"] == SUBSCRIBE:
                continue  # on_id_change(old, &new, ctx): second arg is the inner result
            if name == "new_span" and c["trait"] == SUBSCRIBE and k == 2:
                continue  # on_new_span(attrs, &id, ctx): id is the inner result
            if expect not in src:
                # by-value ids may be cloned: id.clone() -> source is still `id`; anything else is a mismatch
                problems.append("argument %d of forwarded `%s` derives from %s, expected parameter `%s`"
                                % (k, c["method"], sorted(src), expect))
    # bypass: Box/Arc wrappers must reach the forwarding call on every path to return
    if hd in ("alloc::boxed::Box", "alloc::sync::Arc") and len(fwd) == 1 and fwd[0][0] is top:
        fb = fwd[0][1]
        if not top.postdominates(fb, 0):
            problems.append("a path returns without reaching the forwarding call")
    # Layered: plain notifications reach both halves on every path (only the verdict methods may short-circuit)
    if hd.endswith("::Layered") and name in LAYERED_UNCONDITIONAL:
        for b, bb, t in fwd:
            if name == "clone_span" and t["callee"]["trait"] == SUBSCRIBE:
                # on_id_change is by design sent only when the inner collector returned a different id -- exactly then
                from rulekit.query import guards_of as _g
                gs, _ = _g(top, bb)
                differs = [(x, v) for x, v in gs if (x.startswith("ne(clone_span(") and v != 0) or (x.startswith("eq(clone_span(") and v == 0)]
                other = [(x, v) for x, v in gs if x not in ("0", "1") and (x, v) not in differs]
                if not differs or other:
                    problems.append("on_id_change is not sent exactly when the inner collector returned a different id (guards: %s)" % sorted(x[:60] for x, v in gs))
                continue
            if b is top and not top.postdominates(bb, 0):
                problems.append("`%s` is forwarded to %s only on some paths" % (t["callee"]["method"], receiver_key(b, t)))
    # Layered::try_close turns "the inner collector says this was the last reference" into the layer's on_close: that
    # verdict is the *only* thing on_close may depend on (not unwinding, not the close guard being available, ...)
    if tr == COLLECT and hd.endswith("::Layered") and name == "try_close":
        from rulekit.query import guards_of
        for b, bb, t in fwd:
            if t["callee"]["trait"] != SUBSCRIBE or b is not top:
                continue
            g, _ = guards_of(top, bb)
            extra = [x for x, v in g if not x.startswith("try_close(") and x not in ("0", "1")]
            verdict = [x for x, v in g if x.startswith("try_close(") and v != 0]
            if extra or not verdict:
                problems.append("on_close depends on %s besides the inner collector's verdict: a close the registry performs is not reported to the layer"
                                % ([x[:50] for x in extra] or "nothing"))
    # any wrapper: a notification (a method returning `()`) may be withheld only for a reason found in the wrapper's own
    # state -- the Option is None, the Vec is exhausted, the filter said no, the lock is poisoned. A path that returns
    # without forwarding and without having looked at `self` at all drops the notification for an unrelated reason.
    # (the same for a method that answers a question: an answer that is neither the wrapped value's nor chosen by looking at
    # the wrapper's own state -- `if panicking() { return None }` -- is a made-up one)
    if top.raw.get("locals") and all(b is top for b, bb, t in fwd) and name != "on_subscribe":
        from rulekit.sym import PathEval, show
        fbs = {bb for b, bb, t in fwd}
        try:
            paths = PathEval(top, max_paths=4000).run()
        except TypeError:
            paths = PathEval(top).run()
        for pth in paths:
            if pth.end != "return" or fbs & set(pth.blocks):
                continue
            if not any("arg1" in show(c[0]) for c in pth.conds):
                problems.append("a path returns without forwarding `%s` and without consulting the wrapper's own state (conditions: %s)"
                                % (name, [show(c[0])[:40] for c in pth.conds][:3]))
                break
    if problems:
        ck.bad(RIDS["R2"], key, where(top.raw["sp"]), "; ".join(problems), fn=path)
    else:
        ck.ok(RIDS["R2"], key, fn=path,
              detail=dict(forwards=[dict(on=r, method=s[0][2]["callee"]["method"], trait=short(t_)) for (t_, r), s in by_recv.items()]))
    # R3 ordering for Layered
    if hd.endswith("::Layered") and (tr == COLLECT or tr == SUBSCRIBE):
        check_order(ck, top, by_recv, key, name, tr)


def check_order(ck, top, by_recv, key, name, tr):
    inner = [s for (t_, r), ss in by_recv.items() if r == "self.inner" for s in ss]
    outer = [s for (t_, r), ss in by_recv.items() if r == "self.subscriber" for s in ss]
    if len(inner) != 1 or len(outer) != 1:
        return
    ib, ibb, _ = inner[0]
    ob, obb, _ = outer[0]
    if name in INNER_FIRST:
        if ib is top and ob is top:
            if top.dominates(ibb, obb) and ibb != obb:
                ck.ok(RIDS["R3"], key, detail=dict(order="inner bb%d dominates layer bb%d" % (ibb, obb)))
            else:
                ck.bad(RIDS["R3"], key, where(top.raw["sp"]),
                       "the layer is notified of `%s` without the inner value having been notified first" % name)
        else:
            ck.bad(RIDS["R3"], key, where(top.raw["sp"]), "unrecognised shape: forwarding calls in different bodies")
    elif name in OUTER_FIRST_VETO:
        if ib is top and ob is top and top.dominates(obb, ibb) and ibb != obb:
            # inner must be control-dependent on the outer's verdict: a path from outer to return avoiding inner exists
            reach = top.reachable(obb, avoid=[ibb])
            # ... with the right polarity: the layer's `false` is the veto (returns false without asking), its `true` hands
            # the decision to the inner value
            from rulekit.sym import PathEval, show
            wrong = []
            for pth in PathEval(top).run():
                if pth.end != "return" or pth.ret is None:
                    continue
                verdicts = [c[1] for c in pth.conds if c[0][0] == "call" and c[0][3] == obb]
                if not verdicts:
                    continue
                asked_inner = ibb in pth.blocks
                if verdicts[0] == 0 and (asked_inner or show(pth.ret) not in ("0", "false")):
                    wrong.append("the layer said no, yet the result is %s%s" % (show(pth.ret)[:40], " and the inner value was asked" if asked_inner else ""))
                if verdicts[0] != 0 and not asked_inner:
                    wrong.append("the layer said yes, but the inner value is not asked (result %s)" % show(pth.ret)[:40])
            if wrong:
                ck.bad(RIDS["R3"], key, where(top.raw["sp"]), "; ".join(sorted(set(wrong))))
            elif any(e in reach for e in top.exits()):
                ck.ok(RIDS["R3"], key, detail=dict(order="layer bb%d asked first; inner bb%d conditional" % (obb, ibb)))
            else:
                ck.bad(RIDS["R3"], key, where(top.raw["sp"]), "a veto from the layer does not skip the inner value")
        else:
            ck.bad(RIDS["R3"], key, where(top.raw["sp"]), "`%s`: the outer layer must be asked first and may veto" % name)


def check_dispatch_event(ck, F):
    b = F.body("tracing_core::dispatch::Dispatch::event")
    if not ck.anchor("C09.R4", "tracing_core::dispatch::Dispatch::event", b):
        return
    ee = [(bb, t) for bb, t in b.calls() if t["callee"].get("method") == "event_enabled" and t["callee"].get("trait") == COLLECT]
    ev = [(bb, t) for bb, t in b.calls() if t["callee"].get("method") == "event" and t["callee"].get("trait") == COLLECT]
    if len(ee) != 1 or len(ev) != 1:
        ck.bad("C09.R4", "Dispatch::event", where(b.raw["sp"]), "expected exactly one event_enabled and one event call")
        return
    eb, evb = ee[0][0], ev[0][0]
    sw = b.term(ee[0][1]["ret"])
    ok = b.dominates(eb, evb) and sw["k"] == "switch" and b.origin(sw["on"])[0] == "call" and b.origin(sw["on"])[1] == eb
    if ok:
        # true edge leads to event, false edge must not
        false_bb = [a[1] for a in sw["arms"] if a[0] == 0]
        ok = bool(false_bb) and evb not in b.reachable(false_bb[0])
        ok = ok and evb in b.reachable(sw["otherwise"])
    if ok:
        ck.ok("C09.R4", "Dispatch::event", detail="event() is control-dependent on event_enabled()==true and reached on that edge")
    else:
        ck.bad("C09.R4", "Dispatch::event", where(b.raw["sp"]), "event() is not exactly guarded by event_enabled()")


def check_pick_interest(ck, F, rid="C09.R5"):
    """register_callsite is forwarded to the inner value through the `inner` closure handed to pick_interest:
    that closure must be called exactly once on every path, except where the outer layer answered `never`
    (the documented veto)."""
    from rulekit.sym import PathEval, show
    b = F.body("tracing_subscriber::subscribe::layered::Layered::<A, B, C>::pick_interest")
    if not ck.anchor(rid, "Layered::pick_interest", b):
        return
    problems = []
    n = 0
    for p in PathEval(b).run():
        if p.end != "return":
            continue
        n += 1
        calls = sum(1 for c in p.calls if c[1].get("method") == "call_once" and c[2] and c[2][0] == ("arg", 3))
        never = any(c[0][0] == "call" and c[0][1].endswith("Interest::is_never") and c[0][2] == (("arg", 2),) and c[1] != 0 for c in p.conds)
        if calls > 1:
            problems.append("the inner value is asked %d times on one path" % calls)
        elif calls == 0 and not never:
            problems.append("a path returns %s without asking the inner value although the outer layer did not answer `never` (conditions: %s)"
                            % (show(p.ret), [(show(c[0]), c[1]) for c in p.conds if c[0][0] != "const"]))
    if problems or not n:
        ck.bad(rid, "pick_interest: inner asked exactly once unless outer is never", where(b.raw["sp"]), "; ".join(sorted(set(problems))) or "no paths", fn=b.path)
    else:
        ck.ok(rid, "pick_interest: inner asked exactly once unless outer is never", fn=b.path, detail="%d return paths" % n)


def layered_drop_span(ck, F, rid="C09.R2"):
    """The deprecated Collect::drop_span is still what Dispatch/Box/Arc forward when an old-style caller drops an id: on
    a Layered stack it has to be a close like any other -- the stack's own try_close (inner try_close, then the layer's
    on_close), on every path."""
    b = F.impl_method(COLLECT, "tracing_subscriber::subscribe::layered::Layered", "drop_span")
    key = "Layered::drop_span closes through the stack's try_close"
    if not ck.anchor(rid, "Layered::drop_span", b):
        return
    tc = [bb for bb, t in b.calls() if t["callee"].get("method") == "try_close" and b.origin(t["argv"][0])[0] == "arg"]
    if len(tc) == 1 and b.postdominates(tc[0], 0):
        ck.ok(rid, key, fn=b.path)
    else:
        ck.bad(rid, key, where(b.raw["sp"]), "drop_span does not reach self.try_close on every path: an id dropped through the deprecated entry point "
               "(Box/Arc/Dispatch forward it) never closes -- no layer sees on_close and the registry keeps the span", fn=b.path)


DISPATCH_FWD = ("enter", "exit", "new_span", "record", "record_follows_from", "clone_span", "try_close", "drop_span", "enabled",
                "register_callsite", "max_level_hint", "current_span")


def dispatch_forwarding(ck, F, rid="C09.R4", only=None):
    """`Dispatch` is the handle every macro and span talks to. Each of its notification / query methods is the same-named
    `Collect` method on `self.collector()`: called exactly once on every path, with the caller's arguments in order, and
    its answer is what the method returns."""
    from rulekit.sym import PathEval, show
    D = "tracing_core::dispatch::Dispatch::"
    for m in DISPATCH_FWD:
        if only and m not in only:
            continue
        b = F.body(D + m)
        key = "Dispatch::%s is Collect::%s on its own collector" % (m, m)
        if not ck.anchor(rid, "Dispatch::" + m, b):
            continue
        problems = []
        n = 0
        for pth in PathEval(b).run():
            if pth.end != "return":
                continue
            n += 1
            cs = [c for c in pth.calls if c[1].get("trait") == COLLECT]
            if len(cs) != 1 or cs[0][1].get("method") != m:
                problems.append("a path makes the Collect calls %s" % [c[1].get("method") for c in cs])
                continue
            args = cs[0][2]
            recv_ok = args and show(args[0]).startswith("collector(arg1")
            rest = [show(a) for a in args[1:]]
            want = ["arg%d" % k for k in range(2, b.argc + 1)]
            if not recv_ok:
                problems.append("the receiver is %s, not self.collector()" % (show(args[0]) if args else "?"))
            if rest != want:
                problems.append("arguments %s, expected %s" % (rest, want))
            if b.locals and b.locals[0] != "()" and not (pth.ret is not None and pth.ret[0] == "call" and pth.ret[1].endswith("::" + m)):
                problems.append("returns %s, not the collector's answer" % show(pth.ret)[:60])
        if problems or not n:
            ck.bad(rid, key, where(b.raw["sp"]), "; ".join(sorted(set(problems))[:3]) or "no returning path", fn=b.path)
        else:
            ck.ok(rid, key, fn=b.path)


def none_marker_conjunction(ck, F, rid="C09.R17"):
    """Layered and Vec forward most downcast_raw queries to `any child that answers`. For the NoneLayerMarker that is wrong:
    `a.and_then(None)` would declare itself absent, its level hint and interest would be discarded by the Layered above it
    and the real subscriber inside would be told nothing."""
    from rulekit.sym import PathEval, show
    SUB = "tracing_subscriber::subscribe::Subscribe"
    impls = [(tr, i) for tr in (SUB, COLLECT) for i in F.impls_of(tr)
             if i["self_ty"].startswith("tracing_subscriber::subscribe::layered::Layered<") or i["self_ty"].startswith("alloc::vec::Vec<")]
    for tr, imp in impls:
        b = F.body(imp["methods"].get("downcast_raw") or "")
        nm = "%s for %s" % (tr.rsplit("::", 1)[-1], imp["self_ty"].split("::")[-1])
        if not ck.anchor(rid, nm + "::downcast_raw", b):
            continue
        key = "%s::downcast_raw: absent only if every part is" % nm
        marks = [bb for bb, t in b.calls() if t["callee"].get("path") == "core::any::TypeId::of" and any("NoneLayerMarker" in x for x in (t["callee"].get("targs") or []))]
        if not marks:
            ck.bad(rid, key, where(b.raw["sp"]), "the none-layer marker is not treated apart: the query is forwarded to any child that answers it, so a composite with one None "
                   "child declares itself absent", fn=b.path)
            continue

        def is_marker_test(c):
            found = []

            def walk(t):
                if isinstance(t, tuple):
                    if t and t[0] == "call" and isinstance(t[-1], int) and t[-1] in marks:
                        found.append(1)
                    for x in t:
                        walk(x)
            # the test `id == TypeId::of::<NoneLayerMarker>()` itself, not a query that merely passes the marker on
            t0 = c[0]
            if not (t0 and t0[0] == "call" and t0[1].rsplit("::", 1)[-1] in ("eq", "ne") and any(a == ("arg", 2) or (a and a[0] in ("field", "cast") and ("arg", 2) in a) for a in t0[2])):
                return False
            walk(t0)
            return bool(found)
        problems, n = [], 0
        for p in PathEval(b).run():
            if p.end != "return" or not any(is_marker_test(c) and c[1] != 0 for c in p.conds):
                continue
            n += 1
            r = p.ret
            txt = show(r)
            if r[0] == "call" and r[1].rsplit("::", 1)[-1] == "and" and all(show(a).startswith("downcast_raw(") for a in r[2]) and \
                    {show(a).split(",")[0] for a in r[2]} == {"downcast_raw(arg1.subscriber", "downcast_raw(arg1.inner"}:
                continue
            if txt.startswith("downcast_raw(arg1.subscriber") and any(show(c[0]) == "arg1.inner_is_registry" and c[1] != 0 for c in p.conds) and tr == COLLECT:
                continue        # directly on the registry: nothing below can be a subscriber
            if imp["self_ty"].startswith("alloc::vec::Vec<"):
                al = [c for c in p.conds if show(c[0]).startswith("all(")]
                if al and ((al[0][1] != 0) == txt.startswith("Option::Some")):
                    continue
                # the loop spelling: `absent` only once the elements are exhausted, `present` as soon as one does not answer
                cs = [(show(c[0]), c[1]) for c in p.conds]
                exhausted = any(t.startswith("discr(next(") and v == 0 for t, v in cs)
                one_present = any((t.startswith("is_none(downcast_raw(") and v != 0) or (t.startswith("is_some(downcast_raw(") and v == 0) or
                                  (t.startswith("discr(downcast_raw(") and v == 0) for t, v in cs)
                if txt.startswith("Option::Some") and exhausted and not one_present:
                    continue
                if txt.startswith("Option::None") and one_present:
                    continue
            problems.append("answers %s" % txt[:90])
        if problems or not n:
            ck.bad(rid, key, where(b.raw["sp"]), "; ".join(sorted(set(problems))) or "the marker test guards no returning path", fn=b.path)
        else:
            ck.ok(rid, key, fn=b.path, detail=n)


def option_none_neutral(ck, F, rid="C09.R16"):
    from rulekit.sym import PathEval, show
    SUB = "tracing_subscriber::subscribe::Subscribe"
    NEUTRAL = {"enabled": ("1",), "event_enabled": ("1",), "register_callsite": ("always()",)}
    imps = [i for i in F.impls_of(SUB) if i["self_ty"].startswith("core::option::Option<")]
    if not ck.anchor(rid, "Subscribe for Option<S>", imps[0] if imps else None):
        return
    for m, neutral in NEUTRAL.items():
        b = F.body(imps[0]["methods"].get(m) or "")
        key = "Subscribe for Option<S>::%s: None answers %s" % (m, neutral[0].replace("1", "true"))
        if not ck.anchor(rid, "Option<S>::" + m, b):
            continue
        bad, decided = [], 0
        for p in PathEval(b).run():
            if p.end != "return" or p.ret is None:
                continue
            r = p.ret
            txt = show(r)
            if r[0] == "call" and r[1].rsplit("::", 1)[-1] == m:
                continue                                    # the Some arm: forwarded
            if r[0] == "call" and r[1].rsplit("::", 1)[-1] in ("map_or", "unwrap_or", "map_or_else", "unwrap_or_else", "is_none_or"):
                # combinator spelling: the default operand is the None answer
                dflt = [show(a) for a in r[2][1:]]
                if r[1].endswith("is_none_or") and m != "register_callsite":
                    decided += 1
                    continue
                if any(d in neutral or d.endswith("Interest::always") for d in dflt):
                    decided += 1
                elif any(d in ("0", "never()", "sometimes()") or d.endswith("Interest::never") or d.endswith("Interest::sometimes") for d in dflt):
                    bad.append("None answers %s" % dflt)
                continue
            decided += 1
            if txt not in neutral:
                bad.append("a path that does not ask the inner layer answers %s" % txt[:60])
        if bad:
            ck.bad(rid, key, where(b.raw["sp"]), "; ".join(sorted(set(bad))) + ": the placeholder vetoes (or forces re-asking for) what every other layer of the stack wants", fn=b.path)
        else:
            ck.ok(rid, key, fn=b.path, detail="%d deciding path(s)" % decided, nontrivial=bool(decided))


def composition_constructors(ck, F, rid="C09.R15"):
    from rulekit.sym import PathEval, show
    S = SUBSCRIBE + "::"
    want = {
        "and_then": ("Layered", ["arg2", "arg1"], "the added subscriber goes on top of self"),
        "with_collector": ("Layered", ["arg1", "arg2"], "self goes on top of the collector"),
        "with_filter": ("Filtered", ["arg1", "arg2"], "self is wrapped with the filter"),
    }
    for m, (ty, args, why) in want.items():
        b = F.body(S + m)
        key = "Subscribe::%s builds %s::new(%s): %s" % (m, ty, ", ".join(args), why)
        if not ck.anchor(rid, "Subscribe::" + m, b):
            continue
        rets = [p.ret for p in PathEval(b).run() if p.end == "return"]
        ok = len(rets) == 1 and rets[0][0] == "call" and rets[0][1].endswith("::new") and (ty + "::") in rets[0][1] and [show(a) for a in rets[0][2][:2]] == args
        if ok and m == "with_collector":
            ons = [bb for bb, t in b.calls() if t["callee"].get("method") == "on_subscribe"]
            news = [bb for bb, t in b.calls() if (t["callee"].get("path") or "").endswith("Layered::<A, B, C>::new")]
            ok = len(ons) == 1 and len(news) == 1 and b.dominates(ons[0], news[0])
        if ok:
            ck.ok(rid, key, fn=b.path)
        else:
            ck.bad(rid, key, where(b.raw["sp"]), "returns %s" % [show(r)[:90] for r in rets], fn=b.path)
    b = F.body("tracing_subscriber::subscribe::layered::Layered::<A, B, C>::new")
    if ck.anchor(rid, "Layered::new", b):
        key = "Layered::new stores (subscriber, inner) as given"
        aggs = [st for i, j, st in b.stmts() if st["k"] == "assign" and (st.get("rv", {}).get("agg") or {}).get("adt", "").endswith("layered::Layered")]
        ok = len(aggs) == 1
        if ok:
            f = dict(zip(aggs[0]["rv"]["agg"]["fields"], aggs[0]["rv"]["ops"]))
            o1, o2 = b.origin(f["subscriber"]), b.origin(f["inner"])
            ok = o1[0] == "arg" and o1[1] == 1 and o2[0] == "arg" and o2[1] == 2
        if ok:
            ck.ok(rid, key, fn=b.path)
        else:
            ck.bad(rid, key, where(b.raw["sp"]), "the two halves are not stored as (arg1 -> subscriber, arg2 -> inner)", fn=b.path)
