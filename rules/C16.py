"""C16 — rolling appender: a write lands in its period's file; only the oldest are pruned.

R1 rotation tables agree in granularity   R2 elected rotator (one rotation per boundary; time standing still never rotates)
R3 files are opened for append, never truncated   R4 pruning happens before the new file is created, oldest first
"""
from rulekit import Facts, where
from rulekit.sym import PathEval, show
from rulekit.query import peel_bool, guards_of, ordering_of, ORD_RANK

R = "tracing_appender::rolling::"
KIND = {0: "Minutely", 1: "Hourly", 2: "Daily", 3: "Never"}


def r6_create_writer(ck, F):
    b = F.body(R + "create_writer")
    if not ck.anchor("C16.R6", "create_writer", b):
        return
    key = "create_writer: when the open fails, the parent directory is created and the file opened again"
    rows = []
    for p in PathEval(b).run():
        if p.end != "return":
            continue
        ms = [c[1].get("method") for c in p.calls]
        failed = [c[1] for c in p.conds if show(c[0]).startswith("is_err(open(") or show(c[0]).startswith("discr(open(") or show(c[0]).startswith("is_ok(open(")]
        rows.append((ms.count("open"), "create_dir_all" in ms, [show(c[0])[:30] for c in p.conds][:1]))
    retried = any(n >= 2 and d for n, d, _ in rows)
    first_ok = any(n == 1 and not d for n, d, _ in rows)
    if retried and first_ok:
        ck.ok("C16.R6", key, fn=b.path, detail=len(rows))
    else:
        ck.bad("C16.R6", key, where(b.raw["sp"]), "paths (opens, creates the directory): %s -- the log directory is only ever created at start-up: if it is removed while the appender "
               "runs, the next rotation cannot create its file, the rollover time has already advanced, and every later write goes to the unlinked old file" % [(n, d) for n, d, _ in rows], fn=b.path)


def run(ck):
    F = Facts("default")
    ck.configs.append("default")
    ck.explanation = (
        "Decision tables of tracing-appender's rolling module from MIR: for each rotation kind, the step added by "
        "next_date, the truncation applied by round_date and the finest field of the file-name format have the same "
        "granularity; rotation is performed only by the caller whose compare_exchange on next_date succeeded and only "
        "when now >= next_date (0 = never); both the exclusive Write path and the shared MakeWriter path perform "
        "should_rollover -> advance_date -> refresh_writer in that order; files are opened append+create (no truncate); "
        "pruning is invoked only from refresh_writer, before the new file is created, over candidates sorted ascending by "
        "creation time taken from the front. Calendar arithmetic and boundary instants are not decided.")
    ck.assumptions += ["the `time` crate's date arithmetic and formatting", "file-system metadata (creation times) is truthful"]
    ck.rule("C16.R1", "rotation tables: step, rounding and file-name granularity agree per kind", floor=4)
    ck.rule("C16.R2", "one elected rotator; rotate iff now >= next_date; same steps on both write paths (debug and release builds)", floor=10)
    ck.rule("C16.R3", "log files are opened with append+create and never truncated", floor=1)
    ck.rule("C16.R6", "a rotation can always open its period's file while the path is creatable: create_writer re-creates a missing log directory and opens again, "
            "so the writes of the new period are not left in a file that no longer has a name", floor=1)
    ck.rule("C16.R5", "rolling::Builder methods keep every other option (same-named field carry-over)", floor=4)
    ck.rule("C16.R4", "prune only before creating the next file, oldest first, only the appender's files", floor=4)
    r1(ck, F)
    r2(ck, F)
    r3(ck, F)
    r4(ck, F)
    # debug assertions compiled out (what release builds run): the rotation steps must not live inside a debug_assert!
    ck.tag = "[release]"
    ck.configs.append("release")
    r2(ck, Facts("release"))
    ck.tag = ""
    from rulekit.query import builder_carry_over
    builder_carry_over(ck, F, "C16.R5", ("tracing_appender::rolling::builder::",))
    r6_create_writer(ck, F)


def kind_rows(F, name):
    b = F.body(R + "Rotation::" + name)
    if b is None:
        return None, {}
    rows = {}
    for p in PathEval(b).run():
        if p.end != "return":
            continue
        d = [c for c in p.conds if show(c[0]) == "discr(arg1.0)"]
        if d:
            rows[KIND.get(d[0][1], d[0][1])] = show(p.ret)
    return b, rows


def r1(ck, F):
    bn, nxt = kind_rows(F, "next_date")
    br, rnd = kind_rows(F, "round_date")
    bf, fmt = kind_rows(F, "date_format")
    if not (ck.anchor("C16.R1", "next_date", bn) and ck.anchor("C16.R1", "round_date", br) and ck.anchor("C16.R1", "date_format", bf)):
        return
    want = {
        "Minutely": ("add(arg2, minutes(1))", "from_hms(hour(arg2), minute(arg2), 0)", "[minute]"),
        "Hourly": ("add(arg2, hours(1))", "from_hms(hour(arg2), 0, 0)", "[hour]"),
        "Daily": ("add(arg2, days(1))", "from_hms(0, 0, 0)", "[day]"),
    }
    for k, (step, rounding, last) in want.items():
        problems = []
        n = nxt.get(k, "")
        if step not in n or not n.startswith("Option::Some{round_date(arg1, "):
            problems.append("next_date is %s (expected round_date(now + %s))" % (n, step))
        rtxt = rnd.get(k, "")
        if "{closure#" in rtxt:       # `.and_then(|d| d.replace_second(0))`: the step sits in a closure of round_date
            for cl in F.closures_of(br):
                rtxt += " ; " + " ; ".join(show(q.ret).replace("arg2", "argc") for q in PathEval(cl).run() if q.end == "return")
        kept = rounding_keeps(rtxt)
        want_kept = {"Minutely": {"hour", "minute"}, "Hourly": {"hour"}, "Daily": set()}[k]
        if kept != want_kept:
            problems.append("round_date is %s: it keeps %s of the clock reading, a %s boundary keeps %s (everything finer must be zero, or a write just after "
                            "the boundary is still before the stored rollover time)" % (rnd.get(k), sorted(kept) if kept is not None else "an unrecognised part", k.lower(), sorted(want_kept)))
        f = fmt.get(k, "")
        if ("%s')" % last) not in f and not f.rstrip("')").endswith(last):
            problems.append("file-name format is %s (expected to end with %s)" % (f[:70], last))
        finer = {"Minutely": ["[second]"], "Hourly": ["[minute]", "[second]"], "Daily": ["[hour]", "[minute]", "[second]"]}[k]
        if any(x in f for x in finer):
            problems.append("file-name format %s is finer than the rotation period" % f[:70])
        if problems:
            ck.bad("C16.R1", "Rotation::%s" % k, where(bn.raw["sp"]), "; ".join(problems))
        else:
            ck.ok("C16.R1", "Rotation::%s" % k, detail=dict(next=n, round=rnd.get(k), format=f[:60]))
    if nxt.get("Never") == "Option::None{}":
        ck.ok("C16.R1", "Rotation::Never has no next date")
    else:
        ck.bad("C16.R1", "Rotation::Never has no next date", where(bn.raw["sp"]), "next_date(Never) is %s" % nxt.get("Never"))


def rounding_keeps(text):
    """Which of {hour, minute, second, nanosecond} of its argument a rounding expression keeps. Understands
    replace_time(d, from_hms(h, m, s)) with each component either `hour(d)`-style or 0, Time::MIDNIGHT, and chains of
    replace_hour/minute/second/nanosecond(.., 0)."""
    import re as _re
    m = _re.search(r"from_hms\(([^,()]*(?:\([^()]*\))?), ([^,()]*(?:\([^()]*\))?), ([^,()]*(?:\([^()]*\))?)\)", text)
    if m and "replace_time(" in text:
        kept = set()
        for comp, val in zip(("hour", "minute", "second"), m.groups()):
            val = val.strip()
            if val == "%s(arg2)" % comp:
                kept.add(comp)
            elif val != "0":
                return None
        return kept
    if "replace_time(" in text and "MIDNIGHT" in text:
        return set()
    if "replace_" in text and "replace_time(" not in text:
        kept = {"hour", "minute", "second", "nanosecond"}
        for comp in ("hour", "minute", "second", "nanosecond", "millisecond", "microsecond"):
            if _re.search(r"replace_%s\([^;]*?, 0\)" % comp, text):
                kept.discard({"millisecond": "nanosecond", "microsecond": "nanosecond"}.get(comp, comp))
        return kept
    return None


def r2(ck, F):
    sr = F.body(R + "Inner::should_rollover")
    if ck.anchor("C16.R2", "should_rollover", sr):
        rows = []
        ok = True

        def side(t):
            if t[0] == "cast" and t[2][0] == "call" and t[2][1].endswith("unix_timestamp") and t[2][2] == (("arg", 2),):
                return "now"
            if t[0] == "call" and t[1].endswith("::load") and t[2][0] == ("field", ("arg", 1), "next_date"):
                return "next"
            return None
        npaths = 0
        for p in PathEval(sr).run():
            if p.end != "return":
                continue
            npaths += 1
            ret = show(p.ret)
            rows.append(([(show(c[0]), c[1] != 0) for c in p.conds], ret))
            never = None
            due = None
            for c in p.conds:
                t, v = c[0], c[1] != 0
                if t[0] == "bin" and t[1] in ("Eq", "Ne") and ((side(t[2]) == "next" and t[3][0] == "const" and t[3][2] == 0)
                                                             or (side(t[3]) == "next" and t[2][0] == "const" and t[2][2] == 0)):
                    never = v if t[1] == "Eq" else not v        # `next_date != 0` is the negation of the never-rotate test
                elif t[0] == "bin" and t[1] in ("Ge", "Lt", "Le", "Gt") and {side(t[2]), side(t[3])} == {"now", "next"}:
                    a_now = side(t[2]) == "now"
                    op = t[1]
                    # normalise to now >= next
                    truth = {("Ge", True): v, ("Lt", True): not v, ("Le", False): v, ("Gt", False): not v}.get((op, a_now))
                    # (`next <= now` / `next > now`: the same comparisons with the operands the other way round)
                    if truth is None:
                        ok = False
                    due = truth
                elif t[0] != "const":
                    ok = False      # a condition that is neither `next == 0` nor `now >= next`
            if never:
                ok = ok and ret == "Option::None{}"
            elif due is True:
                ok = ok and ret.startswith("Option::Some{load(")
            elif due is False:
                ok = ok and ret == "Option::None{}"
            else:
                ok = False
        ok = ok and npaths == 3
        if ok:
            ck.ok("C16.R2", "should_rollover: 0 -> never; rotate iff now >= next_date (equal time never re-rotates after advance)", fn=sr.path, detail=rows)
        else:
            ck.bad("C16.R2", "should_rollover: 0 -> never; rotate iff now >= next_date", where(sr.raw["sp"]), "table %s" % rows, fn=sr.path)
    ad = F.body(R + "Inner::advance_date")
    if ck.anchor("C16.R2", "advance_date", ad):
        cas = [(bb, t) for bb, t in ad.calls() if t["callee"].get("method") == "compare_exchange"]
        ok = len(cas) == 1
        if ok:
            bb, t = cas[0]
            cur = ad.origin(t["argv"][1])
            o = ordering_of(ad, t["argv"][3])
            rets = [show(p.ret) for p in PathEval(ad).run() if p.end == "return"]
            ok = cur[0] == "arg" and cur[1] == 3 and ORD_RANK.get(o, 0) >= 2 and len(rets) == 1 and rets[0].startswith("is_ok(compare_exchange(arg1.next_date, arg3")
            # the new boundary is computed from the clock reading of *this* write (`now`), so that it lies in the future
            # of that reading and a second write at the same instant cannot rotate again
            if ok:
                newv = [p.calls for p in PathEval(ad).run() if p.end == "return"][0]
                nd = [c for c in newv if c[1].get("path") == R + "Rotation::next_date"]
                if len(nd) != 1 or nd[0][2][1] != ("arg", 2):
                    ok = False
                    ck.bad("C16.R2", "advance_date: the next boundary is computed from the current clock reading", where(ad.raw["sp"]),
                           "next_date is computed from %s instead of the `now` of this write: after a multi-period gap the stored boundary stays in the past and writes at the same instant rotate again"
                           % (show(nd[0][2][1]) if nd else "nothing"), fn=ad.path)
                    return_early = True
                else:
                    ck.ok("C16.R2", "advance_date: the next boundary is computed from the current clock reading", fn=ad.path)
        if ok:
            ck.ok("C16.R2", "advance_date: CAS(next_date: the value should_rollover saw -> next boundary); winner = is_ok", fn=ad.path)
        else:
            ck.bad("C16.R2", "advance_date: CAS(next_date: the value should_rollover saw -> next boundary); winner = is_ok", where(ad.raw["sp"]), "shape not recognised", fn=ad.path)
    for path, shared in (("<%sRollingFileAppender as tracing_subscriber::fmt::writer::MakeWriter<'a>>::make_writer" % R, True),
                         ("<%sRollingFileAppender as std::io::Write>::write" % R, False)):
        b = F.body(path)
        name = "make_writer" if shared else "Write::write"
        if not ck.anchor("C16.R2", name, b):
            continue
        rw = [bb for bb, t in b.calls() if t["callee"].get("path") == R + "Inner::refresh_writer"]
        sro = [bb for bb, t in b.calls() if t["callee"].get("path") == R + "Inner::should_rollover"]
        adv = [bb for bb, t in b.calls() if t["callee"].get("path") == R + "Inner::advance_date"]
        ok = len(rw) == 1 and len(sro) == 1 and len(adv) == 1 and b.dominates(sro[0], adv[0]) and b.dominates(adv[0], rw[0])
        why = "expected should_rollover -> advance_date -> refresh_writer, each once and in this order"
        if ok:
            g, _ = guards_of(b, rw[0])
            some = any(t.startswith("discr(should_rollover(") and v == 1 for t, v in g)
            won = any(t.startswith("advance_date(") and v != 0 for t, v in g)
            if not some:
                ok, why = False, "refresh_writer is not conditioned on should_rollover == Some"
            elif shared and not won:
                ok, why = False, "on the shared path refresh_writer is not conditioned on having won advance_date's CAS: several threads could rotate at one boundary"
            # the CAS winner is the only thread that will ever rotate at this boundary (next_date has already moved on):
            # nothing else may stand between winning and rotating -- a lock that happens to be busy, a second time test
            latest = [t for t, v in g if v != 0 and still_latest_guard(F, t)]
            extra = [t for t, v in g if not (t.startswith("discr(should_rollover(") or t.startswith("advance_date(") or t in ("0", "1") or t in latest)]
            if ok and extra:
                ok, why = False, ("the rotation is skipped under a further condition (%s) although the boundary was already advanced: no later write retries it, "
                                  "so the whole period is written to the previous file" % "; ".join(x[:80] for x in extra))
            # the value given to advance_date is the one should_rollover returned
            t = b.term(adv[0])
            cur = b.origin(t["argv"][2])
            if ok and not (cur[0] == "call" and cur[1] == sro[0]):
                ok, why = False, "advance_date is not given the boundary value should_rollover observed"
            # one clock reading decides everything: should_rollover, advance_date and refresh_writer (which names the new
            # file) all get the `now` of this write, so the file a line lands in is the period of the time it was written
            nows = [bb for bb, t in b.calls() if t["callee"].get("method") == "now" and "RollingFileAppender" in t["callee"].get("path", "")]
            if ok and len(nows) == 1:
                for what, cb, idx in (("should_rollover", sro[0], 1), ("advance_date", adv[0], 1), ("refresh_writer", rw[0], 1)):
                    a = b.origin(b.term(cb)["argv"][idx])
                    if not (a[0] == "call" and a[1] == nows[0] and not a[3]):
                        ok, why = False, "%s is not given the clock reading of this write (`now`): after an idle gap of several periods the new file would be named after a stale boundary" % what
                        break
            elif ok:
                ok, why = False, "expected exactly one clock reading (self.now()) per write, found %d" % len(nows)
        if ok:
            ck.ok("C16.R2", "%s: rotate only as the elected rotator, in order" % name, fn=b.path)
        else:
            ck.bad("C16.R2", "%s: rotate only as the elected rotator, in order" % name, where(b.raw["sp"]), why, fn=b.path)
        if shared and ok:
            # winning the CAS and installing the file are two steps with the writer lock in between: a rotator for a later
            # period can overtake. The file may only be installed while this rotation is still the latest one, and that
            # has to be established with the lock already held
            k2 = "make_writer: a rotator that waited for the lock installs its file only while its rotation is still the latest"
            locks = [bb for bb, t in b.calls() if t["callee"].get("method") == "write" and "RwLock" in t["callee"].get("path", "")]
            loads = [bb for bb, t in b.calls() if t["callee"].get("method") == "load" and "next_date" in str(b.origin(t["argv"][0]))]
            if latest and len(locks) == 1 and any(b.dominates(locks[0], l) and b.dominates(l, rw[0]) for l in loads):
                ck.ok("C16.R2", k2, fn=b.path)
            else:
                ck.bad("C16.R2", k2, where(b.raw["sp"]), "after winning advance_date's CAS the file for this thread's clock reading is installed unconditionally once the "
                       "writer lock is obtained: a thread that rotated for a later period in the meantime has its newer file replaced by the older one, "
                       "and every write until the next boundary lands in the wrong file", fn=b.path)
        # the write itself happens on every path, after any rotation
        if not shared:
            w = [bb for bb, t in b.calls() if t["callee"].get("trait") == "std::io::Write" and t["callee"].get("method") == "write"]
            if len(w) == 1 and b.postdominates(w[0], 0):
                ck.ok("C16.R2", "Write::write writes the buffer once on every path", fn=b.path)
            else:
                ck.bad("C16.R2", "Write::write writes the buffer once on every path", where(b.raw["sp"]), "the buffer is not written exactly once on every path", fn=b.path)


def linear_form(t):
    """{len: a, arg2: b, const: c} for a term built from Vec::len(..), the max_files parameter, integer constants and
    (checked) + / -; None for anything else."""
    if not isinstance(t, tuple):
        return None
    if t[0] == "field" and t[2] == "0" and isinstance(t[1], tuple) and t[1][0] == "bin" and t[1][1].endswith("WithOverflow"):
        t = ("bin", t[1][1][:-len("WithOverflow")], t[1][2], t[1][3])
    if t[0] == "const" and isinstance(t[2], int):
        return {"const": t[2]}
    if t[0] == "arg" and t[1] == 2:
        return {"arg2": 1}
    if t[0] == "call" and t[1].endswith("::len"):
        return {"len": 1}
    if t[0] == "bin" and t[1] in ("Add", "Sub", "AddUnchecked", "SubUnchecked"):
        a, b = linear_form(t[2]), linear_form(t[3])
        if a is None or b is None:
            return None
        sgn = 1 if t[1].startswith("Add") else -1
        out = dict(a)
        for k, v in b.items():
            out[k] = out.get(k, 0) + sgn * v
        return {k: v for k, v in out.items() if v != 0}
    if t[0] in ("cast", "copy", "move") and len(t) > 1 and isinstance(t[-1], tuple):
        return linear_form(t[-1])
    return None


def still_latest_guard(F, text):
    """`next_date` still holds what this thread's advance_date stored: (load(..next_date) == <the value advance_date
    computes from the same `now`>), either side first, or compared with a value advance_date handed back."""
    if " Eq " not in text or "load(" not in text or "next_date" not in text:
        return False
    lhs, rhs = text[1:-1].split(" Eq ", 1) if text.startswith("(") else text.split(" Eq ", 1)
    if not lhs.startswith("load("):
        lhs, rhs = rhs, lhs
    if not (lhs.startswith("load(") and ".next_date" in lhs):
        return False
    if "advance_date(" in rhs:
        return True
    ad = F.body(R + "Inner::advance_date")
    if ad is None:
        return False
    for p in PathEval(ad).run():
        for c in p.calls:
            if c[1].get("method") in ("compare_exchange", "compare_exchange_weak") and len(c[2]) >= 3:
                stored = show(c[2][2]).replace("arg1.", "arg1.state.").replace("arg2", "now(arg1)")
                if stored == rhs:
                    return True
    return False


def r3(ck, F):
    b = F.body(R + "create_writer")
    if not ck.anchor("C16.R3", "create_writer", b):
        return
    opts = {}
    for bb, t in b.calls():
        c = t["callee"]
        if c.get("impl_adt") == "std::fs::OpenOptions" and c.get("method") in ("append", "create", "truncate", "write", "create_new", "read"):
            v = b.origin(t["argv"][1])
            opts.setdefault(c["method"], []).append(v[1].get("int") if v[0] == "const" else None)
    ok = opts.get("append") == [1] and opts.get("create") == [1] and not any(x for x in opts.get("truncate", [])) and "create_new" not in opts
    if ok:
        ck.ok("C16.R3", "create_writer: OpenOptions::new().append(true).create(true)", fn=b.path, detail=opts)
    else:
        ck.bad("C16.R3", "create_writer: OpenOptions::new().append(true).create(true)", where(b.raw["sp"]),
               "open options %s: an existing period file could be truncated or fail to open" % opts, fn=b.path)


def r4(ck, F):
    callers = {x.path for x, bb, t in F.callers().get(R + "Inner::prune_old_logs", [])}
    if callers == {R + "Inner::refresh_writer"}:
        ck.ok("C16.R4", "prune_old_logs is called only from refresh_writer")
    else:
        ck.bad("C16.R4", "prune_old_logs is called only from refresh_writer", str(sorted(callers)), "callers %s" % sorted(callers))
    rw = F.body(R + "Inner::refresh_writer")
    if ck.anchor("C16.R4", "refresh_writer", rw):
        pr = [bb for bb, t in rw.calls() if t["callee"].get("path") == R + "Inner::prune_old_logs"]
        cw = [bb for bb, t in rw.calls() if t["callee"].get("path") == R + "create_writer"]
        ok = len(pr) == 1 and len(cw) == 1
        if ok:
            g, _ = guards_of(rw, pr[0])
            ok = any(t == "discr(arg1.max_files)" and v == 1 for t, v in g)
            # prune precedes create on every path that prunes; create happens on every path
            ok = ok and rw.postdominates(cw[0], 0) and cw[0] in rw.reachable(rw.term(pr[0])["ret"]) and not rw.dominates(cw[0], pr[0])
            t = rw.term(pr[0])
            n = rw.origin(t["argv"][1])
            ok = ok and n[0] == "arg" and "max_files" in str(n[2])
        if ok:
            ck.ok("C16.R4", "refresh_writer: prune (only with a limit, with that limit) before create_writer", fn=rw.path)
        else:
            ck.bad("C16.R4", "refresh_writer: prune (only with a limit, with that limit) before create_writer", where(rw.raw["sp"]), "shape not recognised", fn=rw.path)
    pb = F.body(R + "Inner::prune_old_logs")
    if ck.anchor("C16.R4", "prune_old_logs", pb):
        names = [t["callee"].get("method") for bb, t in pb.calls()]
        sorts = [t for bb, t in pb.calls() if t["callee"].get("method") in ("sort_by_key", "sort_unstable_by_key", "sort_by", "sort")]
        takes = [t for bb, t in pb.calls() if t["callee"].get("method") == "take"]
        rem = [bb for bb, t in pb.calls() if t["callee"].get("path") == "std::fs::remove_file"]
        if not rem:
            # the removal loop written as `.take(n).for_each(|(file, _)| remove_file(..))`: the site that matters for the
            # ordering is the for_each call, provided its closure is the only place that removes
            crem = [c for c in F.closures_of(pb) if any(t["callee"].get("path") == "std::fs::remove_file" for bb, t in c.calls())]
            fe = [(bb, t) for bb, t in pb.calls() if t["callee"].get("method") == "for_each"]
            if len(crem) == 1 and len(fe) == 1:
                o = pb.origin(fe[0][1]["argv"][1])
                cd = o[1].get("agg", {}).get("closure") if o[0] == "agg" else (o[1].get("closure") if o[0] == "const" else None)
                recv = pb.origin(fe[0][1]["argv"][0])
                if cd == crem[0].path and recv[0] == "call" and recv[2]["callee"].get("method") == "take":
                    rem = [fe[0][0]]
        ok = len(sorts) == 1 and len(takes) == 1 and len(rem) == 1
        why = "expected one sort, one take(n) from the front and one remove_file site (calls: %s)" % names
        if ok:
            # iterate forward (no rev) over the sorted vector
            tk = takes[0]
            src = pb.origin(tk["argv"][0])
            if not (src[0] == "call" and src[2]["callee"].get("method") == "iter"):
                ok, why = False, "removal does not iterate the sorted list from its front (%s)" % (src[2]["callee"].get("method") if src[0] == "call" else src[0])
            # sort key closure returns the creation time (field 1 of the tuple)
            ko = pb.origin(sorts[0]["argv"][1]) if len(sorts[0]["argv"]) > 1 else ("none",)
            kd = ko[1].get("agg", {}).get("closure") if ko[0] == "agg" else (ko[1].get("closure") if ko[0] == "const" else None)
            kc = [c for c in F.closures_of(pb) if c.path == kd]
            if ok and kc:
                r = [show(p.ret) for p in PathEval(kc[0]).run() if p.end == "return"]
                if not r or ".1" not in r[0]:
                    ok, why = False, "sort key is %s, not the creation time" % r
            sb = [bb for bb, t in pb.calls() if t["callee"].get("method") in ("sort_by_key", "sort_unstable_by_key", "sort_by", "sort")][0]
            if ok and not pb.dominates(sb, rem[0]):
                ok, why = False, "files are removed before the list is sorted"
        if ok:
            ck.ok("C16.R4", "prune_old_logs: sort ascending by creation time, remove from the front", fn=pb.path)
        else:
            ck.bad("C16.R4", "prune_old_logs: sort ascending by creation time, remove from the front", where(pb.raw["sp"]), why, fn=pb.path)
        # how many: with `k` candidate files and a limit of `max`, the rotation that follows creates one more file, so
        # k - (max - 1) are removed -- in any spelling of that linear expression -- and nothing when k < max
        kc = "prune_old_logs: removes len - (max_files - 1) files, none while fewer than max_files exist"
        forms = set()
        for pth in PathEval(pb).run():
            for c in pth.calls:
                if c[1].get("method") == "take" and len(c[2]) > 1:
                    lf = linear_form(c[2][1])
                    forms.add(tuple(sorted(lf.items())) if lf is not None else None)
        want = {(("arg2", -1), ("const", 1), ("len", 1))}
        if forms == want:
            tkb = [bb for bb, t in pb.calls() if t["callee"].get("method") == "take"]
            g, _ = guards_of(pb, tkb[0])
            from rulekit.query import relation_held
            rels = [r for r in (relation_held(t, v) for t, v in g) if r]
            okc = any(a == "arg2" and rel == "<=" and b.startswith("len(") for a, rel, b in rels)
            if okc:
                ck.ok("C16.R4", kc, fn=pb.path)
            else:
                ck.bad("C16.R4", kc, where(pb.raw["sp"]), "the removal is not guarded by `files.len() >= max_files` (guards: %s)" % sorted(t[:60] for t, v in g), fn=pb.path)
        else:
            ck.bad("C16.R4", kc, where(pb.raw["sp"]), "the number of files removed is %s, not len - max_files + 1: after the rotation creates the next file "
                   "the directory holds more (or fewer) than max_files log files" % sorted(map(str, forms)), fn=pb.path)
        fc = [c for c in F.closures_of(pb) if any(t["callee"].get("method") == "is_file" for bb, t in c.calls())]
        if fc:
            used = [t["callee"].get("method") for bb, t in fc[0].calls()]
            if ("starts_with" in used or "strip_prefix" in used) and ("ends_with" in used or "strip_suffix" in used) and "is_file" in used:
                ck.ok("C16.R4", "candidates: regular files matching the appender's prefix/suffix", fn=fc[0].path)
            else:
                ck.bad("C16.R4", "candidates: regular files matching the appender's prefix/suffix", where(fc[0].raw["sp"]), "filter uses %s" % used, fn=fc[0].path)
            # ... and *both* constraints bind every candidate: on each accepting path, a configured prefix was matched with
            # starts_with and a configured suffix with ends_with (a second appender sharing the prefix keeps its files)
            from rulekit.query import option_test
            problems = set()
            nacc = 0
            for p in PathEval(fc[0]).run():
                if p.end != "return" or not show(p.ret).startswith("Option::Some"):
                    continue
                nacc += 1
                if not any(show(c[0]).startswith("is_file(") and c[1] != 0 for c in p.conds):
                    problems.add("an entry is accepted without metadata.is_file() having been true: directories and symlinks could be pruned")
                for field, test in (("log_filename_prefix", "starts_with"), ("log_filename_suffix", "ends_with")):
                    states = [option_test(c)[1] for c in p.conds if field in show(c[0]) and option_test(c)[0] is not None]
                    strip = "strip_prefix(" if test == "starts_with" else "strip_suffix("
                    matched = any(show(c[0]).startswith(test + "(") and c[1] != 0 for c in p.conds) or \
                        any(show(c[0]).startswith("discr(branch(" + strip) and c[1] == 0 for c in p.conds)      # `name.strip_prefix(p)?` continued
                    if True in states and False in states:
                        continue        # infeasible: the evaluator does not relate `if let Some(..)` to a later `.is_none()`
                    if not states:
                        problems.add("a file is accepted on a path that never looks at %s" % field)
                    elif any(st is True for st in states) and not matched:
                        problems.add("a file is accepted although %s is set and %s was not required" % (field, test))
                # ... and what is left is a date in the appender's own format: `app-audit.log` next to `app.<date>.log` shares
                # prefix and suffix but is somebody else's file
                if nacc:
                    pass
            undated = 0
            for p in PathEval(fc[0]).run():
                if p.end == "return" and show(p.ret).startswith("Option::Some"):
                    # (the test may be written through Option combinators: `opt.map(|d| parse(d).is_ok()).unwrap_or(false)`)
                    pc = [(show(peel_bool(F, c[0])), c[1]) for c in p.conds]
                    dated = any(("parse(" in t) and ((t.startswith("is_err(") and v == 0) or (t.startswith("is_ok(") and v != 0) or (t.startswith("discr(") and v == 0)) for t, v in pc)
                    if not dated:
                        undated += 1
            if undated:
                problems.add("a file is accepted on %d path(s) without the rest of its name having parsed as a date: any file that shares the prefix and the suffix "
                             "(another appender's, or a hand-made one) is counted as this appender's log file and pruned" % undated)
            # ... and the age the candidates are sorted by is when the file came into being -- its creation time, or the date in
            # its name -- not when it was last written or read: an old period's file that is appended to or touched later
            # would otherwise outlive younger ones
            def calls_in(t, acc):
                if isinstance(t, tuple):
                    if t and t[0] == "call":
                        acc.add(t[1])
                    for x in t:
                        calls_in(x, acc)
                return acc
            ages = set()
            for p in PathEval(fc[0]).run():
                if p.end == "return" and p.ret and p.ret[0] == "agg" and show(p.ret).startswith("Option::Some") and p.ret[3] and p.ret[3][0][0] == "agg" and len(p.ret[3][0][3]) == 2:
                    cs = calls_in(p.ret[3][0][3][1], set())
                    src = sorted(c.rsplit("::", 1)[-1] for c in cs if c.startswith("std::fs::Metadata::") or c.endswith("Date::parse") or c.endswith("::parse"))
                    ages.add(tuple(src))
            akey = "candidates are aged by creation time (or the date in the name), not by last write or access"
            if ages and all(a and set(a) <= {"created", "parse"} for a in ages):
                ck.ok("C16.R4", akey, fn=fc[0].path, detail=sorted(ages))
            elif ages:
                ck.bad("C16.R4", akey, where(fc[0].raw["sp"]), "the sort key of a candidate comes from %s: `oldest` then means least recently written, and a touched file of an old period outlives younger ones" % sorted(ages), fn=fc[0].path)
            key = "candidates: a configured prefix and a configured suffix must both match"
            if nacc and not problems:
                ck.ok("C16.R4", key, fn=fc[0].path, detail=nacc)
            else:
                ck.bad("C16.R4", key, where(fc[0].raw["sp"]), "; ".join(sorted(problems)) or "no accepting path found", fn=fc[0].path)
        else:
            ck.bad("C16.R4", "candidates: regular files matching the appender's prefix/suffix", where(pb.raw["sp"]), "no is_file() test among the candidates filter")
