"""C06 — current span, parent and scope mirror each thread's enter/exit history.

R1 per-thread storage and who may touch the span stack
R2 stack discipline of SpanStack::{push,pop,iter,current}
R3 parent resolution: the same three-way table in Registry::new_span and Context::event_span
R4 scope walk follows the stored parent links; from_root is the reverse
R5 liveness of ancestors: captured span traces hold a counted handle
"""
from rulekit import Facts, where
from rulekit.sym import PathEval, show
from rulekit.query import field_users, guards_of

ST = "tracing_subscriber::registry::stack::SpanStack"
REG = "tracing_subscriber::registry::sharded::Registry"
REG_C = "<%s as tracing_core::collect::Collect>::" % REG
BACK_FIRST = ("rev(", "rposition(", "rfind(", "rfold(", "next_back(", "last(")


def strip_deref(txt):
    return txt.replace("deref(", "(").replace("deref_mut(", "(")


def run(ck):
    F = Facts("default")
    ck.configs.append("default")
    ck.explanation = (
        "Shape rules on the registry's span stack and scope walk, extracted as decision tables from MIR: the stack lives "
        "in a ThreadLocal and is mutated only by SpanStack::push/pop, which only Registry::enter/exit call; push appends "
        "and reports `not already present`; pop searches from the most recent entry backwards for an equal id, removes "
        "exactly that index and reports `was not a duplicate`; iteration/current go newest-first and skip duplicates; "
        "Registry::new_span and Context::event_span resolve the parent through the same root/contextual/explicit table; "
        "Scope::next follows the stored parent link; from_root is collect+rev; SpanTrace::capture stores Span::current(). "
        "Decides these shapes, not that they compute the right answer for every interleaved history.")
    ck.assumptions += ["thread_local::ThreadLocal gives one cell per thread", "re-entering an already entered span is excluded by the property"]
    ck.rule("C06.R1", "span stack is per-thread and touched only through push/pop from enter/exit, unconditionally", floor=6)
    ck.rule("C06.R2", "push/pop/iter/current stack discipline", floor=6)
    ck.rule("C06.R3", "parent resolution table (root / contextual / explicit), siblings agree", floor=4)
    ck.rule("C06.R4", "scope walk follows parent links; from_root reverses", floor=3)
    ck.rule("C06.R7", "a filtered layer's current span comes from the thread's entered-span stack, not from parent links (as C07.R3)", floor=1)
    ck.rule("C06.R6", "collector wrappers forward enter/exit/new_span/current_span and the reference counting that keeps ancestors alive (as C09.R1/R2)", floor=15)
    ck.rule("C06.R9", "enter / exit / current_span / new_span reach the registry through Dispatch unchanged (as C09.R4)", floor=4)
    ck.rule("C06.R10", "root / contextual / explicit parent is encoded and decoded consistently: Attributes and Event constructors store the Parent variant their name says, and is_root / is_contextual / parent read back exactly that variant", floor=10)
    ck.rule("C06.R11", "ancestors stay readable while anything refers to them: the registry's reference count moves by atomic read-modify-write only, with the release/acquire pairing of the last decrement (as C05.R2)", floor=3)
    ck.rule("C06.R17", "a span is looked up in the registry that holds it whatever wraps that registry: Box, Arc, Layered and fmt::Collector forward span_data and "
            "register_filter unchanged; Scope::from_root is the same chain reversed", floor=8)
    ck.rule("C06.R16", "a captured SpanTrace walks exactly the chain of ancestors: ErrorSubscriber::get_context hands every span of the scope to the visitor -- a span "
            "without stored fields is reported with empty fields, not skipped -- and stops only when the visitor says so", floor=1)
    ck.rule("C06.R15", "a thread starts with an empty span stack: the storage of the per-thread stack does not outlive its thread (or is emptied when the thread ends)", floor=1)
    ck.rule("C06.R14", "every layer of the workspace that writes out the spans an event happened in asks for the *event's* scope (explicit parent, explicit root "
            "or the current span), not for the thread's current span: fmt and tracing-journald agree", floor=2)
    ck.rule("C06.R13", "a span entered through the handle leaves the current-span stack when the scope ends, by return or by unwinding: the guards' drops, "
            "in_scope and EnteredSpan::exit exit exactly once (as C03.R5)", floor=5)
    ck.rule("C06.R12", "`current span` is asked of the emitting thread's current collector: get_default's path choice and who may write the per-thread default (as C02.R2/R3)", floor=6)
    ck.rule("C06.R5", "captured span traces hold counted handles and are read back through the handle's own collector", floor=2)
    ck.rule("C06.R8", "every macro form hands the written `parent:` (a span, or None for an explicit root) to the constructor, and only contextual forms use the current span", floor=300)
    r1(ck, F)
    r2(ck, F)
    r3(ck, F)
    r4(ck, F)
    r5(ck, F)
    r8(ck)
    r10(ck, F)
    from rules import C02 as _C02
    _C02.r2(ck, F, rid="C06.R12")
    _C02.r3(ck, F, rid="C06.R12")
    # the registry's per-thread stack mirrors the thread's history only if every enter the handle makes is exited -- also
    # when the code in between unwinds: guards, in_scope and EnteredSpan::exit (C03.R5, instantiated)
    from rules import C03 as _C03
    _C03.r5(ck, F, rid="C06.R13")
    event_context_siblings(ck, F)
    stack_storage(ck, F)
    span_trace_walk(ck, F)
    lookup_wrappers(ck, F)
    from rules import C05 as _C05
    _C05.r2(ck, F, rid="C06.R11")
    from rules import C09 as _C09
    _C09.dispatch_forwarding(ck, F, rid="C06.R9", only={"enter", "exit", "current_span", "new_span"})
    from rules import C07
    C07.lookup_current_fallback(ck, F, rid="C06.R7")
    # enter/exit/new_span/current_span reach the registry's per-thread stack only through forwarding wrappers (C09.R1/R2)
    from rules import C09
    C09.wrapper_rules(ck, F, rids={"R0": "C06.R6", "R1": "C06.R6", "R2": "C06.R6", "R3": "C06.R6"}, traits=["tracing_core::collect::Collect"],
                      only={"enter", "exit", "new_span", "current_span", "clone_span", "try_close", "drop_span"})


ALWAYS_CALLS = {"map", "and_then", "map_or", "map_or_else", "for_each", "get_default", "inspect"}


def r1(ck, F):
    adt = F.adts.get(REG)
    if ck.anchor("C06.R1", "Registry", adt):
        ty = {f["name"]: f["ty"] for f in adt["variants"][0]["fields"]}.get("current_spans", "")
        if ty.startswith("thread_local::ThreadLocal<core::cell::RefCell<" + ST):
            ck.ok("C06.R1", "Registry.current_spans: ThreadLocal<RefCell<SpanStack>>", detail=ty)
        else:
            ck.bad("C06.R1", "Registry.current_spans: ThreadLocal<RefCell<SpanStack>>", adt["span"], "type is %s: the current span would be shared between threads" % ty)
    writers = set()
    for b, bb, kind, d in field_users(F, ST, "stack", crate="tracing_subscriber"):
        m = kind.split(":", 1)[1] if kind.startswith("call:") else kind
        if m in ("push", "remove", "pop", "insert", "clear", "truncate", "retain", "swap_remove", "drain", "assign", "deref_mut", "extend"):
            writers.add(b.path)
    want = {ST + "::push", ST + "::pop"}
    if writers == want:
        ck.ok("C06.R1", "SpanStack.stack mutated only by push/pop")
    else:
        ck.bad("C06.R1", "SpanStack.stack mutated only by push/pop", str(sorted(writers ^ want)), "mutators: %s" % sorted(writers))
    for m, caller in (("push", REG_C + "enter"), ("pop", REG_C + "exit")):
        sites = F.callers().get(ST + "::" + m, [])
        roots = {x.path.split("::{closure")[0] for x, bb, t in sites}
        short = caller.rsplit("::", 1)[1]
        if roots == {caller}:
            ck.ok("C06.R1", "SpanStack::%s called only from Registry::%s" % (m, short))
        else:
            ck.bad("C06.R1", "SpanStack::%s called only from Registry::%s" % (m, short), str(sorted(roots)), "callers: %s" % sorted(roots))
            continue
        # ... and unconditionally: enter always pushes; exit pops whenever this thread has a stack at all. A push/pop that
        # can be skipped (e.g. moved into a closure that a dispatcher accessor may decline to run) leaves the stack
        # out of step with the thread's enter/exit history.
        key = "Registry::%s always reaches SpanStack::%s" % (short, m)
        problems = []
        if len(sites) != 1:
            problems.append("%d call sites" % len(sites))
        else:
            x, bb, t = sites[0]
            outer = F.body(caller)
            at_body, at_bb = x, bb
            hops = 0
            while at_body is not outer and hops < 3:
                hops += 1
                parent = F.body(at_body.path.rsplit("::{closure", 1)[0])
                handed = None
                for pbb, pt in parent.calls():
                    for a in pt["argv"]:
                        o = parent.origin(a)
                        cd = o[1].get("agg", {}).get("closure") if o[0] == "agg" else (o[1].get("closure") if o[0] == "const" else None)
                        if cd == at_body.path:
                            handed = (pbb, pt)
                if handed is None:
                    problems.append("cannot find where the closure containing the %s is invoked" % m)
                    break
                cal = handed[1]["callee"]
                if not (cal.get("method") in ALWAYS_CALLS and (cal.get("path", "").startswith("core::option::Option") or cal.get("path", "").startswith("core::iter")
                                                              or cal.get("path") == "tracing_core::dispatch::get_default")):
                    problems.append("the %s runs inside a closure handed to %s, which may decline to run it" % (m, cal.get("path")))
                    break
                at_body, at_bb = parent, handed[0]
            if not problems:
                g, _ = guards_of(at_body, at_bb)
                extra = [(c, v) for c, v in g if not ("current_spans" in c and ("get(" in c or "get_or_default(" in c))]
                if extra:
                    problems.append("the %s is additionally guarded by %s" % (m, sorted(extra)[:3]))
        if problems:
            ck.bad("C06.R1", key, where(F.body(caller).raw["sp"]), "; ".join(problems), fn=caller)
        else:
            ck.ok("C06.R1", key, fn=caller)


def one_table(F, path):
    b = F.body(path)
    if b is None:
        return None, None
    rows = []
    for p in PathEval(b).run():
        if p.end == "return":
            rows.append(([(strip_deref(show(c[0])), c[1]) for c in p.conds if c[0][0] != "const"], strip_deref(show(p.ret)),
                         [c[1].get("method") for c in p.calls if c[1].get("path") != "<drop>"]))
    return b, rows


def r2(ck, F, rid="C06.R2", push_pop_only=False):
    # push
    b, rows = one_table(F, ST + "::push")
    if ck.anchor(rid, "SpanStack::push", b):
        cl = F.closures_of(b)
        eq = [show(p.ret) for c in cl for p in PathEval(c).run() if p.end == "return"]
        ok = len(rows) == 1 and rows[0][1].startswith("Not(any(iter(") and "push" in rows[0][2] and eq == ["eq(arg2.id, arg1.id)"]
        if ok:
            # the pushed entry carries that `duplicate` flag
            ck.ok(rid, "push: always appends; returns !any(existing id == id)", fn=b.path, detail=rows[0][1])
        else:
            ck.bad(rid, "push: always appends; returns !any(existing id == id)", where(b.raw["sp"]), "table %s closure %s" % (rows, eq), fn=b.path)
        agg = [s for i, j, s in b.stmts() if "agg" in s.get("rv", {}) and s["rv"]["agg"].get("adt", "").endswith("stack::ContextId")]
        good = False
        if len(agg) == 1:
            ops = dict(zip(agg[0]["rv"]["agg"]["fields"], agg[0]["rv"]["ops"]))
            d = b.origin(ops["duplicate"])
            good = d[0] == "call" and d[2]["callee"].get("method") == "any"
        if good:
            ck.ok(rid, "push: entry.duplicate = any(existing equal)", fn=b.path)
        else:
            ck.bad(rid, "push: entry.duplicate = any(existing equal)", where(b.raw["sp"]), "the pushed entry's duplicate flag is not the membership test", fn=b.path)
    # pop
    b, rows = one_table(F, ST + "::pop")
    if ck.anchor(rid, "SpanStack::pop", b):
        hit = [r for r in rows if r[0] and r[0][0][1] == 1]
        miss = [r for r in rows if r[0] and r[0][0][1] != 1]
        cl = F.closures_of(b)
        eq = [show(p.ret) for c in cl for p in PathEval(c).run() if p.end == "return"]
        problems = []
        if len(hit) != 1 or len(miss) != 1:
            problems.append("expected a found/not-found table, got %s" % rows)
        else:
            search = hit[0][0][0][0]
            if not any(k in search for k in BACK_FIRST):
                problems.append("the search `%s` does not start from the most recently entered span" % search)
            if "remove" not in hit[0][2] or not hit[0][1].startswith("Not(remove("):
                problems.append("found: returns %s (expected !removed.duplicate)" % hit[0][1])
            if miss[0][1] != "0" or "remove" in miss[0][2]:
                problems.append("not found: returns %s / removes something" % miss[0][1])
            if not eq or "expected_id" not in eq[0] or not eq[0].startswith("eq("):
                problems.append("match predicate is %s (expected id == expected_id)" % eq)
        if problems:
            ck.bad(rid, "pop: newest matching entry is removed; returns !duplicate; false if absent", where(b.raw["sp"]), "; ".join(problems), fn=b.path)
        else:
            ck.ok(rid, "pop: newest matching entry is removed; returns !duplicate; false if absent", fn=b.path, detail=hit[0][0][0][0])
    if push_pop_only:
        return
    # iter / current
    b, rows = one_table(F, ST + "::iter")
    if ck.anchor(rid, "SpanStack::iter", b):
        cl = F.closures_of(b)
        crow = [(tuple([(show(c[0]), c[1]) for c in p.conds[:1]]), show(p.ret)) for x in cl for p in PathEval(x).run() if p.end == "return"]
        ok = len(rows) == 1 and any(k in rows[0][1] for k in BACK_FIRST) and "filter_map(" in rows[0][1]
        skip = {(str(c), r) for c, r in crow}
        good_skip = any("duplicate', 0" in c and r.startswith("Option::Some") for c, r in skip) and any("Option::None" in r for c, r in skip)
        if ok and good_skip:
            ck.ok(rid, "iter: newest first, duplicates skipped", fn=b.path)
        else:
            ck.bad(rid, "iter: newest first, duplicates skipped", where(b.raw["sp"]), "iter is %s with filter %s" % (rows, sorted(skip)), fn=b.path)
    b, rows = one_table(F, ST + "::current")
    if ck.anchor(rid, "SpanStack::current", b):
        if len(rows) == 1 and rows[0][1] == "next(iter(arg1))":
            ck.ok(rid, "current == iter().next()", fn=b.path)
        else:
            ck.bad(rid, "current == iter().next()", where(b.raw["sp"]), "current is %s" % rows, fn=b.path)
    cs = F.body(REG_C + "current_span")
    if ck.anchor(rid, "Registry::current_span", cs):
        used = [t["callee"].get("method") for x in [cs] + F.closures_of(cs) for bb, t in x.calls()]
        if "current" in used and "get" in used:
            ck.ok(rid, "Registry::current_span reads this thread's stack top", fn=cs.path)
        else:
            ck.bad(rid, "Registry::current_span reads this thread's stack top", where(cs.raw["sp"]), "calls %s" % used)


def parent_table(F, path, subject):
    b = F.body(path)
    if b is None:
        return None, None
    rows = {}
    for p in PathEval(b).run():
        if p.end != "return":
            continue
        ks = tuple((show(c[0]).split("(")[0], c[1] != 0) for c in p.conds if show(c[0]).startswith(("is_root(", "is_contextual(")))
        rows[ks] = p
    return b, rows


def r3(ck, F):
    b, rows = parent_table(F, REG_C + "new_span", "attrs")
    if ck.anchor("C06.R3", "Registry::new_span", b):
        want = {(("is_root", True),): "none", (("is_root", False), ("is_contextual", True)): "current", (("is_root", False), ("is_contextual", False)): "explicit"}
        got = {}
        for k, p in rows.items():
            maps = [c for c in p.calls if c[1].get("method") == "map"]
            if not maps:
                got[k] = "none"
            else:
                src = show(maps[0][2][0])
                got[k] = "current" if src.startswith("id(") and "current_span" in src else ("explicit" if src.startswith("parent(") else src)
        if got == want:
            ck.ok("C06.R3", "new_span: root -> None, contextual -> current span of this thread, explicit -> attrs.parent()", fn=b.path)
        else:
            ck.bad("C06.R3", "new_span: root -> None, contextual -> current span of this thread, explicit -> attrs.parent()", where(b.raw["sp"]), "table %s" % got, fn=b.path)
        # the chosen parent is what gets stored
        cl = [c for c in F.closures_of(b) if any(isinstance(x, dict) and x.get("n") == "parent" for i, j, s in c.stmts() if s["k"] == "assign" for x in s["lhs"].get("p", []))]
        if cl:
            ck.ok("C06.R3", "new_span stores the resolved parent in the span's data", fn=cl[0].path)
        else:
            ck.bad("C06.R3", "new_span stores the resolved parent in the span's data", where(b.raw["sp"]), "no assignment to DataInner.parent in the create_with closure")
    b2, rows2 = parent_table(F, "tracing_subscriber::subscribe::context::Context::<'a, C>::event_span", "event")
    if ck.anchor("C06.R3", "Context::event_span", b2):
        got = {}
        for k, p in rows2.items():
            r = show(p.ret)
            got[k] = "none" if r.startswith("Option::None") else ("current" if r.startswith("lookup_current(") else ("explicit" if r.startswith("and_then(parent(") else r))
        want = {(("is_root", True),): "none", (("is_root", False), ("is_contextual", True)): "current", (("is_root", False), ("is_contextual", False)): "explicit"}
        if got == want:
            ck.ok("C06.R3", "event_span resolves an event's parent through the same table", fn=b2.path)
        else:
            ck.bad("C06.R3", "event_span resolves an event's parent through the same table", where(b2.raw["sp"]), "table %s" % got, fn=b2.path)
    lc = F.body("tracing_subscriber::subscribe::context::Context::<'a, C>::lookup_current")
    if ck.anchor("C06.R3", "Context::lookup_current", lc):
        used = [t["callee"].get("method") for bb, t in lc.calls()]
        if "current_span" in used:
            ck.ok("C06.R3", "lookup_current asks the collector's current_span()", fn=lc.path)
        else:
            ck.bad("C06.R3", "lookup_current asks the collector's current_span()", where(lc.raw["sp"]), "calls %s" % used)


def r4(ck, F):
    nx = F.body("<tracing_subscriber::registry::Scope<'a, R> as core::iter::traits::iterator::Iterator>::next")
    if ck.anchor("C06.R4", "Scope::next", nx):
        # self.next is reassigned from the yielded span's data.parent()
        assigns = [s for i, j, s in nx.stmts() if s["k"] == "assign" and any(isinstance(x, dict) and x.get("n") == "next" for x in s["lhs"].get("p", []))]
        ok = bool(assigns)
        src_ok = False
        for s in assigns:
            o = nx.origin(s["rv"].get("use", {})) if "use" in s["rv"] else None
            if o and o[0] == "call" and o[2]["callee"].get("method") in ("cloned", "parent", "map"):
                src_ok = True
        looks = [t for bb, t in nx.calls() if t["callee"].get("method") == "span"]
        if ok and src_ok and looks:
            ck.ok("C06.R4", "Scope::next yields span(self.next) and advances to its stored parent", fn=nx.path)
        else:
            ck.bad("C06.R4", "Scope::next yields span(self.next) and advances to its stored parent", where(nx.raw["sp"]), "assignments to self.next: %d, from parent(): %s" % (len(assigns), src_ok), fn=nx.path)
    fr = F.body("tracing_subscriber::registry::Scope::<'a, R>::from_root")
    if ck.anchor("C06.R4", "Scope::from_root", fr):
        r = [show(p.ret) for p in PathEval(fr).run() if p.end == "return"]
        if len(r) == 1 and "rev(" in r[0] and "collect(arg1)" in r[0]:
            ck.ok("C06.R4", "from_root == collect().rev()", fn=fr.path, detail=r[0])
        else:
            ck.bad("C06.R4", "from_root == collect().rev()", where(fr.raw["sp"]), "from_root is %s" % r, fn=fr.path)
    pr = F.body("tracing_subscriber::registry::SpanRef::<'a, R>::parent")
    if ck.anchor("C06.R4", "SpanRef::parent", pr):
        used = [t["callee"].get("method") for bb, t in pr.calls()]
        if used.count("parent") >= 1 and "span_data" in used:
            ck.ok("C06.R4", "SpanRef::parent looks up data.parent()", fn=pr.path)
        else:
            ck.bad("C06.R4", "SpanRef::parent looks up data.parent()", where(pr.raw["sp"]), "calls %s" % used)
    dp = F.impl_method("tracing_subscriber::registry::SpanData", "tracing_subscriber::registry::sharded::Data<", "parent")
    if ck.anchor("C06.R4", "Data::parent", dp):
        r = [show(p.ret) for p in PathEval(dp).run() if p.end == "return"]
        if r and "inner" in r[0] and "parent" in r[0]:
            ck.ok("C06.R4", "SpanData::parent reads the stored parent", fn=dp.path, nontrivial=False)


def r5(ck, F):
    b = F.body("tracing_error::backtrace::SpanTrace::capture")
    if ck.anchor("C06.R5", "SpanTrace::capture", b):
        r = [show(p.ret) for p in PathEval(b).run() if p.end == "return"]
        if r == ["new(current())"]:
            ck.ok("C06.R5", "SpanTrace::capture stores Span::current() (a counted handle, C03.R3)", fn=b.path)
        else:
            ck.bad("C06.R5", "SpanTrace::capture stores Span::current()", where(b.raw["sp"]), "capture is %s" % r, fn=b.path)
    # ... and the trace is read back through that handle's own collector (the one the spans live in), never through
    # whatever happens to be the reading thread's default at that moment
    ws = F.body("tracing_error::backtrace::SpanTrace::with_spans")
    if ck.anchor("C06.R5", "SpanTrace::with_spans", ws):
        bodies = [ws] + F.closures_of(ws)
        own = [1 for x in bodies for bb, t in x.calls() if t["callee"].get("path") == "tracing::span::Span::with_collector"]
        ambient = [t["callee"].get("path") for x in bodies for bb, t in x.calls() if (t["callee"].get("path") or "").startswith("tracing_core::dispatch::get_")
                   or (t["callee"].get("path") or "").endswith("Span::current")]
        key = "SpanTrace::with_spans walks the captured span's own collector"
        if own and not ambient:
            ck.ok("C06.R5", key, fn=ws.path)
        else:
            ck.bad("C06.R5", key, where(ws.raw["sp"]), "the captured id is resolved through %s: read on another thread, after the scope ended or under another collector "
                   "the trace is empty or shows an unrelated span's ancestors" % (sorted(set(ambient)) or "something other than Span::with_collector"), fn=ws.path)


def lookup_wrappers(ck, F, rid="C06.R17"):
    from rules import C09 as _C09
    _C09.wrapper_rules(ck, F, rids={"R0": rid, "R1": rid, "R2": rid, "R3": rid}, traits=["tracing_subscriber::registry::LookupSpan"],
                       only={"span_data", "register_filter"})
    b = F.body("tracing_subscriber::registry::Scope::<'a, R>::from_root")
    if ck.anchor(rid, "Scope::from_root", b):
        r = [show(p.ret) for p in PathEval(b).run() if p.end == "return"]
        key = "Scope::from_root yields the spans of the scope, each once, in reverse order"
        ok = len(r) == 1 and "rev(" in r[0] and "arg1" in r[0] and not any(x in r[0] for x in ("skip(", "take(", "filter(", "step_by(", "skip_while("))
        (ck.ok(rid, key, fn=b.path) if ok else ck.bad(rid, key, where(b.raw["sp"]), "builds %s" % r, fn=b.path))
    nx = F.body("<tracing_subscriber::registry::ScopeFromRoot<'a, R> as core::iter::traits::iterator::Iterator>::next")
    if ck.anchor(rid, "ScopeFromRoot::next", nx):
        r = [show(p.ret) for p in PathEval(nx).run() if p.end == "return"]
        key = "ScopeFromRoot::next hands out the next collected span unchanged"
        (ck.ok(rid, key, fn=nx.path) if r == ["next(arg1.spans)"] else ck.bad(rid, key, where(nx.raw["sp"]), "returns %s" % r, fn=nx.path))


def span_trace_walk(ck, F, rid="C06.R16"):
    b = next((x for x in F.body_list if x.path.startswith("tracing_error::subscriber::ErrorSubscriber") and x.path.endswith("::get_context")), None)
    if not ck.anchor(rid, "ErrorSubscriber::get_context", b):
        return
    key = "get_context visits every span of the scope"
    problems = set()
    n = 0
    for p in PathEval(b).run():
        if p.end == "unreachable":
            continue            # the impossible discriminant of a two-variant enum
        cs = [(show(c[0]), c[1]) for c in p.conds]
        took = [v for t, v in cs if t.startswith("discr(next(")]
        if not took or took[0] != 1:
            continue            # the scope is exhausted (or the impossible discriminant)
        n += 1
        visited = any(c[1].get("method") in ("call_mut", "call", "call_once") for c in p.calls)
        if not visited:
            problems.add("a span of the scope is passed over without the visitor being called (%s)" % ("loop goes on" if p.end == "loop" else p.end))
        stop = [v for t, v in cs if t.startswith(("call_mut(", "call(")) ]
        if p.end == "return" and visited and not (stop and stop[-1] == 0):
            problems.add("the walk ends although the visitor did not ask to stop")
        if p.end == "loop" and visited and stop and stop[-1] == 0:
            problems.add("the walk goes on although the visitor asked to stop")
    if problems or not n:
        ck.bad(rid, key, where(b.raw["sp"]), "; ".join(sorted(problems)) or "no path takes a span from the scope iterator" +
               ": an ancestor silently disappears from every SpanTrace captured below it (a span whose fields could not be formatted has no FormattedFields)", fn=b.path)
    else:
        ck.ok(rid, key, fn=b.path, detail=n)


def stack_storage(ck, F, rid="C06.R15"):
    """`thread_local::ThreadLocal` hands a finished thread's slot -- value included -- to the next thread that is given the
    recycled thread id, and a guard dropped during thread teardown finds `current_spans.get()` already None, so its exit
    does nothing: a span left entered when a thread ends becomes the `current span` of an unrelated later thread."""
    adt = F.adts.get("tracing_subscriber::registry::sharded::Registry")
    if not ck.anchor(rid, "Registry", adt):
        return
    ty = {f["name"]: f["ty"] for f in adt["variants"][0]["fields"]}.get("current_spans", "")
    key = "the per-thread span stack does not survive its thread"
    if ty.startswith("thread_local::ThreadLocal<"):
        cleared = any(b.path.startswith("tracing_subscriber::registry::") and any(t["callee"].get("method") in ("clear", "iter_mut") and "ThreadLocal" in str(t["callee"].get("path")) for bb, t in b.calls())
                      for b in F.body_list)
        if cleared:
            ck.ok(rid, key, detail=ty[:80])
        else:
            ck.bad(rid, key, adt["span"], "current_spans is a %s and nothing ever empties a finished thread's slot: the next thread that gets the recycled id inherits the dead "
                   "thread's entered spans as its current span and as contextual parent" % ty[:90])
    else:
        ck.ok(rid, key, detail=ty[:80])


def event_context_siblings(ck, F, rid="C06.R14"):
    """Sibling agreement (one interface, several implementations): an `on_event` that walks a span scope to describe where the
    event happened must start from Context::event_scope / event_span. Starting from lookup_current ignores `parent: &span`
    and `parent: None` on the event."""
    SUB = "tracing_subscriber::subscribe::Subscribe"
    CTX = "subscribe::context::Context"
    found = 0
    for cfg in ("default", "consumers"):
        try:
            G = F if cfg == "default" else Facts(cfg)
        except Exception as e:
            ck.bad(rid, "facts for the other consumers of the subscriber API", cfg, "could not be generated: %s" % str(e)[:120])
            continue
        if cfg not in ck.configs:
            ck.configs.append(cfg)
        for imp in G.impls_of(SUB):
            m = imp["methods"].get("on_event")
            b = G.body(m) if m else None
            if b is None:
                continue
            bodies = [b] + G.closures_of(b)
            ctx = {t["callee"].get("method") for x in bodies for bb, t in x.calls() if CTX in str(t["callee"].get("path"))}
            if not (ctx & {"lookup_current", "event_scope", "event_span", "current_span"}):
                continue
            found += 1
            key = "%s::on_event describes the event's own span context" % "::".join(imp["self_ty"].split("<")[0].split("::")[-2:])
            if "lookup_current" in ctx and not (ctx & {"event_scope", "event_span"}):
                ck.bad(rid, key, where(b.raw["sp"]), "walks the scope of Context::lookup_current(): an event emitted with `parent: &other_span` is recorded under the thread's "
                       "current span and one emitted with `parent: None` under a span it does not belong to (the fmt layer uses event_scope)", fn=b.path)
            else:
                ck.ok(rid, key, fn=b.path, detail=sorted(c for c in ctx if c))
    # the fmt formatters reach the scope through FmtContext: its accessors are the event's
    for acc in ("event_scope", "parent_span"):
        fc = F.body("tracing_subscriber::fmt::fmt_subscriber::FmtContext::<'_, C, N>::" + acc)
        if ck.anchor(rid, "FmtContext::" + acc, fc):
            found += 1
            calls = {t["callee"].get("method") for bb, t in fc.calls()}
            # (event_scope may also be built on the sibling accessor parent_span, which is decided by its own instance)
            if calls & {"event_scope", "event_span"} or (acc == "event_scope" and "parent_span" in calls and "lookup_current" not in calls):
                ck.ok(rid, "FmtContext::%s is the event's" % acc, fn=fc.path)
            else:
                ck.bad(rid, "FmtContext::%s is the event's" % acc, where(fc.raw["sp"]), "calls %s" % sorted(c for c in calls if c), fn=fc.path)
    if found < 2:
        ck.bad(rid, "layers that describe an event's span context", "workspace", "only %d found (fmt and tracing-journald expected)" % found)


def r8(ck):
    """`an explicit parent or explicit root overrides it`: the macros are the front end that carries `parent:` into
    Span::child_of / Event::child_of. Over the generated corpus (every macro x prefix set x field form): a form written
    with `parent: <expr>` builds through child_of with exactly that expression as the parent (the function's argument, or
    the literal None), and a form without one builds through Span::new / Event::dispatch (contextual)."""
    FX = Facts("fx")
    ck.configs.append("fx")
    for fname, exp in sorted(FX.expect.items()):
        if exp["kind"] not in ("span", "event"):
            continue
        b = FX.body("fx_macros::macros_gen::" + fname)
        if b is None:
            continue
        bodies = [b] + FX.closures_of(b)
        explicit, contextual = [], []
        for x in bodies:
            for bb, t in x.calls():
                pth = t["callee"].get("path", "")
                if pth in ("tracing::span::Span::child_of", "tracing_core::event::Event::<'a>::child_of"):
                    explicit.append((x, t))
                elif pth in ("tracing::span::Span::new", "tracing_core::event::Event::<'a>::dispatch"):
                    contextual.append((x, t))
        want = exp.get("parent")
        vkey = "%s! with %s" % (exp["macro"], "parent: " + ("None" if want == "None" else "<span>") if want else "no parent:")
        problem = None
        if want is None:
            if explicit or len(contextual) != 1:
                problem = "a form without `parent:` builds through %s" % ([t["callee"]["path"].rsplit("::", 1)[-1] for _, t in explicit + contextual] or "nothing")
        else:
            if contextual or len(explicit) != 1:
                problem = "`parent: %s` was written but the expansion builds through %s: the contextual parent (the current span) is used instead" % (
                    want, [t["callee"]["path"].rsplit("::", 1)[-1] for _, t in contextual + explicit] or "nothing")
            else:
                x, t = explicit[0]
                o = x.origin(t["argv"][0])
                if want == "None":
                    ok = o[0] == "agg" and o[1]["agg"].get("variant") == "None"
                else:
                    # the fixture's only parameter, possibly captured by the dispatch closure
                    ok = o[0] == "arg" and (x is b and o[1] == 1 or x is not b)
                if not ok:
                    problem = "child_of is given %s, not the written parent `%s`" % (o[0], want)
        if problem:
            ck.bad("C06.R8", vkey, where(b.raw["sp"]), problem + " (fixture %s)" % fname, fn=b.path)
        else:
            ck.ok("C06.R8", "%s [%s!]" % (fname, exp["macro"]), fn=b.path, nontrivial=want is not None)


def r10(ck, F):
    """Between the macros (R8) and the registry's parent table (R3) sits a three-valued tag. Variant order comes from the
    ADT facts, so the rule follows a reordering of the enum."""
    adt = F.adts.get("tracing_core::parent::Parent")
    if not ck.anchor("C06.R10", "tracing_core::parent::Parent", adt):
        return
    idx = {v["name"]: i for i, v in enumerate(adt["variants"])}
    for pre, nm in (("tracing_core::span::Attributes::<'a>::", "Attributes"), ("tracing_core::event::Event::<'a>::", "Event")):
        ctor = {"new": "Parent::Current{}", "new_root": "Parent::Root{}"} if nm == "Attributes" else {"new": "Parent::Current{}"}
        for m, want in ctor.items():
            b = F.body(pre + m)
            if not ck.anchor("C06.R10", "%s::%s" % (nm, m), b):
                continue
            rets = [show(p.ret) for p in PathEval(b).run() if p.end == "return"]
            key = "%s::%s stores %s" % (nm, m, want[:-2])
            if len(rets) == 1 and rets[0].endswith(", %s}" % want):
                ck.ok("C06.R10", key, fn=b.path)
            else:
                ck.bad("C06.R10", key, where(b.raw["sp"]), "builds %s" % rets, fn=b.path)
        # explicit: child_of(parent, ..) / new_child_of(parent: Option<Id>, ..)
        m = "child_of" if nm == "Attributes" else "new_child_of"
        b = F.body(pre + m)
        if ck.anchor("C06.R10", "%s::%s" % (nm, m), b):
            rows = [([(show(c[0]), c[1]) for c in p.conds], show(p.ret)) for p in PathEval(b).run() if p.end == "return"]
            key = "%s::%s stores the given parent as Explicit%s" % (nm, m, "" if nm == "Attributes" else " (None -> Root)")
            if nm == "Attributes":
                ok = len(rows) == 1 and rows[0][1].endswith("Parent::Explicit{arg1}}")
            else:
                ok = len(rows) == 2 and all((("Parent::Root{}" in r) if any(v == 0 for t, v in c) else ("Parent::Explicit{(into(arg1) as Some).0}" in r)) for c, r in rows)
            if ok:
                ck.ok("C06.R10", key, fn=b.path)
            else:
                ck.bad("C06.R10", key, where(b.raw["sp"]), "rows %s" % rows, fn=b.path)
        for m, var in (("is_root", "Root"), ("is_contextual", "Current")):
            b = F.body(pre + m)
            if not ck.anchor("C06.R10", "%s::%s" % (nm, m), b):
                continue
            rows = {}
            for p in PathEval(b).run():
                if p.end == "return":
                    d = [c for c in p.conds if show(c[0]) == "discr(arg1.parent)"]
                    rows[d[0][1] if d else "?"] = show(p.ret)
            key = "%s::%s is true exactly for Parent::%s" % (nm, m, var)
            if rows.get(idx[var]) == "1" and all(v == "0" for k, v in rows.items() if k != idx[var]) and len(rows) >= 2:
                ck.ok("C06.R10", key, fn=b.path)
            else:
                ck.bad("C06.R10", key, where(b.raw["sp"]), "rows %s (variant indices %s)" % (rows, idx), fn=b.path)
        b = F.body(pre + "parent")
        if ck.anchor("C06.R10", "%s::parent" % nm, b):
            rows = {}
            for p in PathEval(b).run():
                if p.end == "return":
                    d = [c for c in p.conds if show(c[0]) == "discr(arg1.parent)"]
                    rows[d[0][1] if d else "?"] = show(p.ret)
            key = "%s::parent yields the id exactly for Parent::Explicit" % nm
            if rows.get(idx["Explicit"], "").startswith("Option::Some{(arg1.parent as Explicit).0") and all(v.startswith("Option::None") for k, v in rows.items() if k != idx["Explicit"]):
                ck.ok("C06.R10", key, fn=b.path)
            else:
                ck.bad("C06.R10", key, where(b.raw["sp"]), "rows %s" % rows, fn=b.path)
