"""Finite-domain evaluation of the paths PathEval enumerated: a path's conditions and its return term are evaluated on
concrete representatives of a small abstract domain (booleans, Option of small ints), to turn a function into a complete
decision table. Only the term shapes listed here are understood; anything else raises Undecided (the caller then reports
the rows it could not decide instead of guessing)."""


class Undecided(Exception):
    pass


LEVELS = {"OFF": 0, "ERROR": 1, "WARN": 2, "INFO": 3, "DEBUG": 4, "TRACE": 5}


def _opt_key(v):
    # Option's derived order: None < Some(_)
    return (0, 0) if v is None else (1, v[1] if isinstance(v, tuple) else v)


def feval(t, env, body=None, hooks=None):
    k = t[0]
    if hooks:
        for h in hooks:
            r = h(t, env)
            if r is not NotImplemented:
                return r
    if k == "arg":
        key = "arg%d" % t[1]
        if key in env:
            return env[key]
        raise Undecided("argument %d" % t[1])
    if k == "field":
        if t[1] == ("arg", 1) and ("self." + str(t[2])) in env:
            return env["self." + str(t[2])]
        if t[1][0] == "downcast" and t[2] == "0":
            inner = feval(t[1][1], env, body, hooks)
            if t[1][2] in ("Continue", "Some", "Ok") and isinstance(inner, tuple) and inner[0] == "Some":
                return inner[1]
            raise Undecided("payload of %s" % (t[1][2],))
        raise Undecided("field %s" % (t[2],))
    if k == "const":
        if isinstance(t[2], bool):
            return t[2]
        if isinstance(t[2], int):
            return t[2]
        if isinstance(t[2], tuple) and t[2] and t[2][0] == "promoted" and body is not None:
            return _promoted(body, t[2][1])
        raise Undecided("constant %r" % (t[2],))
    if k == "agg":
        if t[1] == "core::option::Option":
            return None if t[2] == "None" else ("Some", feval(t[3][0], env, body, hooks))
        raise Undecided("aggregate %s" % t[1])
    if k == "discr":
        v = feval(t[1], env, body, hooks)
        inner = t[1]
        if inner[0] == "call" and inner[1].endswith("try_trait::Try::branch"):
            return 0 if v is not None else 1          # Continue / Break
        return 0 if v is None else 1                  # Option: None = 0, Some = 1
    if k == "call":
        p = t[1]
        a = t[2]
        if p.endswith("try_trait::Try::branch"):
            return feval(a[0], env, body, hooks)
        if p.endswith("FromResidual::from_residual"):
            return None
        if p.endswith("Option::<T>::is_none"):
            return feval(a[0], env, body, hooks) is None
        if p.endswith("Option::<T>::is_some"):
            return feval(a[0], env, body, hooks) is not None
        if p in ("core::cmp::max", "core::cmp::min", "core::cmp::Ord::max", "core::cmp::Ord::min"):
            x, y = feval(a[0], env, body, hooks), feval(a[1], env, body, hooks)
            opt = x is None or y is None or isinstance(x, tuple) or isinstance(y, tuple)
            kx, ky = (_opt_key(x), _opt_key(y)) if opt else (x, y)
            if p.endswith("max"):
                return y if ky >= kx else x
            return x if kx <= ky else y
        if p.endswith("PartialEq::eq"):
            return feval(a[0], env, body, hooks) == feval(a[1], env, body, hooks)
        if p.endswith("PartialEq::ne"):
            return feval(a[0], env, body, hooks) != feval(a[1], env, body, hooks)
        raise Undecided("call %s" % p.rsplit("::", 2)[-1])
    if k == "bin":
        x, y = feval(t[2], env, body, hooks), feval(t[3], env, body, hooks)
        return {"Eq": x == y, "Ne": x != y, "BitAnd": bool(x) and bool(y), "BitOr": bool(x) or bool(y)}.get(t[1], NotImplemented) \
            if t[1] in ("Eq", "Ne", "BitAnd", "BitOr") else _raise("operator %s" % t[1])
    if k == "un" and t[1] == "Not":
        return not feval(t[2], env, body, hooks)
    raise Undecided("term %s" % k)


def _raise(msg):
    raise Undecided(msg)


def _promoted(body, idx):
    for pr in body.raw.get("promoted", []):
        if pr.get("idx") != idx:
            continue
        vals = {}
        for st in pr.get("stmts", []):
            rv = st.get("rv") or {}
            agg = rv.get("agg")
            if agg and agg.get("adt") == "core::option::Option":
                if agg.get("variant") == "None":
                    vals[st["lhs"]["l"]] = None
                else:
                    c = (rv["ops"][0].get("const") or {})
                    name = (c.get("def") or "").rsplit("::", 1)[-1]
                    if name in LEVELS:
                        vals[st["lhs"]["l"]] = ("Some", LEVELS[name])
            if "ref" in rv and rv["ref"].get("l") in vals:
                return vals[rv["ref"]["l"]]
        for c in pr.get("consts", []):
            name = (c.get("def") or "").rsplit("::", 1)[-1]
            if name in LEVELS:
                return LEVELS[name]
    raise Undecided("promoted %s" % idx)


def table(body, paths, envs, hooks=None):
    """For each env: (result, None) from the unique path whose conditions all hold, or (None, reason)."""
    out = []
    for env in envs:
        hit = []
        reason = None
        for p in paths:
            try:
                ok = True
                for c in p.conds:
                    if c[0][0] == "const":
                        continue
                    v = feval(c[0], env, body, hooks)
                    v = int(v) if isinstance(v, bool) else v
                    if c[1] is not None:
                        if v != c[1]:
                            ok = False
                            break
                    elif v in (c[2] or []):
                        ok = False
                        break
                if ok:
                    hit.append(feval(p.ret, env, body, hooks))
            except Undecided as e:
                reason = str(e)
                hit = None
                break
        if hit is None:
            out.append((None, "cannot evaluate: " + reason))
        elif len(set(map(repr, hit))) != 1:
            out.append((None, "%d paths apply" % len(hit)))
        else:
            out.append((hit[0], None))
    return out
