"""Path enumeration with symbolic terms over MIR (decision-table extraction).

No solver and no execution: each acyclic path of a small function is walked once, locals are bound to
*terms* built from the MIR statements (constants, parameters, call results, comparisons), and the
branch conditions and the returned term are recorded. Callers compare the resulting table with an
oracle table over a finite domain.

Terms (tuples):
  ('const', ty, value)            value: int | str | ('def', path) | ('fn', path) | ('static', path) | None
  ('arg', i)                      i-th MIR argument local (1-based)
  ('field', term, name)           projection that could not be resolved through an aggregate
  ('call', callee_path, (args..), bb)
  ('bin', op, a, b) / ('un', op, a) / ('discr', t) / ('cast', kind, t, ty)
  ('agg', adt_or_kind, variant, (ops..))
  ('unknown', text)
References and dereferences are transparent.
"""


FOLDABLE_DISCR_TYPES = {"tracing_core::metadata::Level", "tracing_core::metadata::LevelInner"}


def const_term(c):
    ty = c.get("ty")
    if "int" in c:
        v = c["int"]
        if isinstance(v, str):
            v = int(v)
        return ("const", ty, v, c.get("def"))
    if "str" in c:
        return ("const", ty, c["str"], c.get("def"))
    if "fn" in c:
        return ("const", ty, ("fn", c["fn"]), None)
    if "static" in c:
        return ("const", ty, ("static", c["static"]), None)
    if "promoted" in c:
        return ("const", ty, ("promoted", c["promoted"], _freeze(c.get("val"))), None)
    if "val" in c:
        return ("const", ty, ("val", _freeze(c["val"])), c.get("def"))
    if "def" in c:
        return ("const", ty, ("def", c["def"]), c["def"])
    if c.get("zst"):
        return ("const", ty, ("zst",), None)
    return ("const", ty, None, None)


def _freeze(x):
    if isinstance(x, dict):
        return tuple(sorted((k, _freeze(v)) for k, v in x.items()))
    if isinstance(x, list):
        return tuple(_freeze(v) for v in x)
    return x


class Path:
    __slots__ = ("blocks", "conds", "ret", "calls", "end", "env")

    def __init__(self):
        self.blocks = []
        self.conds = []   # (term, value|None (otherwise), [arm values])
        self.ret = None
        self.calls = []   # (bb, callee dict, [arg terms], term)
        self.end = None   # 'return' | 'resume' | 'loop' | 'unreachable' | 'diverge'
        self.env = None


class PathEval:
    def __init__(self, body, unwind=False, max_paths=4096, max_len=400, max_visits=1):
        self.body = body
        self.unwind = unwind
        self.max_paths = max_paths
        self.max_len = max_len
        self.max_visits = max_visits      # >1 unrolls loops: a block may be visited that many times on one path
        self.truncated = False

    # --------------------------------------------------------------- terms
    def place(self, env, pl):
        l = pl["l"]
        t = env.get(l)
        if env.get(("escaped", l)):
            # a `&mut` to this local was captured by a closure: the closure may have written it behind our back
            t = ("unknown", "escaped _%d" % l)
        if t is None:
            if 1 <= l <= self.body.argc:
                t = ("arg", l)
            else:
                t = ("unknown", "_%d" % l)
        first = True
        for p in pl.get("p", []):
            if p == "*":
                continue
            if isinstance(p, dict):
                if "f" in p:
                    if first and ("fld", l, p["f"]) in env:
                        t = env[("fld", l, p["f"])]
                        first = False
                        continue
                    first = False
                    t = self.project(t, p)
                elif "dc" in p:
                    t = ("downcast", t, p.get("v", p["dc"]))
                else:
                    t = ("field", t, "?")
            else:
                t = ("field", t, str(p))
        return t

    def project(self, t, p):
        name = p.get("n", str(p["f"]))
        base = t
        variant = None
        if t[0] == "downcast":
            base = t[1]
            variant = t[2]
        if base[0] == "agg" and p["f"] < len(base[3]):
            return base[3][p["f"]]
        if variant is not None:
            return ("field", ("downcast", base, variant), name)
        return ("field", base, name)

    def operand(self, env, op):
        if "const" in op:
            return const_term(op["const"])
        pl = op.get("copy") or op.get("move")
        if pl is None:
            return ("unknown", str(op)[:60])
        return self.place(env, pl)

    def rvalue(self, env, rv):
        if "use" in rv:
            return self.operand(env, rv["use"])
        if "ref" in rv:
            return self.place(env, rv["ref"])
        if "rawptr" in rv:
            return self.place(env, rv["rawptr"])
        if "cast" in rv:
            inner = self.operand(env, rv["op"])
            k = rv["cast"]
            if k.startswith("ptr:") or k in ("PtrToPtr", "Transmute", "Subtype"):
                return inner
            return ("cast", k, inner, rv["ty"])
        if "bin" in rv:
            return ("bin", rv["bin"], self.operand(env, rv["a"]), self.operand(env, rv["b"]))
        if "un" in rv:
            return ("un", rv["un"], self.operand(env, rv["a"]))
        if "discr" in rv:
            t = self.place(env, rv["discr"])
            # discriminant of a named constant of a transparent newtype over a fieldless enum with explicit
            # discriminants (tracing_core::Level(LevelInner)): the evaluated scalar *is* the discriminant
            inner = t[1] if (t[0] == "field" and t[2] == "0") else t
            if inner[0] == "const" and isinstance(inner[2], int) and inner[1] in FOLDABLE_DISCR_TYPES:
                return ("const", "isize", inner[2], None)
            return ("discr", t)
        if "agg" in rv:
            a = rv["agg"]
            kind = a.get("adt") or ("closure:" + a["closure"] if "closure" in a else
                                    "coroutine:" + a["coroutine"] if "coroutine" in a else
                                    "tuple" if a.get("tuple") else "array" if "array" in a else "other")
            return ("agg", kind, a.get("variant"), tuple(self.operand(env, o) for o in rv["ops"]))
        if "tls" in rv:
            return ("const", None, ("static", rv["tls"]), None)
        if "repeat" in rv:
            return ("repeat", self.operand(env, rv["repeat"]))
        return ("unknown", str(rv.get("other"))[:80])

    def assign(self, env, lhs, term):
        if "p" not in lhs or all(p == "*" for p in lhs.get("p", [])) and False:
            env[lhs["l"]] = term
            return
        # field write: rebuild as a shallow record
        base = env.get(lhs["l"])
        projs = [p for p in lhs["p"] if p != "*"]
        if not projs:
            # write through a reference: the referent is unknown to us; record on the pointer local
            env[lhs["l"]] = term
            return
        if len(projs) == 1 and isinstance(projs[0], dict) and "f" in projs[0]:
            idx = projs[0]["f"]
            if base is not None and base[0] == "agg":
                ops = list(base[3])
                while len(ops) <= idx:
                    ops.append(("unknown", "uninit"))
                ops[idx] = term
                env[lhs["l"]] = ("agg", base[1], base[2], tuple(ops))
            elif base is None and not (1 <= lhs["l"] <= self.body.argc):
                ops = [("unknown", "uninit")] * (idx + 1)
                ops[idx] = term
                env[lhs["l"]] = ("agg", "partial", None, tuple(ops))
            else:
                # field write into a parameter / opaque value: remember the override, keep the rest of the value intact
                env[("fld", lhs["l"], idx)] = term
        # deeper writes are ignored (terms stay conservative)

    # --------------------------------------------------------------- paths
    def run(self, start=0):
        out = []
        # iterative DFS over (bb, env, path-so-far)
        stack = [(start, {}, Path(), frozenset())]
        while stack:
            bb, env, path, seen = stack.pop()
            if len(out) >= self.max_paths:
                self.truncated = True
                break
            visits = path.blocks.count(bb) if self.max_visits > 1 else (1 if bb in seen else 0)
            if visits >= self.max_visits or len(path.blocks) > self.max_len:
                path.end = "loop"
                path.env = env
                out.append(path)
                continue
            seen = seen | {bb}
            path.blocks.append(bb)
            blk = self.body.blocks[bb]
            for s in blk["stmts"]:
                if s["k"] == "assign":
                    rv = s["rv"]
                    # `_r = &mut _x` ... `closure { .., move _r }`: the closure can write _x whenever it runs
                    if "ref" in rv and rv.get("mut") and "p" not in rv["ref"] and "p" not in s["lhs"]:
                        env[("mutref", s["lhs"]["l"])] = rv["ref"]["l"]
                    if "agg" in rv and (rv["agg"].get("closure") or rv["agg"].get("coroutine")):
                        for o in rv["ops"]:
                            pl = o.get("move") or o.get("copy")
                            if pl and "p" not in pl and ("mutref", pl["l"]) in env:
                                env[("escaped", env[("mutref", pl["l"])])] = True
                    self.assign(env, s["lhs"], self.rvalue(env, s["rv"]))
                elif s["k"] == "setdiscr":
                    env[s["lhs"]["l"]] = ("agg", "setdiscr", s["variant"], ())
            t = blk["term"]
            k = t["k"]
            if k == "return":
                path.ret = env.get(0, ("unknown", "_0"))
                path.end = "return"
                path.env = env
                out.append(path)
            elif k in ("resume", "terminate", "unreachable", "coroutine_drop"):
                path.end = k
                path.env = env
                out.append(path)
            elif k == "goto":
                stack.append((t["bb"], env, path, seen))
            elif k == "switch":
                cond = self.operand(env, t["on"])
                vals = [a[0] for a in t["arms"]]
                succs = [(a[0], a[1]) for a in t["arms"]] + [(None, t["otherwise"])]
                # constant-fold switches on known constants
                if cond[0] == "const" and isinstance(cond[2], int):
                    hit = [s for s in succs if s[0] == cond[2]] or [succs[-1]]
                    succs = hit[:1]
                elif (cond[0] == "discr" and cond[1][0] == "call" and cond[1][1].endswith("try_trait::Try::branch") and cond[1][2]
                      and cond[1][2][0][0] == "call" and cond[1][2][0][1].endswith("try_trait::FromResidual::from_residual")):
                    # `x?` on a value that is itself the `return Err/None` of an inner `?` (a helper that was inlined):
                    # from_residual(..) is the Break side for Option and Result alike, so branch() of it breaks again
                    hit = [s for s in succs if s[0] == 1] or [succs[-1]]
                    succs = hit[:1]
                    path.conds.append((cond, 1, vals))
                    for v, nb in succs:
                        stack.append((nb, env, path, seen))
                    continue
                else:
                    # path consistency: a term already decided earlier on this path keeps its value
                    # (e.g. `if let Ok(x) = r` followed by the drop-elaboration switch on the same discriminant)
                    for pc in path.conds:
                        if pc[0] == cond and pc[0][0] != "const":
                            if pc[1] is not None:
                                hit = [s for s in succs if s[0] == pc[1]] or [succs[-1]]
                                succs = hit[:1]
                            else:
                                succs = [s for s in succs if s[0] is None or s[0] not in pc[2]] or succs[-1:]
                            break
                for v, nb in reversed(succs):
                    p2 = self._fork(path)
                    p2.conds.append((cond, v, vals))
                    stack.append((nb, dict(env), p2, seen))
            elif k in ("call", "tailcall"):
                args = [self.operand(env, a) for a in t["argv"]]
                c = t["callee"]
                cp = c.get("path") or "<ptr>"
                term = ("call", cp, tuple(args), bb) if visits == 0 else ("call", cp, tuple(args), bb, visits)
                path.calls.append((bb, c, args, term))
                if "dest" in t:
                    self.assign(env, t["dest"], _fold_option(cp, args, term))
                nxt = []
                if t.get("ret") is not None:
                    nxt.append(t["ret"])
                if self.unwind and isinstance(t.get("unwind"), int):
                    nxt.append(t["unwind"])
                if not nxt:
                    path.end = "diverge"
                    path.env = env
                    out.append(path)
                elif len(nxt) == 1:
                    stack.append((nxt[0], env, path, seen))
                else:
                    for nb in reversed(nxt):
                        stack.append((nb, dict(env), self._fork(path), seen))
            elif k in ("drop", "assert", "yield"):
                nxt = [t["ret"]] if t.get("ret") is not None else []
                if self.unwind and isinstance(t.get("unwind"), int):
                    nxt.append(t["unwind"])
                if k == "drop":
                    path.calls.append((bb, {"path": "<drop>", "drop_ty": t.get("ty")}, [self.place(env, t["place"])], ("drop",)))
                if not nxt:
                    path.end = "diverge"
                    path.env = env
                    out.append(path)
                elif len(nxt) == 1:
                    stack.append((nxt[0], env, path, seen))
                else:
                    for nb in reversed(nxt):
                        stack.append((nb, dict(env), self._fork(path), seen))
            else:
                path.end = k
                path.env = env
                out.append(path)
        return out

    def _fork(self, p):
        q = Path()
        q.blocks = list(p.blocks)
        q.conds = list(p.conds)
        q.calls = list(p.calls)
        return q


def show(t, depth=0):
    """Compact text for a term."""
    if t is None:
        return "?"
    k = t[0]
    if depth > 6:
        return "…"
    if k == "const":
        v = t[2]
        if t[3]:
            return t[3].split("::")[-2] + "::" + t[3].split("::")[-1] if "::" in t[3] else t[3]
        if isinstance(v, tuple):
            return "%s" % (v[1] if len(v) > 1 else v[0],)
        return repr(v)
    if k == "arg":
        return "arg%d" % t[1]
    if k == "field":
        return "%s.%s" % (show(t[1], depth + 1), t[2])
    if k == "downcast":
        return "(%s as %s)" % (show(t[1], depth + 1), t[2])
    if k == "call":
        return "%s(%s)" % (t[1].split("::")[-1] if not t[1].startswith("<") else t[1], ", ".join(show(a, depth + 1) for a in t[2]))
    if k == "bin":
        return "(%s %s %s)" % (show(t[2], depth + 1), t[1], show(t[3], depth + 1))
    if k == "un":
        return "%s(%s)" % (t[1], show(t[2], depth + 1))
    if k == "discr":
        return "discr(%s)" % show(t[1], depth + 1)
    if k == "cast":
        return "(%s as %s)" % (show(t[2], depth + 1), t[3])
    if k == "agg":
        nm = (t[1] or "").split("::")[-1]
        if t[2]:
            nm += "::" + str(t[2])
        return "%s{%s}" % (nm, ", ".join(show(a, depth + 1) for a in t[3]))
    return "%s" % (t,)


def _none_like(t):
    """an Option known to be None on this path: the literal, or the `return None` an inlined helper's `?` produced"""
    return isinstance(t, tuple) and t and ((t[0] == "agg" and str(t[1]).endswith("option::Option") and t[2] == "None") or
                                           (t[0] == "call" and str(t[1]).endswith("FromResidual::from_residual")))


def _fold_option(cp, args, term):
    """Value of an Option combinator applied to an Option whose variant is known on this path (what an inlined helper's
    `Some(x)` / `None` / `?` leaves behind): None.map(f) = None, None.unwrap_or(d) = d, Some(v).unwrap_or(d) = v, ... so that
    a test on it folds and infeasible branches are not explored. Anything else is the call term itself."""
    if not cp.startswith("core::option::Option::<") or not args:
        return term
    m = cp.rsplit("::", 1)[-1]
    x = args[0]
    some = x[3][0] if (isinstance(x, tuple) and x and x[0] == "agg" and str(x[1]).endswith("option::Option") and x[2] == "Some" and x[3]) else None
    if _none_like(x):
        if m in ("map", "and_then", "filter", "and", "zip", "copied", "cloned", "as_ref", "as_deref", "flatten"):
            return ("agg", "core::option::Option", "None", ())
        if m in ("unwrap_or", "map_or") and len(args) >= 2:
            return args[1]
        if m in ("is_some", "is_some_and"):
            return ("const", "bool", 0, None)
        if m == "is_none":
            return ("const", "bool", 1, None)
    elif some is not None:
        if m == "unwrap_or":
            return some
        if m == "is_some":
            return ("const", "bool", 1, None)
        if m == "is_none":
            return ("const", "bool", 0, None)
    return term


_COMMUTATIVE = {"BitAnd", "BitOr", "BitXor", "Eq", "Ne", "Add", "Mul", "AddWithOverflow", "MulWithOverflow"}
_MIRROR = {"Gt": "Lt", "Ge": "Le"}


def canon(t):
    """One spelling per term, for comparing against a reference: operands of commutative operators in text order,
    `a > b` / `a >= b` written `b < a` / `b <= a`; applied bottom-up through every term constructor."""
    if not isinstance(t, tuple) or not t:
        return t
    k = t[0]
    if k == "bin":
        op, a, b = t[1], canon(t[2]), canon(t[3])
        if op in _MIRROR:
            op, a, b = _MIRROR[op], b, a
        elif op in _COMMUTATIVE and show(b) < show(a):
            a, b = b, a
        return ("bin", op, a, b) + tuple(t[4:])
    if k in ("field", "downcast", "discr"):
        return (k, canon(t[1])) + tuple(t[2:])
    if k in ("un", "cast"):
        return (k, t[1], canon(t[2])) + tuple(t[3:])
    if k == "call":
        return (k, t[1], tuple(canon(a) for a in t[2])) + tuple(t[3:])
    if k == "agg":
        return (k, t[1], t[2], tuple(canon(a) for a in t[3])) + tuple(t[4:])
    return t
