"""Reusable queries over bodies: place enumeration, field uses, path guards, atomics."""
from .sym import PathEval, show, _freeze
from .model import proj_names

ORD_RANK = {"Relaxed": 0, "Release": 1, "Acquire": 1, "AcqRel": 2, "SeqCst": 3}


def _op_places(op):
    if not isinstance(op, dict):
        return
    for k in ("copy", "move"):
        if k in op:
            yield op[k]


def rvalue_places(rv):
    for k in ("ref", "rawptr", "discr"):
        if k in rv:
            yield rv[k]
    for k in ("use", "op", "a", "b", "repeat"):
        if k in rv and isinstance(rv[k], dict):
            yield from _op_places(rv[k])
    for o in rv.get("ops", []):
        yield from _op_places(o)


def iter_places(body):
    """(bb, stmt index | 'term', role, place)"""
    for i, blk in enumerate(body.blocks):
        for j, s in enumerate(blk["stmts"]):
            if "lhs" in s:
                yield i, j, "write", s["lhs"]
            for pl in rvalue_places(s.get("rv", {})):
                yield i, j, "read", pl
        t = blk["term"]
        if t["k"] in ("call", "tailcall"):
            for a in t["argv"]:
                for pl in _op_places(a):
                    yield i, "term", "arg", pl
            if "dest" in t:
                yield i, "term", "write", t["dest"]
        elif t["k"] == "drop":
            yield i, "term", "drop", t["place"]
        elif t["k"] == "switch":
            for pl in _op_places(t["on"]):
                yield i, "term", "read", pl


def has_field(place, adt, name):
    for p in place.get("p", []):
        if isinstance(p, dict) and p.get("adt") == adt and p.get("n") == name:
            return True
    return False


def field_uses(F, adt, name, crate=None):
    """Every place mentioning field `adt.name` directly: (body, bb, idx, role, place)."""
    out = []
    for b in F.body_list:
        if crate and b.crate != crate:
            continue
        for bb, idx, role, pl in iter_places(b):
            if has_field(pl, adt, name):
                out.append((b, bb, idx, role, pl))
    return out


def field_users(F, adt, name, crate=None):
    """What is done with each reference to the field: follows `_x = &(..).field` into the call using _x.
    Returns list of (body, bb, kind, detail) where kind is 'call:<method>' | 'assign' | 'read' | 'drop'."""
    out = []
    for b in F.body_list:
        if crate and b.crate != crate:
            continue
        uses = []
        for bb, idx, role, pl in iter_places(b):
            if has_field(pl, adt, name):
                uses.append((bb, idx, role, pl))
        if not uses:
            continue
        for bb, idx, role, pl in uses:
            last = [p for p in pl.get("p", []) if p != "*"]
            direct = bool(last) and isinstance(last[-1], dict) and last[-1].get("adt") == adt and last[-1].get("n") == name
            if role == "write" and direct:
                out.append((b, bb, "assign", pl))
                continue
            if role == "arg":
                t = b.blocks[bb]["term"]
                out.append((b, bb, "call:" + (t["callee"].get("method") or t["callee"].get("path", "?")), t))
                continue
            if idx != "term":
                s = b.blocks[bb]["stmts"][idx]
                lhs = s.get("lhs")
                if lhs is not None and "p" not in lhs:
                    # find calls whose argument originates from this temp
                    found = False
                    for cbb, t in b.calls():
                        for a in t["argv"]:
                            pl2 = a.get("copy") or a.get("move")
                            if pl2 and _derives_from_local(b, pl2, lhs["l"]):
                                out.append((b, cbb, "call:" + (t["callee"].get("method") or t["callee"].get("path", "?")), t))
                                found = True
                    if not found:
                        out.append((b, bb, "read", pl))
                    continue
            out.append((b, bb, role, pl))
    return out


def _derives_from_local(body, pl, target, depth=0):
    l = pl["l"]
    if l == target:
        return True
    if depth > 8:
        return False
    ds = body.defs().get(l, [])
    if len(ds) != 1 or ds[0][0] != "stmt":
        return False
    rv = ds[0][3]
    src = rv.get("ref") or rv.get("rawptr")
    if src is None and "use" in rv:
        src = rv["use"].get("copy") or rv["use"].get("move")
    if src is None and "cast" in rv:
        src = rv["op"].get("copy") or rv["op"].get("move")
    if src is None:
        return False
    return _derives_from_local(body, src, target, depth + 1)


def guards_of(body, target_bb, unwind=False, max_paths=4096):
    """Conditions (text, taken value) that hold on *every* acyclic path from entry to target_bb,
    and the list of those paths."""
    ev = PathEval(body, unwind=unwind, max_paths=max_paths)
    allp = ev.run()
    paths = [p for p in allp if target_bb in p.blocks]
    if ev.truncated:
        # the path budget ran out (functions with many independent option tests): intersecting the conditions of the paths
        # that happened to be explored would invent guards. Decide each candidate on the control-flow graph instead: the
        # edge (switch block -> successor) guards the target iff the target is unreachable from the entry without it.
        edges = {}
        for p in allp:
            ci = 0
            for k, bb in enumerate(p.blocks[:-1]):
                if body.blocks[bb]["term"]["k"] == "switch":
                    if ci < len(p.conds):
                        c = p.conds[ci]
                        edges.setdefault((bb, p.blocks[k + 1]), (show(c[0]), c[1]))
                        ci += 1
        out = set()
        for (sb, nxt), cond in edges.items():
            succs = body.succ(sb, unwind)
            if succs.count(nxt) != 1:
                continue
            # reachability of the target with this one edge removed
            seen, st = set(), [0]
            while st:
                b = st.pop()
                if b in seen:
                    continue
                seen.add(b)
                for n in body.succ(b, unwind):
                    if not (b == sb and n == nxt):
                        st.append(n)
            if target_bb not in seen:
                out.add(cond)
        return out, paths
    common = None
    for p in paths:
        idx = p.blocks.index(target_bb)
        # conditions decided before reaching target: those whose switch block precedes target in the path
        conds = set()
        ci = 0
        for k, bb in enumerate(p.blocks[:idx]):
            if body.blocks[bb]["term"]["k"] == "switch":
                if ci < len(p.conds):
                    c = p.conds[ci]
                    conds.add((show(c[0]), c[1]))
                    ci += 1
        common = conds if common is None else (common & conds)
    return (common or set()), paths


def ordering_of(body, op):
    o = body.origin(op)
    if o[0] == "agg" and o[1]["agg"].get("adt") == "core::sync::atomic::Ordering":
        return o[1]["agg"].get("variant")
    if o[0] == "const":
        v = o[1].get("val") or {}
        return v.get("variant")
    return None


def recv_fields(body, t, idx=0):
    """(arg index or None, [field names]) of a call argument's origin"""
    if len(t["argv"]) <= idx:
        return None, []
    o = body.origin(t["argv"][idx])
    if o[0] == "arg":
        return o[1], [n for n in proj_names(o[2]) if not n.startswith("as ")]
    if o[0] == "call":
        m = o[2]["callee"].get("method")
        rest = [n for n in proj_names(o[3]) if not n.startswith("as ")]
        # see through Option::as_ref / as_mut / Deref on a field of an argument
        if m in ("as_ref", "as_mut", "deref", "deref_mut", "as_deref") and o[2]["argv"]:
            who, inner = recv_fields(body, o[2], 0)
            if isinstance(who, int):
                return who, inner + [r for r in rest if r != "0"]
        return ("call", m), rest
    return None, []


def const_int(body, op):
    o = body.origin(op)
    if o[0] == "const":
        v = o[1].get("int")
        return int(v) if isinstance(v, str) else v
    return None


def strip_views(t):
    """Look through Option::as_ref/as_mut/Deref/clone-of-reference views of a term."""
    while t and t[0] == "call" and t[1].rsplit("::", 1)[-1] in ("as_ref", "as_mut", "deref", "deref_mut", "as_deref", "borrow") and t[2]:
        t = t[2][0]
    return t


def option_test(cond):
    """For a path condition (term, value, arms): if it tests an Option for Some/None return (base term, is_some)."""
    term, val = cond[0], cond[1]
    if term[0] == "discr":
        base = strip_views(term[1])
        if val == 1:
            return base, True
        if val == 0:
            return base, False
        # `otherwise` edge: Some iff the explicit arms list only 0
        arms = cond[2] if len(cond) > 2 else []
        if arms == [0]:
            return base, True
        if arms == [1]:
            return base, False
        return base, None
    if term[0] == "call" and term[2]:
        m = term[1].rsplit("::", 1)[-1]
        if m == "is_some":
            return strip_views(term[2][0]), val != 0
        if m == "is_none":
            return strip_views(term[2][0]), val == 0
    return None, None


def drop_blocks(body, local):
    """Blocks at which the value in `local` (or in a local it was wholly moved into) is dropped: a Drop terminator on
    it, or a call `core::mem::drop(move local)`."""
    aliases = {local}
    for _ in range(4):
        for i, j, st in body.stmts():
            if st["k"] == "assign" and "p" not in st["lhs"]:
                src = st["rv"].get("use", {}).get("move")
                if src and "p" not in src and src["l"] in aliases:
                    aliases.add(st["lhs"]["l"])
    out = []
    for i, blk in enumerate(body.blocks):
        t = blk["term"]
        if t["k"] == "drop" and "p" not in t["place"] and t["place"]["l"] in aliases:
            out.append(i)
        elif t["k"] == "call" and t["callee"].get("path") == "core::mem::drop" and t["argv"]:
            pl = t["argv"][0].get("move")
            if pl and "p" not in pl and pl["l"] in aliases:
                out.append(i)
    return out


def dropped_on_all_exits(body, call_bb, drops, max_paths=20000):
    """Path-sensitive (drop flags constant-folded): on every path through the call at `call_bb` that ends in `return`
    or `resume`, one of the `drops` blocks occurs after the call. Returns a list of problems (empty = holds)."""
    t = body.term(call_bb)
    if not isinstance(t.get("unwind"), int):
        return ["the call at bb%d unwinds straight out of the function: nothing is dropped on panic" % call_bb]
    ev = PathEval(body, unwind=True, max_paths=max_paths)
    problems = set()
    n = 0
    for p in ev.run():
        if p.end not in ("return", "resume") or call_bb not in p.blocks:
            continue
        n += 1
        i = p.blocks.index(call_bb)
        if not any(b in drops for b in p.blocks[i + 1:]):
            problems.add("a path ending in %s passes no drop of the guard after the call" % p.end)
    if ev.truncated:
        problems.add("path enumeration truncated")
    if not n:
        problems.add("no complete path through the call")
    return sorted(problems)


def closure_of_term(t):
    if t and t[0] == "agg" and isinstance(t[1], str) and t[1].startswith("closure:"):
        return t[1][len("closure:"):]
    if t and t[0] == "const" and len(t) > 3 and isinstance(t[3], str) and "{closure" in t[3]:
        return t[3]
    return None


def peel_bool(F, term, depth=0):
    """See through `opt.map(|x| TEST).unwrap_or(false)` / `opt.map_or(false, |x| TEST)` / `opt.is_some_and(|x| TEST)`:
    returns the closure's (unique) return term, else the term itself. The polarity is unchanged by these wrappers and the
    None case yields false."""
    if depth > 4 or not term or term[0] != "call":
        return term
    name = term[1].rsplit("::", 1)[-1]
    args = term[2]

    def closure_ret(ct):
        cd = closure_of_term(ct)
        b = F.body(cd) if cd else None
        if b is None:
            return None
        rets = {_freeze(p.ret) for p in PathEval(b).run() if p.end == "return"}
        return list(rets)[0] if len(rets) == 1 else None
    if name == "unwrap_or" and len(args) == 2 and args[1][0] == "const" and args[1][2] == 0:
        inner = args[0]
        if inner[0] == "call" and inner[1].rsplit("::", 1)[-1] == "map" and len(inner[2]) == 2:
            r = closure_ret(inner[2][1])
            if r is not None:
                return peel_bool(F, r, depth + 1)
    if name == "map_or" and len(args) == 3 and args[1][0] == "const" and args[1][2] == 0:
        r = closure_ret(args[2])
        if r is not None:
            return peel_bool(F, r, depth + 1)
    if name == "is_some_and" and len(args) == 2:
        r = closure_ret(args[1])
        if r is not None:
            return peel_bool(F, r, depth + 1)
    return term


def loop_all_any(body, method):
    """Recognise `for x in xs { if !x.METHOD(..) { return false } } true` (-> 'all') and the dual (-> 'any'), i.e. the
    hand-written loop forms of `xs.iter().all(|x| x.METHOD(..))` / `.any(..)`. Returns 'all', 'any' or None."""
    zero_after = set()      # truth value of the METHOD test right before `return false`
    one_after = set()
    ends = {0: set(), 1: set()}
    for p in PathEval(body, max_visits=2).run():
        if p.end != "return" or p.ret is None or p.ret[0] != "const" or p.ret[2] not in (0, 1):
            if p.end == "return":
                return None
            continue
        last = None
        for c in p.conds:
            t = c[0]
            if t[0] == "call" and t[1].rsplit("::", 1)[-1] == method:
                last = ("test", c[1] != 0)
            elif t[0] == "discr" and t[1][0] == "call" and t[1][1].rsplit("::", 1)[-1] == "next":
                last = ("next", c[1])
        ends[p.ret[2]].add(last)
    if ends[0] and ends[1] and all(x == ("test", False) for x in ends[0]) and all(x and x[0] == "next" and x[1] == 0 for x in ends[1]):
        return "all"
    if ends[0] and ends[1] and all(x == ("test", True) for x in ends[1]) and all(x and x[0] == "next" and x[1] == 0 for x in ends[0]):
        return "any"
    return None


def norm_cmp(term):
    """Normalise a PartialOrd comparison term to its ge/gt form: le(a, b) -> ge(b, a), lt(a, b) -> gt(b, a)."""
    if term and term[0] == "call" and len(term[2]) == 2:
        name = term[1].rsplit("::", 1)[-1]
        if name in ("le", "lt"):
            new = term[1][:-2] + ("ge" if name == "le" else "gt")
            return ("call", new, (term[2][1], term[2][0])) + tuple(term[3:])
    return term


def loop_body_always_calls(body, pred, max_paths=20000):
    """For a `for x in ITER { .. }` loop (Iterator::next tested for Some): on every path from the Some edge of a `next`
    test back to the next `next` call or to a normal exit, a call satisfying `pred` occurs. Returns (n_iterations_seen,
    problems)."""
    problems = set()
    n = 0
    for p in PathEval(body, max_visits=2, max_paths=max_paths).run():
        if p.end not in ("return", "loop"):
            continue
        # positions of `next` calls in the path's call list
        idx = [i for i, c in enumerate(p.calls) if c[1].get("method") == "next" and (c[1].get("trait") or "").endswith("Iterator")]
        for k, i in enumerate(idx):
            call_term = p.calls[i][3]
            tests = [c for c in p.conds if c[0][0] == "discr" and c[0][1] == call_term]
            if not tests or tests[0][1] != 1:
                continue            # None edge (loop exit) or undecided
            seg_end = idx[k + 1] if k + 1 < len(idx) else len(p.calls)
            seg = p.calls[i + 1:seg_end]
            n += 1
            if not any(pred(c) for c in seg):
                if k + 1 < len(idx) or p.end == "loop":
                    problems.add("an iteration ends without the expected call")
                elif p.end == "return":
                    # left the loop early from inside the body (e.g. `?`): acceptable only if it is an error exit
                    if not (p.ret and p.ret[0] in ("call", "agg") and ("Err" in show(p.ret) or "from_residual" in show(p.ret))):
                        problems.add("an iteration leaves the function without the expected call")
    return n, sorted(problems)


def builder_carry_over(ck, F, rid, prefixes):
    """Consuming builder / converter methods (`fn with_x(self, ..) -> Self`, `fn json(self) -> Format<Json, T>`) rebuild
    the struct field by field. A field of the result that is taken from `self` must be taken from the *same-named* field:
    a copy from a different field (`display_level: self.display_target`) silently rewires one option to another.
    Fields given a fresh value (a parameter, a constant, a call) are the method's own business and are not judged."""
    from rulekit import where
    n = 0
    for b in F.body_list:
        if not any(b.path.startswith(p) for p in prefixes) or b.argc < 1 or len(b.raw["locals"]) < 2:
            continue
        ty = str(b.raw["locals"][1])
        base = ty.split("<")[0].lstrip("&").replace("mut ", "")
        carried, crossed, reset = [], [], []
        for i, j, st in b.stmts():
            if st["k"] != "assign" or "agg" not in st["rv"]:
                continue
            a = st["rv"]["agg"]
            if a.get("adt") != base or not a.get("fields"):
                continue
            for f, op in zip(a["fields"], st["rv"]["ops"]):
                o = b.origin(op)
                # a copy of a field is still that field: self.suffix.clone(), .to_owned(), .take()
                hops = 0
                while o[0] == "call" and o[2]["callee"].get("method") in ("clone", "to_owned", "to_string", "take", "cloned", "as_ref", "into") and o[2]["argv"] and hops < 4:
                    o = b.origin(o[2]["argv"][0])
                    hops += 1
                if o[0] == "arg" and o[1] == 1 and o[2]:
                    g = o[2][0].get("n")
                    (carried if g == f else crossed).append((f, g))
                elif o[0] == "call" and len(o) > 3 and o[3] and (o[2]["callee"].get("method") in ("default", "new")) and not o[2]["argv"] and \
                        str(b.raw["locals"][0]).split("<")[0] == base:
                    # `Self { x, ..Self::default() }` in a method that consumes a configured `self`: every option given
                    # before this call is silently put back to its default
                    reset.append(f)
        if reset and (carried or b.argc >= 2):
            n += 1
            ck.bad(rid, "%s keeps the options configured before it" % "::".join(b.path.split("::")[-2:]), where(b.raw["sp"]),
                   "fields %s of the result are taken from a fresh %s::default()/new(), not from `self`: calling this method discards what was configured before it"
                   % (sorted(set(reset)), base.split("::")[-1]), fn=b.path)
            continue
        if not carried and not crossed:
            continue
        n += 1
        flat = b.path
        while "<" in flat:
            flat2 = __import__("re").sub(r"::<[^<>]*>|<[^<>]*>", "", flat)
            if flat2 == flat:
                break
            flat = flat2
        short = "::".join(flat.split("::")[-2:])
        key = "%s carries every option over from the field of the same name" % short
        if crossed:
            ck.bad(rid, key, where(b.raw["sp"]), "; ".join("`%s` is filled from `self.%s`" % x for x in crossed), fn=b.path)
        else:
            ck.ok(rid, key, fn=b.path, detail=len(carried))
    return n


WORD_SIZED = ("usize", "u64", "isize", "i64")


def counter_width(ck, F, rid, prefixes):
    """Counters of live entities (scope guards, span references) are incremented and decremented in step with objects
    whose number only memory bounds; the `== 0` / `== 1` tests made on them are sound only if the counter cannot wrap
    before memory runs out, i.e. if it is at least pointer-sized. Every fetch_add / fetch_sub site under `prefixes`."""
    from rulekit import where
    n = 0
    for b in F.body_list:
        if not any(b.path.startswith(p) or ("<" + p) in b.path[:len(p) + 1] for p in prefixes):
            continue
        for bb, t in b.calls():
            p = t["callee"].get("path") or ""
            if "atomic::Atomic" not in p or p.rsplit("::", 1)[1] not in ("fetch_add", "fetch_sub"):
                continue
            m = __import__("re").search(r"Atomic::<([a-z0-9]+)>|Atomic([A-Z][a-z0-9]+)::", p)
            ty = (m.group(1) or m.group(2) or "?").lower() if m else "?"
            o = b.origin(t["argv"][0])
            what = (o[1].get("static") if o[0] == "const" and isinstance(o[1], dict) else None) or "the counter"
            what = what.rsplit("::", 1)[-1]
            n += 1
            owner = b.path
            if owner.startswith("<") and " as " in owner:
                owner = owner[1:].split(" as ")[0].rsplit("::", 1)[-1] + "::" + b.path.rsplit("::", 1)[1]
            else:
                owner = "::".join(owner.split("::")[-2:])
            key = "%s: %s on %s is at least pointer-sized" % (owner, p.rsplit("::", 1)[1], what)
            if ty in WORD_SIZED:
                ck.ok(rid, key, fn=b.path, detail=ty)
            else:
                ck.bad(rid, key, where(t["sp"]), "the counter is an Atomic<%s>: it wraps to 0 after %s live entities, and the `no scope is live` / `last reference` "
                       "tests made on it then answer wrongly" % (ty, {"u8": "256", "u16": "65536", "u32": "2^32"}.get(ty, "few")), fn=b.path)
    return n


AMBIENT = ("::panicking", "std::time::Instant::now", "std::time::SystemTime::now", "std::env::var", "std::env::var_os", "std::thread::current")


def ambient_gate(ck):
    """Run after a property's own rules, over every function they analysed that returns `()`: the function's effect (what
    it calls on some returning path) must not be withheld on another returning path that was chosen by nothing but an
    ambient predicate -- is the thread unwinding, what time is it, an environment variable -- i.e. by no input, no field
    of self and no static of the crate. Such a gate makes a notification, a release or a write depend on circumstances
    the property quantifies over ("crash points", "schedules") and is the shape every `if panicking() { return }`
    shortcut has. Paths that diverge (panic) instead of returning are not judged (avoiding a double panic is fine)."""
    from rulekit import Facts, where
    from rulekit.sym import PathEval, show
    rid = "%s.RA" % ck.prop
    ck.rule(rid, "no analysed function withholds its effect for an ambient reason alone (unwinding, clock, environment)", floor=1)
    facts = []
    for cfg in ck.configs:
        try:
            facts.append(Facts(cfg))
        except Exception:
            pass

    def cond_calls(p):
        out = set()

        def walk(t):
            if isinstance(t, tuple):
                if t and t[0] == "call" and isinstance(t[-1], int):
                    out.add(t[-1])
                for x in t:
                    walk(x)
        for c in p.conds:
            walk(c[0])
        return out

    def ambient_term(t):
        if isinstance(t, tuple):
            if t and t[0] == "call" and isinstance(t[1], str) and any(t[1].endswith(a) or t[1] == a for a in AMBIENT):
                return True
            return any(ambient_term(x) for x in t)
        return False
    n = 0
    # (a rule that analysed a closure relies on the enclosing function getting as far as calling it)
    fns = set(ck.functions)
    for fn in list(fns):
        while "::{closure" in fn:
            fn = fn[:fn.rindex("::{closure")]
            fns.add(fn)
    for fn in sorted(fns):
        b = None
        for F in facts:
            b = F.body(fn)
            if b is not None:
                break
        if b is None or not b.raw.get("locals") or str(b.raw["locals"][0]) != "()" or not str(b.raw["sp"].get("f", "")).startswith("tracing"):
            continue
        try:
            allp = PathEval(b).run()
        except Exception:
            continue
        paths = [p for p in allp if p.end == "return"]
        loops = [p for p in allp if p.end == "loop"]       # a path cut where it re-enters a loop: it did the loop body once
        n += 1
        if len(paths) < 2:
            ck.ok(rid, "%s does not skip its work for an ambient reason" % "::".join(fn.replace("<", "").split("::")[-2:])[:90], fn=fn, detail=len(paths))
            continue
        info = [(p, cond_calls(p)) for p in paths]
        def effects(p, cc):
            # real calls only: dropping a by-value parameter on the way out is not "doing the function's work"
            # ... and an atomic read-modify-write is an effect even when its result is also branched on (CAS loops)
            def rmw(c):
                pth = c[1].get("path") or ""
                return "atomic::Atomic" in pth and pth.rsplit("::", 1)[-1] in ("compare_exchange", "compare_exchange_weak", "swap", "store",
                                                                             "fetch_add", "fetch_sub", "fetch_or", "fetch_and", "fetch_update")
            return [c for c in p.calls if (c[0] not in cc or rmw(c)) and c[1].get("path") != "<drop>" and c[1].get("path") != "core::mem::drop"]
        busy = [p for p, cc in info if effects(p, cc)]
        busy += [p for p in loops if effects(p, cond_calls(p))]
        bad = None
        for p, cc in info:
            if not busy or effects(p, cc):
                continue
            nonconst = [c for c in p.conds if c[0][0] != "const"]
            if nonconst and all(ambient_term(c[0]) and "arg" not in show(c[0]) for c in nonconst):
                bad = [show(c[0])[:60] for c in nonconst]
                break
        # ... nor cut short: a path that returns straight after an ambient test came out one way, while the path on which
        # the same test came out the other way (same history before it) goes on to do more of the function's work
        if not bad:
            def split_at_last(p):
                nc = [c for c in p.conds if c[0][0] != "const"]
                if not nc or not (ambient_term(nc[-1][0]) and "arg" not in show(nc[-1][0])):
                    return None
                last = nc[-1]
                # position of the test in the path: the block of the (last) call inside the condition term
                bbs = []

                def walk(t):
                    if isinstance(t, tuple):
                        if t and t[0] == "call" and isinstance(t[-1], int):
                            bbs.append(t[-1])
                        for x in t:
                            walk(x)
                walk(last[0])
                pos = max((p.blocks.index(x) for x in bbs if x in p.blocks), default=None)
                return nc[:-1], last, pos
            for p, cc in info:
                sp = split_at_last(p)
                if sp is None or sp[2] is None:
                    continue
                before, last, pos = sp
                after_p = [c for c in effects(p, cc) if c[0] in p.blocks[pos + 1:]]
                if after_p:
                    continue
                for q, cq in info:
                    if q is p:
                        continue
                    ncq = [c for c in q.conds if c[0][0] != "const"]
                    if len(ncq) <= len(before) or [(c[0], c[1]) for c in ncq[:len(before)]] != [(c[0], c[1]) for c in before]:
                        continue
                    other = ncq[len(before)]
                    if other[0] != last[0] or other[1] == last[1]:
                        continue
                    qpos = pos if pos < len(q.blocks) and q.blocks[:pos + 1] == p.blocks[:pos + 1] else None
                    if qpos is None:
                        continue
                    after_q = [c for c in effects(q, cq) if c[0] in q.blocks[qpos + 1:]]
                    if after_q:
                        bad = [show(last[0])[:60]]
                        bad_kind = "cut"
                        bad_skipped = sorted({(c[1].get("path") or "?").rsplit("::", 1)[-1] for c in after_q})[:4]
                        break
                if bad:
                    break
        key = "%s does not skip its work for an ambient reason" % "::".join(fn.replace("<", "").split("::")[-2:])[:90]
        if bad and locals().get("bad_kind") == "cut":
            ck.bad(rid, key, where(b.raw["sp"]), "a path returns right after %s while the other outcome goes on to %s: part of the function's work depends on an ambient circumstance" % (bad, bad_skipped), fn=fn)
            bad_kind = None
        elif bad:
            ck.bad(rid, key, where(b.raw["sp"]), "a returning path does nothing, selected only by %s, while other paths do the function's work" % bad, fn=fn)
        else:
            ck.ok(rid, key, fn=fn, detail=len(paths))
    if not n:
        ck.ok(rid, "no unit-returning function among those analysed", detail=0)


def result_test(cond):
    """For a path condition: if it tests a Result for Ok/Err return (base term, is_ok), else (None, None). Recognises
    `r.is_ok()`, `r.is_err()`, and `match r { Ok(..) .. Err(..) }` / `if let` (the discriminant: Ok = 0, Err = 1)."""
    term, val = cond[0], cond[1]
    if term[0] == "call" and term[2]:
        m = term[1].rsplit("::", 1)[-1]
        if m == "is_ok":
            return strip_views(term[2][0]), val != 0
        if m == "is_err":
            return strip_views(term[2][0]), val == 0
    if term[0] == "discr":
        base = strip_views(term[1])
        if val == 0:
            return base, True
        if val == 1:
            return base, False
        arms = cond[2] if len(cond) > 2 else []
        if arms == [1]:
            return base, True
        if arms == [0]:
            return base, False
        return base, None
    return None, None


def flag_guards(body, target_bb, prefix="display_"):
    """Purely graph-based: the boolean fields of self named `<prefix>*` that control whether target_bb is reached, with the
    value they must have. A switch block whose operand is (a copy of) such a field guards the target with value v iff the
    target becomes unreachable from the entry once that block's v-edge is removed... no path enumeration, so it stays
    exact in functions with dozens of independent option tests."""
    out = set()
    for sb, blk in enumerate(body.blocks):
        t = blk["term"]
        if t["k"] != "switch" or not t.get("on"):
            continue
        o = body.origin(t["on"])
        if o[0] != "arg" or not o[2]:
            continue
        names = [p.get("n") for p in o[2] if isinstance(p, dict) and p.get("n")]
        if not names or not str(names[-1]).startswith(prefix):
            continue
        flag = str(names[-1])
        edges = [(a[0], a[1]) for a in t["arms"]] + [(None, t["otherwise"])]
        for val, nxt in edges:
            seen, st = set(), [0]
            while st:
                b = st.pop()
                if b in seen:
                    continue
                seen.add(b)
                for n in body.succ(b):
                    if not (b == sb and n == nxt):
                        st.append(n)
            if target_bb not in seen:
                # bool switch: arm value 0 = false; `otherwise` = true
                out.add((flag, False if val == 0 else True))
    return out


def rebuild_interest_path(F, module="tracing_core::callsite::inner::"):
    """The private function of the callsite registry that re-evaluates every callsite and republishes the max level --
    by name if it still has the name the pinned tree gives it, else by role (the one function of the module that calls
    LevelFilter::set_max): a rename of a private helper must not blind the rules anchored in it."""
    if F.body(module + "rebuild_interest") is not None:
        return module + "rebuild_interest"
    c = [b.path for b in F.body_list if b.path.startswith(module) and "{closure" not in b.path and
         any((t["callee"].get("path") or "").endswith("LevelFilter::set_max") for bb, t in b.calls())]
    return c[0] if len(c) == 1 else module + "rebuild_interest"


_REL = {"Lt": "<", "Le": "<=", "Gt": ">", "Ge": ">=", "Eq": "==", "Ne": "!="}
_NEG = {"<": ">=", "<=": ">", ">": "<=", ">=": "<", "==": "!=", "!=": "=="}
_SWAP = {">": "<", ">=": "<=", "<": "<", "<=": "<=", "==": "==", "!=": "!="}


def relation_held(text, val):
    """The comparison a guard (text of a `(A Op B)` condition, value taken on the edge) asserts, in one spelling:
    (lhs, rel, rhs) with rel in {'<', '<=', '==', '!='}; `>`/`>=` are written with swapped sides and `==`/`!=` with the
    sides in text order sorted, so `a < b` taken, `b > a` taken, `a >= b` not taken and `b <= a` not taken all agree.
    None when the text is not a top-level binary comparison."""
    # (val None is the switch's "otherwise" edge; on a comparison's bool that is the true edge, as rustc lowers `if`)
    if not (text.startswith("(") and text.endswith(")")):
        return None
    depth = 0
    inner = text[1:-1]
    for i, ch in enumerate(inner):
        if ch in "([{":
            depth += 1
        elif ch in ")]}":
            depth -= 1
            if depth < 0:
                return None
        elif ch == " " and depth == 0:
            rest = inner[i + 1:]
            sp = rest.find(" ")
            if sp > 0 and rest[:sp] in _REL:
                a, rel, b = inner[:i], _REL[rest[:sp]], rest[sp + 1:]
                if val == 0:
                    rel = _NEG[rel]
                if rel in (">", ">="):
                    a, b, rel = b, a, _SWAP[rel]
                if rel in ("==", "!=") and b < a:
                    a, b = b, a
                return (a, rel, b)
            return None
    return None


def closure_arg(body, operand):
    """def path of the closure an operand of a call holds (a capturing closure is an aggregate, a non-capturing one a
    constant), else None."""
    o = body.origin(operand)
    if o[0] == "agg":
        return o[1].get("agg", {}).get("closure")
    if o[0] == "const":
        return o[1].get("closure")
    return None


def bool_paths(body, **kw):
    """Paths of a bool-returning function, with a path that returns a non-constant expression split into the two outcomes
    of that expression (as if it had been branched on): `if c { return false } true` and `!c` then read the same."""
    import copy
    out = []
    is_bool = str((body.raw.get("locals") or [""])[0]) == "bool"
    for p in PathEval(body, **kw).run():
        if is_bool and p.end == "return" and p.ret is not None and p.ret[0] != "const":
            t = p.ret
            neg = False
            while t and t[0] == "un" and t[1] == "Not":
                t, neg = t[2], not neg
            for v in (1, 0):
                q = copy.copy(p)
                q.conds = list(p.conds) + [(t, v, None)]
                q.ret = ("const", "bool", (1 - v) if neg else v, None)
                out.append(q)
        else:
            out.append(p)
    return out
