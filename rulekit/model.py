"""Program model over factgen's JSON: indexes, CFG, dominators, value slicing."""
import re
from collections import defaultdict

from . import facts as _facts


class Body:
    def __init__(self, raw, crate):
        self.raw = raw
        self.crate = crate
        self.path = raw["path"]
        self.kind = raw["kind"]
        self.name = raw.get("name")
        self.trait = raw.get("trait")
        self.self_ty = raw.get("self_ty")
        self.impl = raw.get("impl")
        self.root = raw.get("root")
        self.blocks = raw["blocks"]
        self.argc = raw["argc"]
        self.locals = raw["locals"]
        self.span = raw.get("span", "")
        self._succ = {}
        self._dom = {}
        self._pdom = {}
        self._defs = None
        self.varnames = {}
        for v in raw.get("vars", []):
            pl = v.get("place")
            if pl and "p" not in pl:
                self.varnames.setdefault(pl["l"], v["name"])

    def __repr__(self):
        return "<Body %s>" % self.path

    # ------------------------------------------------------------------ CFG
    def term(self, bb):
        return self.blocks[bb]["term"]

    def succ(self, bb, unwind=False):
        key = (bb, unwind)
        if key in self._succ:
            return self._succ[key]
        t = self.blocks[bb]["term"]
        k = t["k"]
        out = []
        if k == "goto":
            out = [t["bb"]]
        elif k == "switch":
            out = [a[1] for a in t["arms"]] + [t["otherwise"]]
        elif k in ("call", "drop", "assert", "yield"):
            if t.get("ret") is not None:
                out = [t["ret"]]
            if k == "yield" and t.get("drop") is not None and unwind:
                out.append(t["drop"])
            if unwind and isinstance(t.get("unwind"), int):
                out.append(t["unwind"])
        seen = []
        for s in out:
            if s not in seen:
                seen.append(s)
        self._succ[key] = seen
        return seen

    def preds(self, unwind=False):
        p = defaultdict(list)
        for bb in range(len(self.blocks)):
            for s in self.succ(bb, unwind):
                p[s].append(bb)
        return p

    def reachable(self, start=0, unwind=False, avoid=()):
        seen = set()
        st = [start]
        avoid = set(avoid)
        while st:
            b = st.pop()
            if b in seen or b in avoid:
                continue
            seen.add(b)
            st.extend(self.succ(b, unwind))
        return seen

    def exits(self, unwind=False):
        """Blocks ending in return (and resume if unwind)."""
        out = []
        for i, b in enumerate(self.blocks):
            k = b["term"]["k"]
            if k == "return" or (unwind and k in ("resume",)) or k == "coroutine_drop":
                out.append(i)
        return out

    def dominators(self, unwind=False):
        """dom[b] = set of blocks dominating b (including b); only reachable blocks."""
        if unwind in self._dom:
            return self._dom[unwind]
        reach = self.reachable(0, unwind)
        order = self._rpo(0, unwind)
        preds = self.preds(unwind)
        dom = {b: None for b in reach}
        dom[0] = {0}
        changed = True
        while changed:
            changed = False
            for b in order:
                if b == 0:
                    continue
                ps = [dom[p] for p in preds[b] if p in reach and dom[p] is not None]
                if not ps:
                    continue
                new = set.intersection(*ps) | {b}
                if new != dom[b]:
                    dom[b] = new
                    changed = True
        self._dom[unwind] = dom
        return dom

    def _rpo(self, start, unwind):
        seen = set()
        out = []

        def dfs(b):
            stack = [(b, iter(self.succ(b, unwind)))]
            seen.add(b)
            while stack:
                n, it = stack[-1]
                for s in it:
                    if s not in seen:
                        seen.add(s)
                        stack.append((s, iter(self.succ(s, unwind))))
                        break
                else:
                    out.append(n)
                    stack.pop()
        dfs(start)
        out.reverse()
        return out

    def postdominators(self, unwind=False):
        """pdom[b] = set of blocks post-dominating b w.r.t. exits (return [+resume])."""
        if unwind in self._pdom:
            return self._pdom[unwind]
        reach = self.reachable(0, unwind)
        exits = [e for e in self.exits(unwind) if e in reach]
        EXIT = -1
        succ = {b: [s for s in self.succ(b, unwind)] for b in reach}
        for e in exits:
            succ[e] = [EXIT]
        # blocks with no successors that are not exits (unreachable/terminate/diverging calls): treat as
        # leading nowhere; they impose no constraint (paths that never return).
        pd = {b: None for b in reach}
        pd[EXIT] = {EXIT}
        changed = True
        nodes = list(reach)
        while changed:
            changed = False
            for b in nodes:
                ss = [pd[s] for s in succ[b] if pd.get(s) is not None]
                if not succ[b]:
                    continue
                if not ss:
                    continue
                new = set.intersection(*ss) | {b}
                if new != pd[b]:
                    pd[b] = new
                    changed = True
        for b in nodes:
            if pd[b] is None:
                pd[b] = {b}
        self._pdom[unwind] = pd
        return pd

    def dominates(self, a, b, unwind=False):
        d = self.dominators(unwind).get(b)
        return d is not None and a in d

    def postdominates(self, a, b, unwind=False):
        d = self.postdominators(unwind).get(b)
        return d is not None and a in d

    # ------------------------------------------------------------- queries
    def calls(self):
        """Yield (bb, term) for every call terminator."""
        for i, b in enumerate(self.blocks):
            t = b["term"]
            if t["k"] in ("call", "tailcall"):
                yield i, t

    def calls_to(self, pred):
        out = []
        for i, t in self.calls():
            if callee_matches(t["callee"], pred):
                out.append((i, t))
        return out

    def stmts(self):
        for i, b in enumerate(self.blocks):
            for j, s in enumerate(b["stmts"]):
                yield i, j, s

    def defs(self):
        """local -> list of ('stmt', bb, idx, rvalue) | ('call', bb, term) definitions (whole-local writes)."""
        if self._defs is not None:
            return self._defs
        d = defaultdict(list)
        for i, j, s in self.stmts():
            if s["k"] == "assign" and "p" not in s["lhs"]:
                d[s["lhs"]["l"]].append(("stmt", i, j, s["rv"]))
        for i, t in self.calls():
            if "dest" in t and "p" not in t["dest"]:
                d[t["dest"]["l"]].append(("call", i, t))
        self._defs = d
        return d

    def origin(self, op, depth=0):
        """Backward slice of an operand/place to a root term (flow-insensitive, single-def locals).

        Returns a tuple:
          ('arg', i, projs) | ('const', constdict) | ('call', bb, term, projs) | ('agg', rvalue, projs)
          | ('local', l, projs) | ('multi', l, projs) | ('bin'|'un'|'discr'|..., rvalue)
        projs is the list of projections applied on the way (outermost last); refs/derefs are dropped.
        """
        if "const" in op:
            return ("const", op["const"])
        pl = op.get("copy") or op.get("move") or op.get("place") or op
        return self._origin_place(pl, [], depth)

    def _origin_place(self, pl, projs, depth):
        l = pl["l"]
        pr = [p for p in pl.get("p", []) if p != "*"] + projs
        if depth > 40:
            return ("local", l, pr)
        if 1 <= l <= self.argc:
            return ("arg", l, pr)
        ds = self.defs().get(l, [])
        if len(ds) != 1:
            return ("multi" if ds else "local", l, pr)
        d = ds[0]
        if d[0] == "call":
            return ("call", d[1], d[2], pr)
        rv = d[3]
        if "use" in rv:
            op = rv["use"]
            if "const" in op:
                return ("const", op["const"]) if not pr else ("constproj", op["const"], pr)
            return self._origin_place(op.get("copy") or op.get("move"), pr, depth + 1)
        if "ref" in rv:
            return self._origin_place(rv["ref"], pr, depth + 1)
        if "rawptr" in rv:
            return self._origin_place(rv["rawptr"], pr, depth + 1)
        if "cast" in rv and (rv["cast"].startswith("ptr:") or rv["cast"] in ("PtrToPtr", "Transmute", "Subtype")):
            op = rv["op"]
            if "const" in op:
                return ("const", op["const"])
            return self._origin_place(op.get("copy") or op.get("move"), pr, depth + 1)
        if "agg" in rv:
            # project through aggregates when a field projection selects an operand
            if pr and isinstance(pr[0], dict) and "f" in pr[0] and pr[0]["f"] < len(rv["ops"]) and \
                    not rv["agg"].get("variant_active"):
                return self.origin(rv["ops"][pr[0]["f"]], depth + 1) if len(pr) == 1 else \
                    self._proj_into(rv["ops"][pr[0]["f"]], pr[1:], depth)
            return ("agg", rv, pr)
        for k in ("bin", "un", "discr", "cast", "tls", "repeat", "other"):
            if k in rv:
                return (k, rv, pr)
        return ("local", l, pr)

    def _proj_into(self, op, pr, depth):
        if "const" in op:
            return ("constproj", op["const"], pr)
        return self._origin_place(op.get("copy") or op.get("move"), pr, depth + 1)

    def local_name(self, l):
        return self.varnames.get(l)


def callee_matches(callee, pred):
    if callable(pred):
        return pred(callee)
    if isinstance(pred, (set, frozenset, list, tuple)):
        return any(callee_matches(callee, p) for p in pred)
    p = callee.get("path")
    if p is None:
        return False
    if p == pred or callee.get("resolved") == pred or callee.get("full") == pred:
        return True
    return False


def proj_names(pr):
    out = []
    for p in pr:
        if isinstance(p, dict):
            if "n" in p:
                out.append(p["n"])
            elif "f" in p:
                out.append(str(p["f"]))
            elif "dc" in p:
                out.append("as " + str(p.get("v", p["dc"])))
            else:
                out.append("?")
        else:
            out.append(str(p))
    return out


class Facts:
    def __init__(self, config="default", key=None):
        self.config = config
        self.raw = _facts.load_raw(config, key)
        self.expect = None
        if _facts.CONFIGS[_facts.base_config(config)]["kind"] == "fixture":
            import json as _json
            import os as _os
            ep = _os.path.join(_facts.fixture_dir(config, key), "gen", "expect.json")
            if _os.path.exists(ep):
                with open(ep) as fh:
                    self.expect = _json.load(fh)
        self.bodies = {}
        self.body_list = []
        self.by_root = defaultdict(list)
        self.impls = []
        self.traits = {}
        self.adts = {}
        self.consts = {}
        self.fns = {}
        self.cfg = {}
        for cname, d in self.raw.items():
            self.cfg[cname] = d["cfg"]
            for b in d["bodies"]:
                body = Body(b, cname)
                self.body_list.append(body)
                self.bodies.setdefault(body.path, body)
                if body.root:
                    self.by_root[body.root].append(body)
            for i in d["impls"]:
                i["crate"] = cname
                self.impls.append(i)
            for t in d["traits"]:
                t["crate"] = cname
                self.traits[t["path"]] = t
            for a in d["adts"]:
                a["crate"] = cname
                self.adts[a["path"]] = a
            for c in d["consts"]:
                c["crate"] = cname
                self.consts.setdefault(c["path"], c)
            for f in d["fns"]:
                self.fns[f["path"]] = f
        self._callers = None
        self.inlined_helpers = []
        self.helper_bodies = {}
        self._inline_new_helpers()

    # ------------------------------------------------------------------ helper inlining
    def _inline_new_helpers(self):
        """Virtual inlining of helper functions that do not exist on the reference tree.

        The rules name functions of the pinned tree. When a maintainer extracts a few lines of one of them into a new
        private helper, the code the rules reason about has moved, not changed. Every function that is NOT in
        rulekit/known_fns.json (the function list of the reference tree), is small, non-recursive and called by
        resolved path is spliced into each of its call sites (locals and blocks renumbered, parameters assigned from
        the arguments, `return` turned into an assignment of the destination plus a jump, unwinding routed to the call's
        unwind target) and removed from the program as a body of its own. A change hidden in such a helper is
        therefore seen exactly as if it had been written in place."""
        import copy
        import json as _json
        import os as _os
        kp = _os.path.join(_os.path.dirname(_os.path.abspath(__file__)), "known_fns.json")
        if not _os.path.exists(kp):
            return
        with open(kp) as fh:
            known = set(_json.load(fh))
        for _round in range(3):
            new = {}
            for b in self.body_list:
                if b.kind in ("closure", "coroutine") or b.crate.startswith("fx_") or b.path in known:
                    continue
                if b.trait or len(b.blocks) > 60:
                    continue            # trait impl methods are reached through the trait, not by path
                if any(t["callee"].get("path") == b.path or t["callee"].get("resolved") == b.path for bb, t in b.calls()):
                    continue            # recursive
                new[b.path] = b
            if not new:
                return
            done = set()
            for caller in list(self.body_list):
                if caller.path in new:
                    continue
                changed = True
                guard = 0
                while changed and guard < 20:
                    changed = False
                    guard += 1
                    for bb in range(len(caller.blocks)):
                        t = caller.blocks[bb]["term"]
                        if t["k"] != "call":
                            continue
                        tgt = t["callee"].get("resolved") or t["callee"].get("path")
                        if tgt not in new and t["callee"].get("path") in new:
                            tgt = t["callee"].get("path")
                        h = new.get(tgt)
                        if h is None or h.crate != caller.crate or len(t["argv"]) != h.argc:
                            continue
                        self._splice(caller, bb, h, copy)
                        done.add(h.path)
                        changed = True
                        break
            if not done:
                return
            for hp in done:
                self.inlined_helpers.append(hp)
                hb = self.bodies.pop(hp, None)
                if hb is not None:
                    self.helper_bodies[hp] = hb      # still needed for the helper's promoted constants
                    self.body_list = [x for x in self.body_list if x is not hb]
                    if hb.root and hb in self.by_root.get(hb.root, []):
                        self.by_root[hb.root].remove(hb)

    @staticmethod
    def _shift(obj, loff, boff):
        """Deep copy of a MIR JSON fragment with locals shifted by loff (places are dicts with an int 'l' that are not
        spans)."""
        if isinstance(obj, list):
            return [Facts._shift(x, loff, boff) for x in obj]
        if isinstance(obj, dict):
            out = {}
            is_place = isinstance(obj.get("l"), int) and "f" not in obj and "c" not in obj
            for k, v in obj.items():
                if k in ("sp", "callee", "const", "dbg", "agg"):
                    out[k] = v
                elif k == "l" and is_place:
                    out[k] = v + loff
                else:
                    out[k] = Facts._shift(v, loff, boff)
            return out
        return obj

    def _splice(self, caller, bb, h, copy):
        loff = len(caller.locals)
        boff = len(caller.blocks)
        call = caller.blocks[bb]["term"]
        dest = call.get("dest")
        ret = call.get("ret")
        unw = call.get("unwind")
        caller.locals.extend(h.locals)
        caller.raw.setdefault("vars", [])
        for l, n in h.varnames.items():
            caller.varnames.setdefault(l + loff, n)
        # parameters
        blk = caller.blocks[bb]
        for k, a in enumerate(call["argv"]):
            blk["stmts"].append({"k": "assign", "lhs": {"l": loff + 1 + k}, "rv": {"use": a}, "sp": call.get("sp")})
        blk["term"] = {"k": "goto", "bb": boff, "sp": call.get("sp"), "inlined": h.path}
        # a generic helper's type parameters are whatever the call site passes: `is_x::<B>()` inlined must read `B`, not `T`
        tmap = {}
        hp, ct = h.raw.get("tparams") or [], call["callee"].get("targs") or []
        if hp and len(hp) == len(ct):
            tmap = {a: b for a, b in zip(hp, ct) if a != b and re.match(r"^\w+$", a)}
        for hb in h.blocks:
            nb = {"stmts": self._shift(hb["stmts"], loff, boff), "term": self._shift(hb["term"], loff, boff)}
            if tmap and nb["term"]["k"] == "call" and nb["term"]["callee"].get("targs"):
                cal = dict(nb["term"]["callee"])
                sub = lambda x: re.sub(r"\b(%s)\b" % "|".join(map(re.escape, tmap)), lambda m: tmap[m.group(1)], x)
                cal["targs"] = [sub(x) for x in cal["targs"]]
                if cal.get("full"):
                    cal["full"] = sub(cal["full"])
                nb["term"]["callee"] = cal
            if hb.get("cleanup"):
                nb["cleanup"] = True
            t = nb["term"]
            k = t["k"]
            if k == "goto":
                t["bb"] += boff
            elif k == "switch":
                t["arms"] = [[a[0], a[1] + boff] for a in t["arms"]]
                t["otherwise"] += boff
            if k in ("call", "drop", "assert", "yield"):
                if t.get("ret") is not None:
                    t["ret"] += boff
                if isinstance(t.get("unwind"), int):
                    t["unwind"] += boff
                elif t.get("unwind") == "continue":
                    t["unwind"] = unw if unw is not None else "continue"
                if k == "yield" and isinstance(t.get("drop"), int):
                    t["drop"] += boff
            if k == "return":
                if dest is not None:
                    nb["stmts"].append({"k": "assign", "lhs": dest, "rv": {"use": {"move": {"l": loff}}}, "sp": call.get("sp")})
                nb["term"] = {"k": "goto", "bb": ret, "sp": t.get("sp")} if ret is not None else {"k": "unreachable", "sp": t.get("sp")}
            elif k == "resume" and isinstance(unw, int):
                nb["term"] = {"k": "goto", "bb": unw, "sp": t.get("sp")}
            caller.blocks.append(nb)
        # promoted constants of the helper are referenced by index: keep them reachable under the helper's name
        caller.raw.setdefault("inlined", []).append(h.path)
        caller._succ = {}
        caller._dom = {}
        caller._pdom = {}
        caller._defs = None

    def body(self, path):
        return self.bodies.get(path)

    def find_bodies(self, regex):
        r = re.compile(regex)
        return [b for b in self.body_list if r.search(b.path)]

    def closures_of(self, body):
        """All closure/coroutine bodies nested (transitively) in body."""
        root = body.root or body.path
        out = []
        for b in self.by_root.get(root, []):
            if b.path != body.path and b.path.startswith(body.path + "::"):
                out.append(b)
        # closures defined in helpers that were virtually inlined into this body or into one of its closures
        k = 0
        hosts = [body] + list(out)
        while k < len(hosts):
            for hp in hosts[k].raw.get("inlined", []):
                for b in self.body_list:
                    if b.path.startswith(hp + "::{closure") and b not in out:
                        out.append(b)
                        hosts.append(b)
            k += 1
        return out

    def callers(self):
        """callee path (declared and resolved) -> list of (body, bb, term)"""
        if self._callers is None:
            idx = defaultdict(list)
            for b in self.body_list:
                for i, t in b.calls():
                    c = t["callee"]
                    for k in {c.get("path"), c.get("resolved")}:
                        if k:
                            idx[k].append((b, i, t))
            self._callers = idx
        return self._callers

    def impl_method(self, trait, self_ty, method):
        """Body of `method` in the impl of `trait` whose self type equals / starts with `self_ty` (robust against
        rustc's two spellings `<T as Tr>::m` vs `module::<impl Tr for T>::m`)."""
        for i in self.impls:
            if i.get("trait") == trait and (i["self_ty"] == self_ty or i["self_ty"].startswith(self_ty)):
                p = i["methods"].get(method)
                if p:
                    return self.body(p)
        return None

    def impls_of(self, trait):
        return [i for i in self.impls if i.get("trait") == trait]
