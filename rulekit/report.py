"""Verdict bookkeeping: rule instances, violations, known findings, evidence."""
import json
import os
import sys
import time

VERIF = os.path.dirname(os.path.dirname(os.path.abspath(__file__)))


class Checker:
    def __init__(self, prop, tier="quick", seed=0):
        self.prop = prop
        self.tier = tier
        self.seed = seed
        self.t0 = time.time()
        self.instances = []      # (rule, key, nontrivial, detail)
        self.violations = []     # dict(rule,key,where,msg)
        self.rules = {}          # rule -> dict(desc, n, floor)
        self.samples = []
        self.configs = []
        self.functions = set()
        self.assumptions = []
        self.explanation = ""
        self.notes = []
        self.exhaustive_tables = 0
        self.tag = ""   # current config tag; part of instance keys, never of violation keys
        kf = os.path.join(VERIF, "known_findings.json")
        self.known = []
        if os.path.exists(kf):
            with open(kf) as fh:
                self.known = [k for k in json.load(fh)["findings"] if k["property"] == prop]

    # ---------------------------------------------------------------- rules
    def rule(self, rid, desc, floor=0):
        self.rules[rid] = dict(desc=desc, floor=floor, n=0, nontrivial=0)

    def ok(self, rid, key, detail=None, nontrivial=True, fn=None, tag=""):
        """Record one examined rule instance that held. `tag` (e.g. the config) distinguishes instances
        without becoming part of violation keys."""
        key = key + (tag or self.tag)
        r = self.rules[rid]
        r["n"] += 1
        if nontrivial:
            r["nontrivial"] += 1
        self.instances.append((rid, key, nontrivial))
        if fn:
            self.functions.add(fn)
        if detail is not None and len([s for s in self.samples if s["rule"] == rid]) < 3:
            self.samples.append(dict(rule=rid, instance=key, detail=detail))

    def bad(self, rid, key, where, msg, fn=None, tag=""):
        """Record a violating instance. key must be stable (no line numbers, no config tag)."""
        r = self.rules[rid]
        r["n"] += 1
        r["nontrivial"] += 1
        tag = tag or self.tag
        self.instances.append((rid, key + tag, True))
        if tag:
            where = "%s %s" % (where, tag)
        if fn:
            self.functions.add(fn)
        vkey = "%s:%s" % (rid, key)
        for v in self.violations:
            if v["key"] == vkey:       # same finding at another instance: count it, report once
                v["count"] = v.get("count", 1) + 1
                return
        self.violations.append(dict(rule=rid, key=vkey, where=where, msg=msg))

    def anchor(self, rid, what, obj):
        """Fail closed when an anchor (function, impl, const) is missing."""
        if obj is None or obj == [] or obj == {}:
            self.rules.setdefault(rid, dict(desc="", floor=0, n=0, nontrivial=0))
            self.violations.append(dict(rule=rid, key="%s:anchor-missing:%s" % (rid, what), where=what,
                                        msg="anchor not found: the rule cannot decide (fail closed)"))
            return False
        return True

    def note(self, s):
        self.notes.append(s)

    # -------------------------------------------------------------- verdict
    def finish(self):
        # floors
        for rid, r in self.rules.items():
            if r["n"] < r["floor"]:
                self.violations.append(dict(
                    rule=rid, key="%s:floor" % rid, where="(rule)",
                    msg="rule matched %d instances, fewer than the %d confirmed by hand (fail closed)"
                        % (r["n"], r["floor"])))
        known_keys = {k["key"]: k for k in self.known if k.get("status") == "known"}
        real = []
        seen_known = []
        for v in self.violations:
            if v["key"] in known_keys:
                seen_known.append(v)
            else:
                real.append(v)
        printed = set()
        for v in seen_known:
            k = known_keys[v["key"]]
            if v["key"] in printed:
                continue
            printed.add(v["key"])
            print("KNOWN-FINDING: property=%s %s [%s at %s]" % (self.prop, k["what"], v["key"], v["where"]))
        # evidence of runs against a scratch copy (selftest, seeded changes) never overwrites the real one
        scratch = os.environ.get("VERIF_REPO", "/repo") != "/repo" or bool(os.environ.get("VERIF_SCRATCH_EVIDENCE"))
        evdir = os.path.join(VERIF, ".cache/evidence-scratch" if scratch else "evidence")
        os.makedirs(evdir, exist_ok=True)
        vio_path = os.path.join(evdir, "%s.violations.json" % self.prop)
        if real:
            with open(vio_path, "w") as fh:
                json.dump(real, fh, indent=1)
        elif os.path.exists(vio_path):
            os.remove(vio_path)
        keys = {(i[0], i[1]) for i in self.instances}
        nontriv = {(i[0], i[1]) for i in self.instances if i[2]}
        ev = dict(
            property_id=self.prop, tier=self.tier, seed=self.seed, level="other",
            coverage=dict(
                explanation=self.explanation,
                evaluations=len(self.instances),
                distinct_nontrivial=len(nontriv),
                rule="one evaluation = one rule instance (a call site, a path, a table row, an impl x method "
                     "pair) examined in the resolved program; distinct = distinct (rule, instance key); "
                     "non-trivial = the rule had something to decide there (anchors merely found are not counted)",
                obligations=len(keys), discharged=len(keys) - len({(v['rule'], v['key']) for v in self.violations}),
                samples=self.samples[:24],
                rules={rid: dict(desc=r["desc"], instances=r["n"], nontrivial=r["nontrivial"], floor=r["floor"])
                       for rid, r in self.rules.items()},
                functions_analysed=sorted(self.functions)[:400],
                configs=self.configs,
                exhaustive=False,
                known_findings_seen=[v["key"] for v in seen_known],
                notes=self.notes,
            ),
            assumptions=self.assumptions,
            wall_s=round(time.time() - self.t0, 2),
            violations=len(real),
        )
        with open(os.path.join(evdir, "%s.json" % self.prop), "w") as fh:
            json.dump(ev, fh, indent=1)
        for rid, r in sorted(self.rules.items()):
            print("  %-8s %4d instances (%d non-trivial, floor %d)  %s" % (rid, r["n"], r["nontrivial"], r["floor"], r["desc"]))
        if real:
            for v in real[:60]:
                print("  violation %s at %s: %s%s" % (v["key"], v["where"], v["msg"][:700],
                                                       " [x%d instances]" % v["count"] if v.get("count", 1) > 1 else ""))
            if len(real) > 60:
                print("  ... and %d more (see %s)" % (len(real) - 60, vio_path))
            print("VIOLATION property=%s replay=%s" % (self.prop, vio_path))
            return 1
        print("OK property=%s (%d rule instances, %d known findings)" % (self.prop, len(self.instances), len(seen_known)))
        return 0


def where(sp):
    if not sp:
        return "?"
    if sp.get("exp") and sp.get("cs"):
        return "%s:%s (expanded at %s)" % (sp.get("f"), sp.get("l"), sp["cs"])
    return "%s:%s" % (sp.get("f"), sp.get("l"))
