from .model import Facts, Body, callee_matches, proj_names
from .report import Checker, where
