"""Fact generation (driving rustc through tools/factgen) and loading.

Every check analyses /repo's *current working tree*: the cache key is a hash of
all tracked+untracked source files in /repo plus the hash of /verif/tools and
/verif/fixtures. The cache only avoids recompiling an identical tree.
"""
import fcntl
import glob
import hashlib
import json
import os
import shutil
import subprocess
import sys
import time

VERIF = os.path.dirname(os.path.dirname(os.path.abspath(__file__)))
REPO = os.environ.get("VERIF_REPO", "/repo")
CACHE = os.path.join(VERIF, ".cache")
FACTGEN = os.path.join(VERIF, "tools/factgen/target/debug/factgen")

LIB_PKGS = ["tracing-core", "tracing", "tracing-subscriber", "tracing-appender",
            "tracing-log", "tracing-serde", "tracing-error", "tracing-futures",
            "tracing-attributes"]
LIB_CRATES = ["tracing_core", "tracing", "tracing_subscriber", "tracing_appender",
              "tracing_log", "tracing_serde", "tracing_error", "tracing_futures"]

# name -> dict(kind="repo"|"fixture", args=[cargo args], rustflags=extra, crates=[expected fact crates])
CONFIGS = {
    "default": dict(
        kind="repo",
        args=sum((["-p", p] for p in LIB_PKGS), []) + [
            "--features",
            "tracing-subscriber/json tracing-subscriber/env-filter tracing-subscriber/registry "
            "tracing-futures/futures-03 tracing-futures/std-future tracing-futures/std"],
        rustflags="",
        crates=LIB_CRATES),
    "nostd-core": dict(
        kind="repo",
        args=["-p", "tracing-core", "--no-default-features"],
        rustflags="",
        crates=["tracing_core"]),
    "release": dict(
        kind="repo",
        args=["-p", "tracing-core", "-p", "tracing", "-p", "tracing-subscriber", "-p", "tracing-appender",
              "--features", "tracing-subscriber/json tracing-subscriber/env-filter tracing-subscriber/registry"],
        rustflags="-Cdebug-assertions=off",
        crates=["tracing_core", "tracing", "tracing_subscriber", "tracing_appender"]),
    "log": dict(
        kind="repo",
        args=["-p", "tracing", "--features", "tracing/log"],
        rustflags="",
        crates=["tracing"]),
    "parking_lot": dict(
        kind="repo",
        args=["-p", "tracing-subscriber", "--features",
              "tracing-subscriber/json tracing-subscriber/env-filter tracing-subscriber/registry tracing-subscriber/parking_lot"],
        rustflags="",
        crates=["tracing_subscriber"]),
    # the other in-workspace consumers of the subscriber API (siblings of fmt for the cross-check rules)
    "consumers": dict(
        kind="repo",
        args=["-p", "tracing-journald", "-p", "tracing-flame"],
        rustflags="",
        crates=["tracing_journald", "tracing_flame"]),
    # fixture configs may be suffixed ":<seed>:<extra>" to add <extra> seeded random macro invocations
    "fx": dict(kind="fixture", args=["-p", "fx_macros"], rustflags="", crates=["fx_macros"]),
    "fx_log": dict(kind="fixture", args=["-p", "fx_macros_log"], rustflags="", crates=["fx_macros_log"]),
    "fx_instrument": dict(kind="fixture", args=["-p", "fx_instrument"], rustflags="", crates=["fx_instrument"]),
    # "tfeat:<feature of crate tracing>:dbg|nodbg" — crate `tracing` alone with one extra feature
    "tfeat": dict(kind="repo", args=["-p", "tracing"], rustflags="", crates=["tracing"]),
}


def base_config(config):
    return config.split(":")[0]


def fixture_dir(config, key=None):
    key = key or tree_key()
    return os.path.join(CACHE, "fxwork-%s-%s" % (key, config.replace(":", "_")))


def _sha_files(root, files):
    h = hashlib.sha256()
    for f in sorted(files):
        p = os.path.join(root, f)
        if os.path.isdir(p) or not os.path.exists(p):
            continue
        h.update(f.encode())
        h.update(b"\0")
        with open(p, "rb") as fh:
            h.update(fh.read())
        h.update(b"\0")
    return h.hexdigest()


def repo_hash():
    out = subprocess.run(["git", "-C", REPO, "ls-files", "-co", "--exclude-standard", "-z"],
                         capture_output=True, check=True).stdout
    files = [f for f in out.decode().split("\0") if f]
    files = [f for f in files if f.endswith((".rs", ".toml", ".lock")) ]
    return _sha_files(REPO, files)


def tools_hash():
    files = []
    for sub in ("tools/factgen/src", "fixtures"):
        for dp, dn, fn in os.walk(os.path.join(VERIF, sub)):
            dn[:] = [d for d in dn if d not in ("target",)]
            for f in fn:
                if f.endswith((".rs", ".toml", ".py", ".json")):
                    files.append(os.path.relpath(os.path.join(dp, f), VERIF))
    files.append("tools/factgen/Cargo.toml")
    files.append("rulekit/facts.py")       # the build configurations (CONFIGS) are part of what a fact set means
    return _sha_files(VERIF, files)


class BuildFailed(RuntimeError):
    """cargo check (through the factgen wrapper) failed. For a fixture config this is itself a static witness: the
    corpus, which compiles against the reference tree, no longer compiles against this one."""

    def __init__(self, config, kind, code, stderr):
        self.config = config
        self.kind = kind
        self.first_error = ""
        lines = stderr.splitlines()
        for i, l in enumerate(lines):
            if l.startswith("error"):
                loc = next((x.strip() for x in lines[i + 1:i + 4] if x.strip().startswith("-->")), "")
                self.first_error = (l + " " + loc).strip()
                break
        RuntimeError.__init__(self, "build failed for config %s (exit %d): %s" % (config, code, self.first_error or "see stderr"))


def tree_key():
    return hashlib.sha256((repo_hash() + tools_hash()).encode()).hexdigest()[:16]


def nightly_sysroot():
    return subprocess.run(["rustc", "+nightly", "--print", "sysroot"], capture_output=True,
                          check=True, text=True).stdout.strip()


def ensure_factgen():
    if not os.path.exists(FACTGEN):
        subprocess.run(["cargo", "build", "--offline"], cwd=os.path.join(VERIF, "tools/factgen"),
                       check=True, env=dict(os.environ, CARGO_NET_OFFLINE="true"))
    return FACTGEN


def _prune(keep_key):
    # keep facts of the two most recent tree keys
    dirs = sorted(glob.glob(os.path.join(CACHE, "facts-*")), key=os.path.getmtime, reverse=True)
    keys = []
    for d in dirs:
        k = os.path.basename(d).split("-")[1]
        if k not in keys:
            keys.append(k)
    for d in dirs:
        k = os.path.basename(d).split("-")[1]
        if k != keep_key and k not in keys[:8]:
            shutil.rmtree(d, ignore_errors=True)


def generate(config, key=None, verbose=True):
    """Make sure facts for (current tree, config) exist; return the directory."""
    key = key or tree_key()
    cfg = CONFIGS[base_config(config)]
    os.makedirs(CACHE, exist_ok=True)
    out = os.path.join(CACHE, "facts-%s-%s" % (key, config.replace(":", "_")))
    stamp = os.path.join(out, "OK")
    if os.path.exists(stamp):
        return out
    lock = open(os.path.join(CACHE, "lock-%s" % base_config(config)), "w")
    fcntl.flock(lock, fcntl.LOCK_EX)
    try:
        if os.path.exists(stamp):
            return out
        ensure_factgen()
        t0 = time.time()
        shutil.rmtree(out, ignore_errors=True)
        os.makedirs(out)
        tgt = os.path.join(CACHE, "tgt-%s" % base_config(config))
        if base_config(config) == "tfeat" and config.endswith(":nodbg"):
            tgt += "-nodbg"
        # cargo's freshness cache would skip the wrapper: drop the fingerprints of
        # every workspace member / fixture crate so they are re-checked through factgen.
        for fp in glob.glob(os.path.join(tgt, "debug/.fingerprint/tracing*")) + \
                glob.glob(os.path.join(tgt, "debug/.fingerprint/fx_*")) + \
                glob.glob(os.path.join(tgt, "debug/.fingerprint/fx-*")):
            shutil.rmtree(fp, ignore_errors=True)
        env = dict(os.environ)
        env["LD_LIBRARY_PATH"] = nightly_sysroot() + "/lib:" + env.get("LD_LIBRARY_PATH", "")
        env["RUSTFLAGS"] = ("-Zmir-opt-level=0 -Awarnings " + cfg["rustflags"]).strip()
        env["RUSTC_WORKSPACE_WRAPPER"] = FACTGEN
        env["CARGO_TARGET_DIR"] = tgt
        env["CARGO_NET_OFFLINE"] = "true"
        env["FACTGEN_OUT"] = out
        env["FACTGEN_CONFIG"] = config
        env["FACTGEN_CRATES"] = ",".join(cfg["crates"])
        extra_args = []
        if base_config(config) == "tfeat":
            _, feat, dbg = config.split(":")
            extra_args = ["--features", " ".join("tracing/" + f for f in feat.split("+"))]     # "a+b": several features
            if dbg == "nodbg":
                env["RUSTFLAGS"] += " -Cdebug-assertions=off"
        if cfg["kind"] == "repo":
            cwd = REPO
        else:
            # work on a copy of /verif/fixtures: generate the macro corpus there, point the path deps at REPO
            cwd = fixture_dir(config, key)
            shutil.rmtree(cwd, ignore_errors=True)
            shutil.copytree(os.path.join(VERIF, "fixtures"), cwd,
                            ignore=shutil.ignore_patterns("target", "gen", "Cargo.lock", "__pycache__"))
            parts = config.split(":")
            seed = parts[1] if len(parts) > 1 else "0"
            extra = parts[2] if len(parts) > 2 else "0"
            subprocess.run([sys.executable, os.path.join(cwd, "gen_fixtures.py"), os.path.join(cwd, "gen"), seed, extra],
                           check=True, capture_output=True)
            subprocess.run([sys.executable, os.path.join(cwd, "gen_instrument.py"), os.path.join(cwd, "fx_instrument"), seed, extra],
                           check=True, capture_output=True)
            if REPO != "/repo":
                for dp, dn, fn in os.walk(cwd):
                    for f in fn:
                        if f == "Cargo.toml":
                            pth = os.path.join(dp, f)
                            txt = open(pth).read()
                            open(pth, "w").write(txt.replace('path = "/repo/', 'path = "%s/' % REPO))
            shutil.copy(os.path.join(REPO, "Cargo.lock"), os.path.join(cwd, "Cargo.lock"))
            # old work dirs of other tree keys
            for d in glob.glob(os.path.join(CACHE, "fxwork-*")):
                if ("-%s-" % key) not in os.path.basename(d) and time.time() - os.path.getmtime(d) > 3600:
                    shutil.rmtree(d, ignore_errors=True)
        cmd = ["cargo", "+nightly", "check", "--offline"] + cfg["args"] + extra_args
        r = subprocess.run(cmd, cwd=cwd, env=env, capture_output=True, text=True)
        if r.returncode != 0:
            sys.stderr.write(r.stderr[-6000:])
            raise BuildFailed(config, cfg["kind"], r.returncode, r.stderr)
        missing = [c for c in cfg["crates"] if not glob.glob(os.path.join(out, c + ".*.json"))]
        if missing:
            raise RuntimeError("factgen produced no facts for %s in config %s" % (missing, config))
        with open(stamp, "w") as fh:
            fh.write("%s %s %.1fs\n" % (key, config, time.time() - t0))
        if verbose:
            sys.stderr.write("[facts] %s generated in %.1fs\n" % (config, time.time() - t0))
        _prune(key)
        return out
    finally:
        fcntl.flock(lock, fcntl.LOCK_UN)
        lock.close()


def load_raw(config, key=None):
    d = generate(config, key)
    crates = {}
    for c in CONFIGS[base_config(config)]["crates"]:
        files = sorted(glob.glob(os.path.join(d, c + ".*.json")))
        # several processes may have compiled the same crate (lib + proc-macro host); take the largest
        f = max(files, key=os.path.getsize)
        with open(f) as fh:
            crates[c] = json.load(fh)
    return crates
