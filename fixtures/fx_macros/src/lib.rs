//! Fixture crate: uses every tracing macro form; never executed, only compiled to MIR and analysed.
#[path = "../../gen/src/macros_gen.rs"]
mod macros_gen;
pub use macros_gen::*;

/// Hand-written fixtures for macro forms the generator does not enumerate.
pub mod manual {
    #[inline(never)]
    pub fn probe_m0() -> u64 {
        0
    }

    /// `record_all!` with a strict subset of the declared fields, not starting at the first one.
    pub fn record_all_subset(span: &tracing::Span) {
        tracing::record_all!(span, second = probe_m0());
    }
}
