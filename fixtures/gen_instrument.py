#!/usr/bin/env python3
"""Deterministic generator of the #[instrument] corpus (C17): functions `gNNN` with an uninstrumented twin
`gNNN_twin` of identical signature and body, over the dimensions the property quantifies over: sync/async, argument
patterns, return shapes, body shapes (early return, `?`, panic, loop, nested closure, match) and attribute arguments
(name, level, target, skip, fields with expressions over arguments / shadowing a parameter, ret/err with level and
Display/Debug modes). Never executed; compiled to MIR and compared by rules/C17.py.

usage: gen_instrument.py <fx_instrument dir> [seed] [extra_random_count]
writes <dir>/src/generated.rs and <dir>/gen_expect.json
"""
import json
import os
import random
import sys

LEVELS = [None, "trace", "debug", "warn", "error", "info"]

# (param source, idents recorded as fields, must be skipped (no Debug), statement using it, generic clause)
ARGS = {
    "b": ("b: &str", ["b"], False, "let _n = b.len();", None),
    "big": ("big: Big", ["big"], False, "let _k = big.a;", None),
    "c": ("mut c: u64", ["c"], False, "c += m9();", None),
    "pair": ("Pair(x, y): Pair", ["x", "y"], False, "let _p = x + y;", None),
    "t": ("t: T", ["t"], True, "let _t = t.clone();", "T: Clone"),
    "s": ("s: impl AsRef<str>", ["s"], True, "let _l = s.as_ref().len();", None),
    # value-typed parameters spelled with a path / generic arguments: still recorded as values, not through Debug
    "w": ("w: std::num::Wrapping<u32>", ["w"], False, "let _w = w.0;", None),
    "qb": ("qb: ::core::primitive::bool", ["qb"], False, "let _q = !qb;", None),
    "nz": ("nz: &std::num::NonZeroU16", ["nz"], False, "let _z = nz.get();", None),
}

# body templates: {pre} = statements using the optional arguments, {aw} = `helper().await;` for async, else empty
BODIES = {
    "value": [
        "m1(); {pre} {aw} a + m2()",
        "m1(); {pre} if cond() {{ return m2(); }} {aw} m3(); a + m4()",
        "let mut acc = m1(); {pre} for _ in 0..a {{ acc += m2(); }} {aw} acc",
        "m1(); {pre} if cond() {{ panic!(\"boom\"); }} {aw} a + m2()",
        "let f = |x: u64| x + a + m1(); {pre} {aw} f(1) + m2()",
        "m1(); {pre} {aw} match fallible() {{ Ok(v) => v + m2(), Err(_) => m3() }}",
        "m1(); {pre} let mut i = 0; while i < a {{ i += m2(); if cond() {{ break; }} }} {aw} i",
    ],
    "result": [
        "m1(); {pre} let v = fallible()?; {aw} m2(); Ok(v + a)",
        "m1(); {pre} if cond() {{ return Err(String::new()); }} {aw} m2(); Ok(a)",
        "{pre} {aw} match fallible() {{ Ok(v) => {{ m1(); Ok(v + a) }} Err(e) => {{ m2(); Err(e) }} }}",
        "m1(); {pre} let v = fallible()?; let w = fallible()?; {aw} if cond() {{ panic!(\"boom\"); }} Ok(v + w + a)",
    ],
    "unit": [
        "m1(); {pre} {aw} m2();",
        "m1(); {pre} if cond() {{ return; }} {aw} m2();",
    ],
}
RET_TY = {"value": "u64", "result": "Result<u64, String>", "unit": "()"}


class Gen:
    def __init__(self):
        self.src = []
        self.expect = {}
        self.n = 0

    def add(self, rk, body_i, is_async, args, level, name, target, skips, fields, ret, err, skip_all=False):
        self.n += 1
        fn = "g%03d" % self.n
        params = ["a: u64"]
        idents = ["a"]
        pre = []
        generics = []
        for k in args:
            src, ids, must_skip, stmt, gen = ARGS[k]
            params.append(src)
            idents += ids
            pre.append(stmt)
            if gen:
                generics.append(gen)
            if must_skip:
                skips = sorted(set(skips) | set(ids))
        skips = [s for s in skips if s in idents]
        if skip_all:
            skips = list(idents)
        body = BODIES[rk][body_i % len(BODIES[rk])].format(pre=" ".join(pre), aw="helper().await;" if is_async else "")
        attr = []
        if name:
            attr.append('name = "%s"' % name)
        if level:
            attr.append('level = "%s"' % level)
        if target:
            attr.append('target = "%s"' % target)
        if skip_all:
            attr.append("skip_all")
        elif skips:
            attr.append("skip(%s)" % ", ".join(skips))
        custom = []
        kinds = {}
        if fields == "expr":
            attr.append("fields(extra = a + 1)")
            custom = ["extra"]
        elif fields == "lit":
            attr.append('fields(lit = "s", n = 3)')
            custom = ["lit", "n"]
        elif fields == "shadow":
            attr.append("fields(a = 7)")
            custom = ["a"]
        elif fields == "dotted":
            attr.append("fields(http.status = 200, who = %a)")
            custom = ["http.status", "who"]
            kinds = {"http.status": "value", "who": "display"}
        elif fields == "sigil_pre":
            # `?` / `%` written before the field name: shorthand for the variable of that name, rendered with Debug / Display
            attr.append("fields(?a, shown = %a)")
            custom = ["a", "shown"]
            kinds = {"a": "debug", "shown": "display"}
        elif fields == "sigil_val":
            attr.append("fields(d = ?a, s = %a, later)")
            custom = ["d", "s", "later"]
            kinds = {"d": "debug", "s": "display", "later": "empty"}
        elif fields == "dotted_same":
            # first and last segment are both the parameter's name: still a different field than the parameter
            attr.append("fields(a.a = 1)")
            custom = ["a.a"]
        elif fields == "dotted_leaf":
            # the last segment of the dotted name is a parameter name: the parameter itself must still be recorded
            attr.append("fields(req.a = 1)")
            custom = ["req.a"]
        ret_level = err_level = None
        if ret:
            mode, ret_level = ret
            inner = [x for x in (mode, 'level = "%s"' % ret_level if ret_level else None) if x]
            attr.append("ret" + ("(%s)" % ", ".join(inner) if inner else ""))
        if err:
            mode, err_level = err
            inner = [x for x in (mode, 'level = "%s"' % err_level if err_level else None) if x]
            attr.append("err" + ("(%s)" % ", ".join(inner) if inner else ""))
        # the order of the attribute's arguments carries no meaning: write them in a different rotation each time
        if attr:
            k = self.n % len(attr)
            attr = attr[k:] + attr[:k]
        gen = "<%s>" % ", ".join(generics) if generics else ""
        sig = "%sfn %s%s(%s) -> %s" % ("async " if is_async else "", "{n}", gen, ", ".join(params), RET_TY[rk])
        self.src.append("#[instrument(%s)]\npub %s {{ %s }}\npub %s {{ %s }}\n" % (
            ", ".join(attr), sig.replace("{n}", fn), body.replace("{", "{{").replace("}", "}}"), sig.replace("{n}", fn + "_twin"),
            body.replace("{", "{{").replace("}", "}}")))
        # un-double the braces again (sig has none)
        self.src[-1] = self.src[-1].replace("{{", "{").replace("}}", "}")
        flds = [i for i in idents if i not in skips and i not in custom] + custom
        e = {"name": name or fn, "level": (level or "info").upper(), "fields": flds}
        if target:
            e["target"] = target
        else:
            e["target"] = "fx_instrument::generated"
        if ret:
            e["ret"] = True
            if ret_level:
                e["ret_level"] = ret_level.upper()
        if err:
            e["err"] = True
            if err_level:
                e["err_level"] = err_level.upper()
        if is_async:
            e["async"] = True
        if kinds:
            e["kinds"] = kinds
        if "pair" in args:
            # x and y are bound by a tuple-struct pattern: recorded with Debug although they are u64
            e["debug_value_bindings"] = sum(1 for i in ("x", "y") if i not in skips and i not in custom)
        if fields in ("sigil_pre", "sigil_val"):
            # `?a` / `d = ?a`: the u64 parameter goes through field::debug because the attribute says so
            e["debug_value_bindings"] = e.get("debug_value_bindings", 0) + 1
        self.expect["generated::" + fn] = e


def pick(rng, xs):
    return xs[rng.randrange(len(xs))]


def one(g, rng, rk=None, body_i=None, is_async=None):
    rk = rk or pick(rng, ["value", "value", "result", "result", "unit"])
    body_i = rng.randrange(8) if body_i is None else body_i
    is_async = (rng.random() < 0.4) if is_async is None else is_async
    args = [k for k in ARGS if rng.random() < 0.3]
    level = pick(rng, LEVELS)
    name = pick(rng, [None, None, "custom name"])
    target = pick(rng, [None, None, "tgt::x"])
    idents = ["a"] + [i for k in args for i in ARGS[k][1]]
    skips = [i for i in idents if rng.random() < 0.25]
    fields = pick(rng, [None, None, "expr", "lit", "shadow", "dotted", "dotted_leaf", "dotted_same", "sigil_pre", "sigil_val"])
    if fields in ("expr", "dotted") and "a" in skips:
        pass    # field expressions may still use skipped arguments
    ret = None
    if rng.random() < 0.45:
        modes = [None, "Debug"] + (["Display"] if rk == "value" else [])
        ret = (pick(rng, modes), pick(rng, [None, None, "warn", "trace"]))
    err = None
    if rk == "result" and rng.random() < 0.6:
        err = (pick(rng, [None, "Debug", "Display"]), pick(rng, [None, None, "info", "warn"]))
    g.add(rk, body_i, is_async, args, level, name, target, skips, fields, ret, err)


def config(rng):
    """One random point of the attribute/shape space, as the keyword arguments of Gen.add."""
    rk = pick(rng, ["value", "value", "result", "result", "unit"])
    args = [k for k in ARGS if rng.random() < 0.3]
    idents = ["a"] + [i for k in args for i in ARGS[k][1]]
    ret = err = None
    if rng.random() < 0.45:
        ret = (pick(rng, [None, "Debug"] + (["Display"] if rk == "value" else [])), pick(rng, [None, None, "warn", "trace"]))
    if rk == "result" and rng.random() < 0.6:
        err = (pick(rng, [None, "Debug", "Display"]), pick(rng, [None, None, "info", "warn"]))
    return dict(rk=rk, body_i=rng.randrange(len(BODIES[rk])), is_async=rng.random() < 0.4, args=args, level=pick(rng, LEVELS),
                name=pick(rng, [None, None, "custom name"]), target=pick(rng, [None, None, "tgt::x"]),
                skips=[i for i in idents if rng.random() < 0.25],
                fields=pick(rng, [None, None, "expr", "lit", "shadow", "dotted", "dotted_leaf", "dotted_same", "sigil_pre", "sigil_val"]), ret=ret, err=err,
                skip_all=rng.random() < 0.12)


def features(c):
    """The dimension values of a configuration whose pairwise combinations the quick corpus must cover."""
    f = {"rk=%s" % c["rk"], "async=%s" % c["is_async"], "level=%s" % c["level"], "name=%s" % bool(c["name"]), "target=%s" % bool(c["target"]),
         "fields=%s" % c["fields"], "skip_a=%s" % ("a" in c["skips"]), "skip_all=%s" % c.get("skip_all", False),
         "ret=%s" % (("mode:%s" % c["ret"][0]) if c["ret"] else None), "retlvl=%s" % (c["ret"][1] if c["ret"] else "-"),
         "err=%s" % (("mode:%s" % c["err"][0]) if c["err"] else None), "errlvl=%s" % (c["err"][1] if c["err"] else "-")}
    f |= {"arg:%s" % k for k in c["args"]}
    return f


def pairwise(g, budget=4000):
    """Greedy pairwise cover: draw configurations from a fixed stream and keep each one that exhibits a pair of dimension
    values no kept configuration has shown yet (a fault that needs two options together -- `target` with `err(Debug)` --
    is then in the quick corpus, not only in the random tier)."""
    rng = random.Random(4242)
    seen = set()
    kept = 0
    for _ in range(budget):
        c = config(rng)
        fs = sorted(features(c))
        pairs = {(x, y) for i, x in enumerate(fs) for y in fs[i + 1:]}
        if len(pairs - seen) >= (3 if kept < 40 else 1):
            seen |= pairs
            g.add(**c)
            kept += 1
    return kept


def canonical(g):
    rng = random.Random(1729)
    # every body shape, sync and async, with randomly mixed attribute arguments
    for rk in ("value", "result", "unit"):
        for i in range(len(BODIES[rk])):
            for is_async in (False, True):
                one(g, rng, rk, i, is_async)
    # every ret/err mode x level on the two wrappers (sync and async)
    for is_async in (False, True):
        for mode in (None, "Debug", "Display"):
            for lv in (None, "warn"):
                g.add("value", 0, is_async, [], "debug", None, None, [], None, (mode, lv), None)
                g.add("result", 0, is_async, ["big"], None, None, None, [], None, None, (mode, lv))
                g.add("result", 1, is_async, [], "trace", None, None, ["a"], "expr", (None if mode == "Display" else mode, lv), (mode, "info" if lv else None))
    # ... and the same with a configured target (and name): the span and each ret/err event carry it, whatever the mode
    for is_async in (False, True):
        for mode in (None, "Debug", "Display"):
            g.add("value", 0, is_async, [], None, None, "tgt::ev", [], None, (mode, None), None)
            g.add("result", 0, is_async, [], None, "named", "tgt::ev", [], None, None, (mode, None))
            g.add("result", 1, is_async, ["b"], "debug", None, "tgt::ev", [], None, (None if mode == "Display" else mode, "trace"), (mode, "warn"))
    # every argument kind alone and all together, skipped and not
    for k in ARGS:
        g.add("value", 0, False, [k], None, None, None, [], None, None, None)
        g.add("value", 1, True, [k], None, None, None, ARGS[k][1], None, None, None)
    g.add("value", 2, False, list(ARGS), "warn", "all args", "tgt::all", ["b"], "lit", (None, None), None)
    g.add("result", 0, True, list(ARGS), "error", None, None, ["a", "x"], "shadow", None, (None, None))
    for f in ("expr", "lit", "shadow", "dotted", "dotted_leaf", "dotted_same", "sigil_pre", "sigil_val"):
        g.add("value", 0, False, ["b"], None, None, None, [], f, None, None)
        g.add("unit", 0, True, [], None, None, None, [], f, None, None)
    # skip_all: no parameter is recorded (custom fields still are), sync and async, with arguments of every kind
    g.add("value", 0, False, ["b", "big", "t"], None, None, None, [], None, None, None, skip_all=True)
    g.add("result", 0, True, ["b", "pair"], "debug", None, None, [], "expr", None, (None, None), skip_all=True)
    g.add("unit", 1, False, list(ARGS), None, "named", "tgt::s", [], "lit", None, None, skip_all=True)
    pairwise(g)


def main():
    out = sys.argv[1]
    seed = int(sys.argv[2]) if len(sys.argv) > 2 else 0
    extra = int(sys.argv[3]) if len(sys.argv) > 3 else 0
    g = Gen()
    canonical(g)
    if extra:
        rng = random.Random(seed * 7919 + 17)
        for _ in range(extra):
            one(g, rng)
    with open(os.path.join(out, "src", "generated.rs"), "w") as fh:
        fh.write("//! GENERATED by fixtures/gen_instrument.py — do not edit.\n#![allow(unused, clippy::all)]\nuse super::*;\n\n" + "\n".join(g.src))
    with open(os.path.join(out, "gen_expect.json"), "w") as fh:
        json.dump(g.expect, fh, indent=0, sort_keys=True)
    print("generated %d instrumented functions" % g.n)


if __name__ == "__main__":
    main()
