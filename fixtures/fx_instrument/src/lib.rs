//! Fixture crate for C17: every `#[instrument]`-ed function `f` has an uninstrumented twin `f_twin` with the same body.
//! Bodies consist of calls to distinct marker functions. Never executed; compiled to MIR and compared.
#![allow(unused, clippy::all)]
use tracing::instrument;

macro_rules! markers { ($($n:ident),*) => { $( #[inline(never)] pub fn $n() -> u64 { 0 } )* } }
markers!(m1, m2, m3, m4, m5, m6, m7, m8, m9);
#[inline(never)] pub fn cond() -> bool { true }
#[inline(never)] pub fn fallible() -> Result<u64, String> { Ok(1) }
#[derive(Debug, Clone)] pub struct Big { pub a: u64, pub b: String }
#[derive(Debug)] pub struct Pair(pub u64, pub u64);
pub struct Svc { pub n: u64 }

// ---- plain
#[instrument]
pub fn plain(a: u64, b: &str) -> u64 { m1(); m2(); a + m3() }
pub fn plain_twin(a: u64, b: &str) -> u64 { m1(); m2(); a + m3() }

// ---- unit return, no args
#[instrument]
pub fn unit() { m1(); m2(); }
pub fn unit_twin() { m1(); m2(); }

// ---- early return
#[instrument(level = "debug")]
pub fn early(a: u64) -> u64 { m1(); if cond() { return m2(); } m3(); m4() }
pub fn early_twin(a: u64) -> u64 { m1(); if cond() { return m2(); } m3(); m4() }

// ---- question mark
#[instrument(err)]
pub fn question(a: u64) -> Result<u64, String> { m1(); let v = fallible()?; m2(); Ok(v + a) }
pub fn question_twin(a: u64) -> Result<u64, String> { m1(); let v = fallible()?; m2(); Ok(v + a) }

// ---- ret
#[instrument(ret)]
pub fn with_ret(a: u64) -> u64 { m1(); a + m2() }
pub fn with_ret_twin(a: u64) -> u64 { m1(); a + m2() }

// ---- ret + err, custom levels
#[instrument(ret(level = "warn"), err(level = "info"))]
pub fn ret_err(a: u64) -> Result<u64, String> { m1(); if cond() { return Err(String::new()); } m2(); Ok(a) }
pub fn ret_err_twin(a: u64) -> Result<u64, String> { m1(); if cond() { return Err(String::new()); } m2(); Ok(a) }

// ---- name / target / level
#[instrument(name = "custom name", target = "custom::target", level = "trace")]
pub fn named(a: u64) -> u64 { m1(); m2() }
pub fn named_twin(a: u64) -> u64 { m1(); m2() }

// ---- skip
#[instrument(skip(big))]
pub fn skipping(a: u64, big: Big) -> u64 { m1(); big.a + m2() }
pub fn skipping_twin(a: u64, big: Big) -> u64 { m1(); big.a + m2() }

// ---- skip everything + custom fields (this tree's attribute has no `skip_all`; unknown arguments only warn)
#[instrument(skip(a, b), fields(answer = 42, who = %b))]
pub fn skip_all_fields(a: u64, b: &str) -> u64 { m1(); m2(); a }
pub fn skip_all_fields_twin(a: u64, b: &str) -> u64 { m1(); m2(); a }

// ---- fields with expressions over arguments
#[instrument(fields(double = a * 2, len = b.len()))]
pub fn field_exprs(a: u64, b: &str) -> u64 { m1(); a + m2() }
pub fn field_exprs_twin(a: u64, b: &str) -> u64 { m1(); a + m2() }

// ---- by-value non-Copy argument used (moved) in the body
#[instrument]
pub fn moves(big: Big) -> String { m1(); let s = big.b; m2(); s }
pub fn moves_twin(big: Big) -> String { m1(); let s = big.b; m2(); s }

// ---- mutable argument
#[instrument]
pub fn mutable(mut a: u64) -> u64 { m1(); a += m2(); a }
pub fn mutable_twin(mut a: u64) -> u64 { m1(); a += m2(); a }

// ---- destructured argument
#[instrument]
pub fn destructured(Pair(x, y): Pair) -> u64 { m1(); x + y + m2() }
pub fn destructured_twin(Pair(x, y): Pair) -> u64 { m1(); x + y + m2() }

// ---- generic + impl Trait
#[instrument(skip(t, u))]
pub fn generic<T: Clone>(t: T, u: impl AsRef<str>) -> usize { m1(); u.as_ref().len() + m2() as usize }
pub fn generic_twin<T: Clone>(t: T, u: impl AsRef<str>) -> usize { m1(); u.as_ref().len() + m2() as usize }

// ---- methods
impl Svc {
    #[instrument(skip(self))]
    pub fn method(&self, a: u64) -> u64 { m1(); self.n + a + m2() }
    pub fn method_twin(&self, a: u64) -> u64 { m1(); self.n + a + m2() }

    #[instrument(skip(self), fields(n = self.n))]
    pub fn method_mut(&mut self, a: u64) { m1(); self.n += a; m2(); }
    pub fn method_mut_twin(&mut self, a: u64) { m1(); self.n += a; m2(); }
}

// ---- panicking body
#[instrument]
pub fn panics(a: u64) -> u64 { m1(); if cond() { panic!("boom"); } m2() }
pub fn panics_twin(a: u64) -> u64 { m1(); if cond() { panic!("boom"); } m2() }

// ---- loops and nested closures
#[instrument]
pub fn looping(n: u64) -> u64 { let mut s = m1(); for _ in 0..n { s += m2(); } let f = || m3(); s + f() }
pub fn looping_twin(n: u64) -> u64 { let mut s = m1(); for _ in 0..n { s += m2(); } let f = || m3(); s + f() }

// ---- async
#[instrument]
pub async fn asynchronous(a: u64) -> u64 { m1(); let v = helper().await; m2(); a + v }
pub async fn asynchronous_twin(a: u64) -> u64 { m1(); let v = helper().await; m2(); a + v }
pub async fn helper() -> u64 { m9() }

#[instrument(err, skip(b))]
pub async fn async_err(a: u64, b: Big) -> Result<u64, String> { m1(); let v = fallible()?; helper().await; m2(); Ok(v + b.a) }
pub async fn async_err_twin(a: u64, b: Big) -> Result<u64, String> { m1(); let v = fallible()?; helper().await; m2(); Ok(v + b.a) }

// ---- parent / follows_from
#[instrument(parent = parent, skip(parent))]
pub fn with_parent(parent: &tracing::Span, a: u64) -> u64 { m1(); a + m2() }
pub fn with_parent_twin(parent: &tracing::Span, a: u64) -> u64 { m1(); a + m2() }

#[instrument(follows_from = causes, skip(causes))]
pub fn with_follows(causes: Vec<tracing::span::Id>, a: u64) -> u64 { m1(); a + m2() }
pub fn with_follows_twin(causes: Vec<tracing::span::Id>, a: u64) -> u64 { m1(); a + m2() }

// ---- ret at the span's (non-default) level
#[instrument(level = "debug", ret)]
pub fn ret_lvl(a: u64) -> u64 { m1(); a + m2() }
pub fn ret_lvl_twin(a: u64) -> u64 { m1(); a + m2() }

// ---- ret(Display) / err(Debug)
#[instrument(ret(Display))]
pub fn ret_display(a: u64) -> u64 { m1(); a + m2() }
pub fn ret_display_twin(a: u64) -> u64 { m1(); a + m2() }

#[instrument(err(Debug))]
pub fn err_debug(a: u64) -> Result<u64, String> { m1(); let v = fallible()?; m2(); Ok(v + a) }
pub fn err_debug_twin(a: u64) -> Result<u64, String> { m1(); let v = fallible()?; m2(); Ok(v + a) }

// ---- async with ret / ret + err
#[instrument(ret)]
pub async fn async_ret(a: u64) -> u64 { m1(); let v = helper().await; m2(); a + v }
pub async fn async_ret_twin(a: u64) -> u64 { m1(); let v = helper().await; m2(); a + v }

#[instrument(ret, err)]
pub async fn async_ret_err(a: u64) -> Result<u64, String> { m1(); let v = fallible()?; helper().await; if cond() { return Err(String::new()); } m2(); Ok(v + a) }
pub async fn async_ret_err_twin(a: u64) -> Result<u64, String> { m1(); let v = fallible()?; helper().await; if cond() { return Err(String::new()); } m2(); Ok(v + a) }

// ---- impl Trait return
#[instrument]
pub fn impl_ret(n: u64) -> impl Iterator<Item = u64> { m1(); let k = m2(); (0..n).map(move |x| x + k) }
pub fn impl_ret_twin(n: u64) -> impl Iterator<Item = u64> { m1(); let k = m2(); (0..n).map(move |x| x + k) }

// ---- by-value self, unused non-Copy argument
impl Svc {
    #[instrument(skip(self))]
    pub fn consume(self, a: u64) -> u64 { m1(); self.n + a + m2() }
    pub fn consume_twin(self, a: u64) -> u64 { m1(); self.n + a + m2() }
}

#[instrument]
pub fn unused_arg(big: Big, a: u64) -> u64 { m1(); a + m2() }
pub fn unused_arg_twin(big: Big, a: u64) -> u64 { m1(); a + m2() }

// ---- async-trait style: a fn returning a pinned boxed `async move` block
#[instrument]
pub fn boxed(a: u64) -> std::pin::Pin<Box<dyn std::future::Future<Output = u64> + Send>> {
    Box::pin(async move { m1(); let v = helper().await; m2(); a + v })
}
pub fn boxed_twin(a: u64) -> std::pin::Pin<Box<dyn std::future::Future<Output = u64> + Send>> {
    Box::pin(async move { m1(); let v = helper().await; m2(); a + v })
}

// ---- target only; custom field shadowing a parameter
#[instrument(target = "only::target")]
pub fn target_only(a: u64) -> u64 { m1(); a + m2() }
pub fn target_only_twin(a: u64) -> u64 { m1(); a + m2() }

#[instrument(fields(a = 7))]
pub fn shadowed(a: u64, b: u64) -> u64 { m1(); a + b + m2() }
pub fn shadowed_twin(a: u64, b: u64) -> u64 { m1(); a + b + m2() }

// ---- nested closure capturing an argument, match, while
#[instrument(err)]
pub fn nested(a: u64, big: Big) -> Result<u64, String> {
    let f = |x: u64| x + a + m1();
    let mut i = 0;
    while i < f(1) { i += m2(); if cond() { break; } }
    match fallible() { Ok(v) => { m3(); Ok(v + big.a) } Err(e) => { m4(); Err(e) } }
}
pub fn nested_twin(a: u64, big: Big) -> Result<u64, String> {
    let f = |x: u64| x + a + m1();
    let mut i = 0;
    while i < f(1) { i += m2(); if cond() { break; } }
    match fallible() { Ok(v) => { m3(); Ok(v + big.a) } Err(e) => { m4(); Err(e) } }
}
// ---- numeric levels (documented in tracing-attributes: 1 = TRACE ... 5 = ERROR)
#[instrument(level = 1)] pub fn digit1() { m1(); }
pub fn digit1_twin() { m1(); }
#[instrument(level = 2)] pub fn digit2() { m1(); }
pub fn digit2_twin() { m1(); }
#[instrument(level = 3)] pub fn digit3() { m1(); }
pub fn digit3_twin() { m1(); }
#[instrument(level = 4)] pub fn digit4() { m1(); }
pub fn digit4_twin() { m1(); }
#[instrument(level = 5)] pub fn digit5() { m1(); }
pub fn digit5_twin() { m1(); }

// ---- a parameter that happens to be called `_self` (the name old async-trait gave its receiver) in a plain function
#[instrument] pub fn under_self(_self: u64, n: u64) -> u64 { m1(); _self + n }
pub fn under_self_twin(_self: u64, n: u64) -> u64 { m1(); _self + n }
#[instrument] pub async fn under_self_async(_self: u64, n: u64) -> u64 { m1(); _self + n }
pub async fn under_self_async_twin(_self: u64, n: u64) -> u64 { m1(); _self + n }

pub mod generated;

// ---- async-trait style with a qualified path to Box::pin (what macro-generated code writes), and an unboxed async block
#[instrument]
pub fn boxed_qualified(a: u64) -> std::pin::Pin<Box<dyn std::future::Future<Output = u64> + Send>> {
    std::boxed::Box::pin(async move { m1(); let v = helper().await; m2(); a + v })
}
pub fn boxed_qualified_twin(a: u64) -> std::pin::Pin<Box<dyn std::future::Future<Output = u64> + Send>> {
    std::boxed::Box::pin(async move { m1(); let v = helper().await; m2(); a + v })
}

#[instrument(level = "debug")]
pub fn boxed_abs(a: u64) -> ::std::pin::Pin<::std::boxed::Box<dyn ::std::future::Future<Output = u64> + Send>> {
    ::std::boxed::Box::pin(async move { m1(); if cond() { return m3(); } let v = helper().await; m2(); a + v })
}
pub fn boxed_abs_twin(a: u64) -> ::std::pin::Pin<::std::boxed::Box<dyn ::std::future::Future<Output = u64> + Send>> {
    ::std::boxed::Box::pin(async move { m1(); if cond() { return m3(); } let v = helper().await; m2(); a + v })
}

#[instrument]
pub fn async_block(a: u64) -> impl std::future::Future<Output = u64> {
    async move { m1(); let v = helper().await; m2(); a + v }
}
pub fn async_block_twin(a: u64) -> impl std::future::Future<Output = u64> {
    async move { m1(); let v = helper().await; m2(); a + v }
}

// ---- dotted custom field whose LAST segment is a parameter name: the parameter is still recorded under its own name
#[instrument(fields(http.method = method))]
pub fn dotted_leaf(method: &str, path: &str) -> u64 { m1(); m2() }
pub fn dotted_leaf_twin(method: &str, path: &str) -> u64 { m1(); m2() }

// ---- dotted custom field whose FIRST segment is a parameter name
#[instrument(fields(a.len = 1))]
pub fn dotted_root(a: u64, b: u64) -> u64 { m1(); a + b + m2() }
pub fn dotted_root_twin(a: u64, b: u64) -> u64 { m1(); a + b + m2() }

// ---- legacy async-trait (<= 0.1.43) shape: an inner `async fn` called inside `Box::pin(..)`. The attribute instruments the
// inner function, but the span is the *outer* function's: its name, and the outer parameters as fields.
#[instrument]
pub fn legacy_boxed(a: u64) -> std::pin::Pin<Box<dyn std::future::Future<Output = u64> + Send>> {
    async fn __legacy_boxed(a: u64) -> u64 { m1(); let v = helper().await; m2(); a + v }
    Box::pin(__legacy_boxed(a))
}
pub fn legacy_boxed_twin(a: u64) -> std::pin::Pin<Box<dyn std::future::Future<Output = u64> + Send>> {
    async fn __legacy_boxed(a: u64) -> u64 { m1(); let v = helper().await; m2(); a + v }
    Box::pin(__legacy_boxed(a))
}

#[instrument(level = "warn", target = "legacy::t")]
pub fn legacy_boxed_opts(a: u64, b: u64) -> std::pin::Pin<Box<dyn std::future::Future<Output = u64> + Send>> {
    async fn __inner_opts(a: u64, b: u64) -> u64 { m1(); if cond() { return m3(); } helper().await; a + b + m2() }
    Box::pin(__inner_opts(a, b))
}
pub fn legacy_boxed_opts_twin(a: u64, b: u64) -> std::pin::Pin<Box<dyn std::future::Future<Output = u64> + Send>> {
    async fn __inner_opts(a: u64, b: u64) -> u64 { m1(); if cond() { return m3(); } helper().await; a + b + m2() }
    Box::pin(__inner_opts(a, b))
}

// ---- field sigils: `?` / `%` written before the field name (shorthand for a variable or place of that name) and before
// the value; a bare name is an empty field to be recorded later
#[instrument(skip(a, b, big), fields(?a, %b, ?big.a, x = ?b, y = %a, z = a, later))]
pub fn sigils(a: &str, b: &str, big: &Big) -> u64 { m1(); big.a + m2() }
pub fn sigils_twin(a: &str, b: &str, big: &Big) -> u64 { m1(); big.a + m2() }

// ---- the shorthand on parameters that are not skipped: the custom field replaces the default recording
#[instrument(fields(?a, %b))]
pub fn sigils_params(a: &str, b: &str, c: u64) -> u64 { m1(); c + m2() }
pub fn sigils_params_twin(a: &str, b: &str, c: u64) -> u64 { m1(); c + m2() }

#[instrument(fields(?a, id = %b.a))]
pub async fn sigils_async(a: String, b: Big) -> u64 { m1(); let v = helper().await; m2(); b.a + v }
pub async fn sigils_async_twin(a: String, b: Big) -> u64 { m1(); let v = helper().await; m2(); b.a + v }

// ---- the order of the attribute's arguments means nothing: `ret` (without a level of its own) written *before* `level`
// still reports at the span's level; name / target / skip / fields after the event options
#[instrument(ret, level = "warn")]
pub fn order_ret_level(a: u64) -> u64 { m1(); a + m2() }
pub fn order_ret_level_twin(a: u64) -> u64 { m1(); a + m2() }

#[instrument(err, ret(Display), level = "trace", target = "order::t", name = "renamed_late", skip(b), fields(extra = 1))]
pub fn order_all_late(a: u64, b: Big) -> Result<u64, String> { m1(); let v = fallible()?; m2(); Ok(v + a + b.a) }
pub fn order_all_late_twin(a: u64, b: Big) -> Result<u64, String> { m1(); let v = fallible()?; m2(); Ok(v + a + b.a) }

#[instrument(ret, level = "debug")]
pub async fn order_ret_level_async(a: u64) -> u64 { m1(); let v = helper().await; m2(); a + v }
pub async fn order_ret_level_async_twin(a: u64) -> u64 { m1(); let v = helper().await; m2(); a + v }

// ---- #[track_caller]: the body's `Location::caller()` is the caller's location only while the body stays in the function
// itself; a closure (the `ret` / `err` wrappers) does not inherit the attribute
#[track_caller]
#[instrument]
pub fn tc_plain(a: u64) -> u64 { m1(); let l = ::core::panic::Location::caller(); a + l.line() as u64 + m2() }
#[track_caller]
pub fn tc_plain_twin(a: u64) -> u64 { m1(); let l = ::core::panic::Location::caller(); a + l.line() as u64 + m2() }

#[track_caller]
#[instrument(ret)]
pub fn tc_ret(a: u64) -> u64 { m1(); let l = ::core::panic::Location::caller(); a + l.line() as u64 + m2() }
#[track_caller]
pub fn tc_ret_twin(a: u64) -> u64 { m1(); let l = ::core::panic::Location::caller(); a + l.line() as u64 + m2() }
