//! Fixture crate: uses every tracing macro form; never executed, only compiled to MIR and analysed.
#[path = "../../gen/src/macros_gen.rs"]
mod macros_gen;
pub use macros_gen::*;
