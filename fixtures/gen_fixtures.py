#!/usr/bin/env python3
"""Deterministic generator of the fixture crates that *use* the real tracing macros.

The macros are compilers: their output only exists at a use site. Each generated function contains one
macro invocation whose field/message expressions are calls to distinct marker functions, so the rules
can locate them in the MIR of the expansion (they are ordinary, non-macro code). expect.json records, per
function, what the invocation declared (macro, level, field names in order, markers in order, sigils).

usage: gen_fixtures.py <out_dir> [seed] [extra_random_count]
"""
import json
import os
import random
import sys

LEVELS = ["TRACE", "DEBUG", "INFO", "WARN", "ERROR"]
SHORT = {"TRACE": "trace", "DEBUG": "debug", "INFO": "info", "WARN": "warn", "ERROR": "error"}

# value marker kinds: (rust type, body)
MARKER_KINDS = [
    ("u64", "7"), ("i64", "-3"), ("bool", "true"), ("&'static str", "\"s\""), ("f64", "1.5"),
    ("Dbg", "Dbg(1)"), ("Disp", "Disp(2)"), ("u8", "3"), ("i128", "9"), ("String", "String::from(\"x\")"),
]


class Gen:
    def __init__(self, seed):
        self.rng = random.Random(seed)
        self.markers = []     # (name, type, body)
        self.fns = []         # rust source of functions
        self.expect = {}
        self.n = 0

    def marker(self, kind=None, sigil=""):
        if kind is None:
            kind = self.n % len(MARKER_KINDS)
        ty, body = MARKER_KINDS[kind]
        if sigil == "?":
            ty, body = "Dbg", "Dbg(1)"
        elif sigil == "%":
            ty, body = "Disp", "Disp(2)"
        elif ty in ("Dbg", "Disp", "String"):
            ty, body = "u64", "7"    # plain `k = v` needs a Value type
        name = "probe_%d" % len(self.markers)
        self.markers.append((name, ty, body))
        return name

    def field(self, form, idx):
        """-> (source text, declared name, marker or None, sigil, pre statements)"""
        if form == "kv":
            m = self.marker()
            return "f%d = %s()" % (idx, m), "f%d" % idx, m, "", []
        if form == "kv_dbg":
            m = self.marker(sigil="?")
            return "f%d = ?%s()" % (idx, m), "f%d" % idx, m, "?", []
        if form == "kv_disp":
            m = self.marker(sigil="%")
            return "f%d = %%%s()" % (idx, m), "f%d" % idx, m, "%", []
        if form == "dotted":
            m = self.marker()
            return "a%d.b.c = %s()" % (idx, m), "a%d.b.c" % idx, m, "", []
        if form == "literal":
            m = self.marker()
            return "\"lit name %d\" = %s()" % (idx, m), "lit name %d" % idx, m, "", []
        if form == "const":
            m = self.marker()
            return "{ CONST_NAME } = %s()" % m, "const.name", m, "", []
        if form in ("const_dbg", "const_disp"):
            sg = "?" if form.endswith("dbg") else "%"
            m = self.marker(sigil=sg)
            return "{ CONST_NAME } = %s%s()" % (sg, m), "const.name", m, sg, []
        if form in ("literal_dbg", "literal_disp"):
            sg = "?" if form.endswith("dbg") else "%"
            m = self.marker(sigil=sg)
            return "\"lit name %d\" = %s%s()" % (idx, sg, m), "lit name %d" % idx, m, sg, []
        if form in ("dotted_dbg", "dotted_disp"):
            sg = "?" if form.endswith("dbg") else "%"
            m = self.marker(sigil=sg)
            return "a%d.b.c = %s%s()" % (idx, sg, m), "a%d.b.c" % idx, m, sg, []
        if form == "raw":
            m = self.marker()
            return "r#type = %s()" % m, "r#type", m, "", []   # stringify! keeps the r# prefix in this tree
        if form == "short":
            m = self.marker()
            return "v%d" % idx, "v%d" % idx, m, "", ["let v%d = %s();" % (idx, m)]
        if form == "short_dbg":
            m = self.marker(sigil="?")
            return "?v%d" % idx, "v%d" % idx, m, "?", ["let v%d = %s();" % (idx, m)]
        if form == "short_disp":
            m = self.marker(sigil="%")
            return "%%v%d" % idx, "v%d" % idx, m, "%", ["let v%d = %s();" % (idx, m)]
        if form == "empty":
            return "e%d = tracing::field::Empty" % idx, "e%d" % idx, None, "empty", []
        raise ValueError(form)

    def message(self, form):
        """-> (source text, markers)"""
        if form == "none":
            return None, []
        if form == "lit":
            return "\"plain message\"", []
        if form == "fmt":
            m = self.marker(kind=0)
            return "\"msg {} {}\", %s(), 1" % m, [m]
        raise ValueError(form)

    def add(self, kind, macro, level, prefix, fields, msg, braces=False, name=None):
        """kind: event|span|enabled; macro: 'event'/'info'/'span'/'info_span'/...; prefix: list of (key, text)"""
        self.n += 1
        fname = "fx_%s_%03d" % (kind, self.n)
        pre = []
        eager = []
        fsrc, names, markers, sigils = [], [], [], []
        for i, form in enumerate(fields):
            src, nm, mk, sg, p = self.field(form, i)
            if p and mk:
                eager.append(mk)
            fsrc.append(src)
            names.append(nm)
            markers.append(mk)
            sigils.append(sg)
            pre += p
        msrc, mmarkers = self.message(msg)
        args = []
        for k, v in prefix:
            args.append("%s: %s" % (k, v))
        shorthand = macro in SHORT.values() or macro.endswith("_span")
        if not shorthand:
            args.append("Level::%s" % level)
        if kind == "span":
            args.append("\"%s\"" % (name or ("span " + fname)))
        body_fields = ", ".join(fsrc)
        if kind == "enabled":
            # enabled! takes field *names* only
            body_fields = ", ".join(n for n in names if n.isidentifier())
            names = [n for n in names if n.isidentifier()]
            markers, sigils, pre, msrc, mmarkers, eager = [], [], [], None, [], []
        if braces and body_fields:
            body_fields = "{ " + body_fields + " }"
        if body_fields:
            args.append(body_fields)
        if msrc and kind != "span":
            args.append(msrc)
        elif msrc and kind == "span":
            msrc, mmarkers = None, []
        call = "tracing::%s!(%s)" % (macro, ", ".join(args))
        if kind == "event":
            stmt = call + ";"
            ret = ""
        elif kind == "span":
            stmt = "let s = " + call + ";\n    keep(&s);"
            ret = ""
        else:
            stmt = "keep_bool(" + call + ");"
            ret = ""
        needs_parent = any(k == "parent" for k, _ in prefix)
        sig = "pub fn %s(%s)" % (fname, "parent_span: &tracing::Span" if needs_parent else "")
        src = "%s {\n    %s\n    %s\n}\n" % (sig, "\n    ".join(pre), stmt)
        self.fns.append(src)
        self.expect[fname] = dict(kind=kind, macro=macro, level=level, prefix=[k for k, _ in prefix],
                                  names=(["message"] if (msrc and kind == "event") else []) + names,
                                  markers=markers, sigils=sigils, eager=eager, msg_markers=mmarkers, has_message=bool(msrc and kind == "event"),
                                  target=dict(prefix).get("target"), name=dict(prefix).get("name"), parent=dict(prefix).get("parent"))

    def render(self, crate):
        out = ["// @generated by fixtures/gen_fixtures.py — do not edit",
               "#![allow(unused, clippy::all)]",
               "use tracing::Level;",
               "pub const CONST_NAME: &str = \"const.name\";",
               # both marker types implement both traits, so that an expansion using the wrong wrapper still compiles and
               # the sigil rule (not a compile error) reports it
               "#[derive(Debug)] pub struct Dbg(pub u32);",
               "#[derive(Debug)] pub struct Disp(pub u32);",
               "impl core::fmt::Display for Disp { fn fmt(&self, f: &mut core::fmt::Formatter<'_>) -> core::fmt::Result { f.write_str(\"d\") } }",
               "impl core::fmt::Display for Dbg { fn fmt(&self, f: &mut core::fmt::Formatter<'_>) -> core::fmt::Result { f.write_str(\"g\") } }",
               "#[inline(never)] pub fn keep<T>(_t: &T) {}",
               "#[inline(never)] pub fn keep_bool(_b: bool) {}"]
        for name, ty, body in self.markers:
            out.append("#[inline(never)] pub fn %s() -> %s { %s }" % (name, ty, body))
        out += self.fns
        return "\n".join(out) + "\n"


EVENT_PREFIXES = [
    [], [("target", "\"tgt::a\"")], [("parent", "parent_span")], [("target", "\"tgt::b\""), ("parent", "parent_span")],
    [("name", "\"named ev\"")], [("name", "\"named ev2\""), ("target", "\"tgt::c\"")],
    [("name", "\"named ev3\""), ("parent", "parent_span")],
    [("name", "\"named ev4\""), ("target", "\"tgt::d\""), ("parent", "parent_span")],
]
SPAN_PREFIXES = [[], [("target", "\"tgt::s\"")], [("parent", "parent_span")], [("target", "\"tgt::t\""), ("parent", "parent_span")],
                 [("parent", "None")]]
FIELD_SETS = [
    [], ["kv"], ["kv", "kv_dbg", "kv_disp"], ["dotted", "literal"], ["const", "raw"], ["short", "short_dbg", "short_disp"],
    ["kv", "empty", "kv"], ["kv_dbg", "dotted", "short", "literal", "kv_disp"], ["empty"],
]
MSGS = ["none", "lit", "fmt"]
ALL_FORMS = ["kv", "kv_dbg", "kv_disp", "dotted", "dotted_dbg", "dotted_disp", "literal", "literal_dbg", "literal_disp",
             "const", "const_dbg", "const_disp", "raw", "short", "short_dbg", "short_disp", "empty"]


def canonical(g):
    # event!: every prefix set x a rotating selection of field sets/messages (+ braces form)
    k = 0
    for pi, prefix in enumerate(EVENT_PREFIXES):
        for fi, fs in enumerate(FIELD_SETS):
            msg = MSGS[(pi + fi) % 3]
            if not fs and msg == "none":
                msg = "lit"
            lvl = LEVELS[(pi + fi) % 5]
            g.add("event", "event", lvl, prefix, fs, msg)
            k += 1
        g.add("event", "event", "INFO", prefix, ["kv", "kv_dbg"], "lit", braces=True)
        g.add("event", "event", "WARN", prefix, ["kv"], "fmt", braces=True)
    # every valueset!/fieldset! arm: each field form as the last field (no trailing comma), followed by another field,
    # and followed by a message, in event! and span!
    for i, form in enumerate(ALL_FORMS):
        lvl = LEVELS[i % 5]
        g.add("event", "event", lvl, [], [form], "none")
        g.add("event", "event", lvl, [("target", "\"tgt::v\"")], [form, "kv"], "none")
        g.add("event", "event", lvl, [], ["kv", form], "lit")
        g.add("event", "event", lvl, [], [form], "fmt", braces=True)
        g.add("span", "span", lvl, [], [form], "none")
        g.add("span", "span", lvl, [("parent", "parent_span")], [form, "kv_dbg"], "none")
    # level shorthands
    for lvl in LEVELS:
        for prefix in EVENT_PREFIXES:
            for fs, msg in ((["kv", "kv_dbg"], "fmt"), ([], "lit"), (["short", "kv_disp"], "none"), (["kv", "dotted", "empty"], "lit")):
                g.add("event", SHORT[lvl], lvl, prefix, fs, msg)
    # span!
    for pi, prefix in enumerate(SPAN_PREFIXES):
        for fi, fs in enumerate(FIELD_SETS):
            g.add("span", "span", LEVELS[(pi + fi) % 5], prefix, fs, "none")
    for lvl in LEVELS:
        for prefix in SPAN_PREFIXES:
            for fs in ([], ["kv", "kv_dbg", "empty"], ["short_disp", "literal"]):
                g.add("span", SHORT[lvl] + "_span", lvl, prefix, fs, "none")
    # enabled! family
    for macro in ("enabled", "event_enabled", "span_enabled"):
        for prefix in ([], [("target", "\"tgt::e\"")]):
            for fs in ([], ["kv", "kv"], ["kv"]):
                g.add("enabled", macro, LEVELS[len(g.fns) % 5], prefix, fs, "none")


def randomised(g, count):
    forms = ALL_FORMS
    for _ in range(count):
        kind = g.rng.choice(["event", "event", "span"])
        nf = g.rng.randint(0, 6)
        fs = [g.rng.choice(forms) for _ in range(nf)]
        # const/raw names may appear once
        seen = set()
        fs2 = []
        for f in fs:
            fam = "const" if f.startswith("const") else f
            if fam in ("const", "raw") and fam in seen:
                f = "kv"
            seen.add(fam)
            fs2.append(f)
        lvl = g.rng.choice(LEVELS)
        if kind == "event":
            prefix = g.rng.choice(EVENT_PREFIXES)
            msg = g.rng.choice(MSGS)
            if not fs2 and msg == "none":
                msg = "lit"
            macro = g.rng.choice(["event", SHORT[lvl]])
            if macro != "event" and fs2 and fs2[0] != "kv":
                fs2.insert(0, "kv")   # the level shorthands accept fewer leading field forms (a macro limitation)
            br = macro == "event" and g.rng.random() < 0.2 and bool(fs2)
            if br and msg == "none":
                msg = "lit"
            g.add("event", macro, lvl, prefix, fs2, msg, braces=br)
        else:
            prefix = g.rng.choice(SPAN_PREFIXES)
            macro = g.rng.choice(["span", SHORT[lvl] + "_span"])
            g.add("span", macro, lvl, prefix, fs2, "none")


def main():
    out = sys.argv[1]
    seed = int(sys.argv[2]) if len(sys.argv) > 2 else 0
    extra = int(sys.argv[3]) if len(sys.argv) > 3 else 0
    g = Gen(seed)
    canonical(g)
    if extra:
        randomised(g, extra)
    os.makedirs(os.path.join(out, "src"), exist_ok=True)
    with open(os.path.join(out, "src", "macros_gen.rs"), "w") as fh:
        fh.write(g.render("fx"))
    with open(os.path.join(out, "expect.json"), "w") as fh:
        json.dump(g.expect, fh, indent=0, sort_keys=True)
    print("generated %d functions, %d markers" % (len(g.fns), len(g.markers)))


if __name__ == "__main__":
    main()
